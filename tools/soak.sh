#!/bin/sh
# usage: [SOAK_START=k] tools/soak.sh <nseeds> [ids...]   runs every claimed check with seeds k..k+n-1 (default k=1; quick tier); prints failures
N=${1:-3}; shift
IDS="$@"
if [ -z "$IDS" ]; then IDS=$(/venv/bin/python -c "import json;print(' '.join(c['property_id'] for c in json.load(open('MANIFEST.json'))['checks']))" 2>/dev/null | grep -v conda); fi
FAIL=0
for id in $IDS; do
  S0=${SOAK_START:-1}
  for s in $(seq $S0 $((S0 + N - 1))); do
    OUT=$(VERIF_SEED=$s ./check $id --tier quick 2>&1); RC=$?
    if [ $RC -ne 0 ]; then echo "FAIL $id seed=$s rc=$RC"; echo "$OUT" | grep -v conda | tail -5; FAIL=1; fi
  done
  echo "done $id"
done
echo "soak finished fail=$FAIL"
