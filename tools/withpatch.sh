#!/bin/sh
# usage: withpatch.sh <patchfile> <command...>   applies patch to /repo, runs command, always reverts
P="$1"; shift
git -C /repo apply "$P" || { echo "patch does not apply"; exit 3; }
"$@"; RC=$?
git -C /repo checkout -- . 
exit $RC
