#!/bin/sh
# Re-run every claimed check (quick tier, default seed) on the CLEAN tree so that the committed evidence files come from
# the registered commands run against /repo as it is.  Refuses to run when /repo has uncommitted changes.
cd "$(dirname "$0")/.."
if [ -n "$(git -C /repo status --porcelain)" ]; then echo "/repo is not clean"; exit 3; fi
IDS=$(/venv/bin/python -c "import json;print(' '.join(c['property_id'] for c in json.load(open('MANIFEST.json'))['checks']))" 2>/dev/null | grep -v conda)
FAIL=0
for id in $IDS; do
  OUT=$(./check $id --tier quick 2>&1); RC=$?
  echo "$OUT" | grep -v conda | tail -1
  if [ $RC -ne 0 ]; then echo "FAIL $id rc=$RC"; FAIL=1; fi
done
echo "refresh finished fail=$FAIL"
