#!/bin/sh
# Re-introduce each repaired defect (regress/<commit>.diff = reverse of the fix commit) on a scratch checkout and run the quick check
# of the property that found it: a `fixed:` entry suppresses nothing, the violation must be reported again if the defect returns.
cd "$(dirname "$0")/.."
WT=/tmp/wt-regress
git -C /repo worktree remove --force $WT 2>/dev/null
git -C /repo worktree add -q --detach $WT HEAD || exit 3
export VERIF_REPO=$WT PYTHONPATH=$WT
OUT=regress/RESULTS.md
echo "| reverted fix | check | result | detail |" > $OUT.tmp
echo "|---|---|---|---|" >> $OUT.tmp
for c in $(ls regress | grep '\.diff$' | sed 's/\.diff//'); do
  P=$(/venv/bin/python -c "import json;print(json.load(open('regress/commit_property.json')).get('$c',''))" 2>/dev/null | grep -v conda)
  [ -z "$P" ] && continue
  if ! git -C $WT apply --check "$PWD/regress/$c.diff" 2>/dev/null; then
    echo "$c: reverse patch no longer applies (later fixes rewrote the same lines)"; echo "| $c | $P | n/a | reverse patch no longer applies: later fixes rewrote the same lines |" >> $OUT.tmp; continue
  fi
  git -C $WT apply "$PWD/regress/$c.diff"
  O=$(./check $P --tier quick 2>&1); RC=$?
  V=$(echo "$O" | grep '^VIOLATION' | head -1 | cut -c1-140)
  S=$(echo "$O" | grep '^\[' | tail -1 | sed 's/^\[[^]]*\] //' | cut -c1-150)
  K=$(echo "$O" | grep -c '^KNOWN-FINDING')
  echo "$c: check=$P rc=$RC $V"
  case "$V" in
    *no-failing-input-found*) R="reported again (obligation / correspondence broken)";;
    VIOLATION*) R="reported again (failing input replayed)";;
    *) R="NOT reported (rc=$RC)";;
  esac
  echo "| $c | $P | $R | $S |" >> $OUT.tmp
  git -C $WT checkout -- .
done
mv $OUT.tmp $OUT
git -C /repo worktree remove --force $WT
unset VERIF_REPO PYTHONPATH
git checkout -- evidence 2>/dev/null
rm -rf replays
./check --setup >/dev/null 2>&1
cat $OUT
