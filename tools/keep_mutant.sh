#!/bin/sh
# usage: tools/keep_mutant.sh <worktree-id> <seeded-name>
# Confirms a sub-agent's mutant in its scratch worktree (patch applies to a clean checkout, demo fails with / passes without,
# test suite passes with it), stores it under /verif/seeded/<name>/ and removes the worktree.
ID=$1; NAME=$2; WT=${3:-/tmp/wt/$ID}; mkdir -p /tmp/wt
[ -f $WT/patch.diff ] || { echo "no patch in $WT"; exit 2; }
mkdir -p /verif/seeded/$NAME
cp $WT/patch.diff $WT/demo.py $WT/meta.json /verif/seeded/$NAME/ 2>/dev/null
cd $WT && git checkout -q -- . && git clean -fdq -e patch.diff -e demo.py -e meta.json
PYTHONPATH=$WT timeout 120 /venv/bin/python demo.py >/dev/null 2>&1; BASE=$?
git apply /verif/seeded/$NAME/patch.diff || { echo "patch does not apply"; exit 3; }
PYTHONPATH=$WT timeout 120 /venv/bin/python demo.py >/dev/null 2>&1; MUT=$?
PYTHONPATH=$WT timeout 900 /venv/bin/python -m pytest -q -p no:cacheprovider --timeout=900 --ignore=tests/types -x -q >/tmp/wt/$NAME.tests 2>&1; T=$?
echo "$NAME: demo without=$BASE with=$MUT tests_rc=$T $(tail -1 /tmp/wt/$NAME.tests)"
/venv/bin/python - "$NAME" "$BASE" "$MUT" "$T" <<'PY'
import json,sys
n,b,m,t=sys.argv[1:]
p='/verif/seeded/%s/meta.json'%n
try: d=json.load(open(p))
except Exception: d={}
d['confirmed']={'demo_exit_without_change':int(b),'demo_exit_with_change':int(m),'tests_rc_with_change':int(t),
  'ran':'tools/keep_mutant.sh: demo.py on clean checkout and with patch; pytest --ignore=tests/types with patch'}
json.dump(d,open(p,'w'),indent=1)
PY
cd / && git -C /repo worktree remove --force $WT
