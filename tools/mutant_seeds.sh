#!/bin/sh
# usage: tools/mutant_seeds.sh <mutant> <check-id> <seeds...>   apply seeded/<mutant>/patch.diff, run the quick check for each seed, revert
cd "$(dirname "$0")/.."
M=$1; ID=$2; shift; shift
git -C /repo apply "$PWD/seeded/$M/patch.diff" || exit 3
for s in "$@"; do
  OUT=$(VERIF_SEED=$s ./check $ID --tier quick 2>&1); RC=$?
  echo "$M check=$ID seed=$s rc=$RC $(echo "$OUT" | grep '^VIOLATION' | head -1 | cut -c1-120) | $(echo "$OUT" | grep '^\[' | tail -1 | cut -c1-200)"
done
git -C /repo checkout -- .
# the evidence files must never come from a run against a modified tree
git checkout -- evidence 2>/dev/null
rm -rf replays
