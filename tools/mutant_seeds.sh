#!/bin/sh
# usage: tools/mutant_seeds.sh <mutant> <check-id> <seeds...>
# Applies seeded/<mutant>/patch.diff to a SCRATCH checkout of /repo's HEAD (never to /repo itself), runs the quick check of <check-id>
# against it for each seed, removes the checkout, and restores Gen/ and evidence/ to what /repo gives.
cd "$(dirname "$0")/.."
M=$1; ID=$2; shift; shift
WT=/tmp/wt-mut-$$
git -C /repo worktree add -q --detach $WT HEAD || exit 3
git -C $WT apply "$PWD/seeded/$M/patch.diff" || { git -C /repo worktree remove --force $WT; exit 3; }
for s in "$@"; do
  OUT=$(VERIF_REPO=$WT PYTHONPATH=$WT VERIF_SEED=$s ./check $ID --tier quick 2>&1); RC=$?
  echo "$M check=$ID seed=$s rc=$RC $(echo "$OUT" | grep '^VIOLATION' | head -1 | cut -c1-120) | $(echo "$OUT" | grep '^\[' | tail -1 | cut -c1-200)"
done
git -C /repo worktree remove --force $WT
# the evidence files and the generated kernels must never come from a run against a modified tree
git checkout -- evidence 2>/dev/null
rm -rf replays
./check --setup >/dev/null 2>&1
