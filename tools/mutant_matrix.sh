#!/bin/sh
# usage: tools/mutant_matrix.sh [ids...]   for every seeded/<id>: apply patch.diff to /repo, run the quick check of the property it
# breaks (meta.json "property"; plus any in meta.json "also_checks"), revert, and print one line per (mutant, check).
cd "$(dirname "$0")/.."
if [ -n "$(git -C /repo status --porcelain)" ]; then echo "/repo is not clean"; exit 3; fi
IDS="$@"; [ -z "$IDS" ] && IDS=$(ls seeded | grep -v '\.md$')
for m in $IDS; do
  P=seeded/$m/patch.diff
  PROPS=$(/venv/bin/python -c "import json;d=json.load(open('seeded/$m/meta.json'));print(' '.join([d['property']]+d.get('also_checks',[])))" 2>/dev/null | grep -v conda)
  if ! git -C /repo apply --check "$PWD/$P" 2>/dev/null; then echo "$m: PATCH-DOES-NOT-APPLY"; continue; fi
  git -C /repo apply "$PWD/$P"
  for id in $PROPS; do
    OUT=$(./check $id --tier quick 2>&1); RC=$?
    V=$(echo "$OUT" | grep '^VIOLATION' | head -1 | cut -c1-160)
    echo "$m: check=$id rc=$RC $V"
  done
  git -C /repo checkout -- .
done
# leave evidence as produced on the clean tree
git checkout -- evidence 2>/dev/null
