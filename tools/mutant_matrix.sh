#!/bin/sh
# usage: [VERIF_REPO=<checkout>] tools/mutant_matrix.sh [ids...]
# For every seeded/<id>: apply patch.diff to the checkout (default /repo; a scratch copy when VERIF_REPO is set, e.g. under
# `vp run --with-repo` where VERIF_REPO=$VP_RUN_REPO), run the quick check of the property it breaks (meta.json "property"; plus
# any in meta.json "also_checks"), revert, and print one line per (mutant, check).  Writes seeded/RESULTS.md.
cd "$(dirname "$0")/.."
REPO=${VERIF_REPO:-/repo}
export VERIF_REPO=$REPO
[ "$REPO" != "/repo" ] && export PYTHONPATH=$REPO
if [ -n "$(git -C $REPO status --porcelain)" ]; then echo "$REPO is not clean"; exit 3; fi
IDS="$@"; [ -z "$IDS" ] && IDS=$(ls seeded | grep -v '\.md$')
OUT=seeded/RESULTS.md
echo "| mutant | check | result | detail |" > $OUT.tmp
echo "|---|---|---|---|" >> $OUT.tmp
for m in $IDS; do
  P=seeded/$m/patch.diff
  PROPS=$(/venv/bin/python -c "import json;d=json.load(open('seeded/$m/meta.json'));print(' '.join([d['property']]+d.get('also_checks',[])))" 2>/dev/null | grep -v conda)
  if ! git -C $REPO apply --check "$PWD/$P" 2>/dev/null; then echo "$m: PATCH-DOES-NOT-APPLY"; echo "| $m | - | patch no longer applies | |" >> $OUT.tmp; continue; fi
  git -C $REPO apply "$PWD/$P"
  for id in $PROPS; do
    O=$(./check $id --tier quick 2>&1); RC=$?
    V=$(echo "$O" | grep '^VIOLATION' | head -1 | cut -c1-160)
    S=$(echo "$O" | grep '^\[' | tail -1 | sed 's/^\[[^]]*\] //' | cut -c1-150)
    echo "$m: check=$id rc=$RC $V"
    case "$V" in
      *no-failing-input-found*) R="caught (obligation / correspondence broken, no failing input found)";;
      VIOLATION*) R="caught (failing input replayed)";;
      *) R="MISSED (rc=$RC)";;
    esac
    echo "| $m | $id | $R | $S |" >> $OUT.tmp
  done
  git -C $REPO checkout -- .
done
mv $OUT.tmp $OUT
git checkout -- evidence 2>/dev/null
rm -rf replays
