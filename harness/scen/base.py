"""Scenario runner: builds a Sched, runs a scenario body against the real library, returns the Sched."""
import os
import sys

HERE = os.path.dirname(os.path.dirname(os.path.abspath(__file__)))
if HERE not in sys.path:
    sys.path.insert(0, HERE)

from dsched import core, patch  # noqa: E402
from world.sim import World, vname, outcome, oname  # noqa: E402


def run(body, seed=0, mode="random", p_switch=0.2, trace_lines=True, replay=None, max_yields=100000,
        line_filter=None, hold_at=None):
    """body(s, w) runs as controlled thread 0.  Returns (sched, world)."""
    patch.install()
    patch.neutralise_logging()
    patch.REC.records = []
    ch = core.Chooser(seed=seed, mode=mode, p_switch=p_switch, replay=replay, hold_at=hold_at)
    s = core.Sched(ch, trace_lines=trace_lines, impl_dir=patch.IMPL_DIR, max_yields=max_yields,
                   line_filter=line_filter)
    w = World()
    w.missing = None

    def main():
        w.missing = patch.reset_module_state()
        body(s, w)

    s.run(main)
    return s, w


def api(s, label, fn, *args, **kwargs):
    """Log a client API call (E1) and its return / raised exception."""
    s.yield_point("api")
    s.ev("call", label)
    try:
        r = fn(*args, **kwargs)
    except core.Abort:
        raise
    except BaseException as e:
        s.ev("raise", label, type(e).__name__, str(e)[:60])
        raise
    s.ev("ret", label, vname(r))
    return r


def api_noraise(s, label, fn, *args, **kwargs):
    try:
        return ("ret", api(s, label, fn, *args, **kwargs))
    except core.Abort:
        raise
    except BaseException as e:
        return ("raise", e)


def client(s, fn, name=None):
    return s.spawn(fn, name=name, role="client")


def fmt_log(s, limit=None):
    out = []
    for e in (s.log if limit is None else s.log[-limit:]):
        out.append(" ".join(str(x) for x in e))
    return "\n".join(out)
