"""Generic stack scenarios: build any stack of more_executors layers over a harness delegate, run a multi-threaded
client program against it under dsched, and return everything the generic monitors need.

Descriptor (plain dict, picklable):
  base      : "simsync" | "simpool1" | "simpool2" | "libsync"
  layers    : list of [kind, params] innermost first; kind in map flat_map retry poll throttle timeout cancel_on_shutdown
  clients   : list of op lists; ops:
                ["submit", key, script]          script = list of per-attempt behaviours (UserFn steps)
                ["cancel", key] ["result", key, timeout] ["addcb", key, cbkind] ["shutdown", wait] ["sleep", d]
                ["notify"]                      (poll layer)
                ["dcancel", key]                (cancel the base delegate's future of submission `key` directly)
                ["setev", gate] ["waitev", gate] (scenario gates shared with UserFn steps ('waitev', gate) / ('setev', gate))
  tail      : virtual seconds main sleeps after the clients finished (lets timers fire)
"""
from concurrent.futures import Future

from dsched import core
from world.sim import SimPool, SimSync, UserFn, EXC, vname, outcome, oname

LAYER_KINDS = ["map", "flat_map", "retry", "poll", "throttle", "timeout", "cancel_on_shutdown"]


class Ctx(object):
    def __init__(self):
        self.futs = {}        # key -> future
        self.info = {}        # future name -> dict
        self.cb_runs = []     # (cbid, fname, tid, was_done, time)
        self.cbs = []         # registered callbacks: (cbid, fname, time)
        self.api = []         # (tid, op, key, result/exception)
        self.execs = []       # executor objects innermost..outermost
        self.delegate = None
        self.completed = False
        self.shutdown_returned_at = None
        self.final = {}
        self.cfwaits = []


def build(desc, s, w, ctx):
    from more_executors.map import MapExecutor
    from more_executors.flat_map import FlatMapExecutor
    from more_executors.retry import RetryExecutor, ExceptionRetryPolicy
    from more_executors.poll import PollExecutor
    from more_executors.throttle import ThrottleExecutor
    from more_executors.timeout import TimeoutExecutor
    from more_executors.cancel_on_shutdown import CancelOnShutdownExecutor
    from more_executors.sync import SyncExecutor
    from more_executors.futures import f_return, f_return_error

    base = desc["base"]
    if base == "simsync":
        d = SimSync()
    elif base == "libsync":
        d = SyncExecutor()
    else:
        d = SimPool(int(base[7:]))
    ctx.delegate = d
    ex = d
    ctx.execs = [d]
    for li, (kind, p) in enumerate(desc["layers"]):
        p = p or {}
        nm = "L%d" % li
        s.ev("ctor>", nm, kind)
        if kind == "map":
            fn = w.fn("mapfn%d" % li, p.get("script"), default=(("retarg",),))
            efn = w.fn("errfn%d" % li, p.get("escript"), default=(("reraise",),)) if p.get("errfn") else None
            ex = MapExecutor(ex, fn if p.get("fn", True) else None, error_fn=efn, name=nm)
        elif kind == "flat_map":
            def mk(li=li, p=p):
                inner = w.fn("fmapfn%d" % li, p.get("script"), default=(("retarg",),))

                def fn(x):
                    if p.get("inner_submit"):
                        # the function hands further work to the base executor and returns THAT (pending) future: the flat-mapped
                        # inner future of the property text; its callable logs `ucall innerwork<li>` when it starts
                        inner(x)
                        return ctx.delegate.submit(w.fn("innerwork%d" % li, [[("ret", x)]]))
                    if p.get("fail_as_future"):
                        # a failing function hands back an already FAILED future instead of raising: the same outcome by the
                        # property, a different path through the library (the flattened future is done when it is returned)
                        try:
                            return f_return(inner(x))
                        except Exception as e:
                            return f_return_error(e)
                    return f_return(inner(x))
                return fn
            fefn = None
            if p.get("errfn"):
                def mkerr(li=li, p=p):
                    einner = w.fn("errfn%d" % li, p.get("escript"), default=(("reraise",),))

                    def efn(exc):
                        return f_return(einner(exc))
                    return efn
                fefn = mkerr()
            ex = FlatMapExecutor(ex, mk(), error_fn=fefn, name=nm) if fefn is not None else FlatMapExecutor(ex, mk(), name=nm)
        elif kind == "retry":
            if p.get("custom"):
                pol = ScriptPolicy(w, li, p)
                ex = RetryExecutor(ex, retry_policy=pol, name=nm)
            else:
                ex = RetryExecutor(ex, name=nm, max_attempts=p.get("max_attempts", 3), sleep=p.get("sleep", 1.0),
                                   exponent=p.get("exponent", 2.0), max_sleep=p.get("max_sleep", 120),
                                   exception_base=[EXC[x] for x in p.get("exception_base", ["E0"])])
        elif kind == "poll":
            pf = PollScript(w, li, p)
            cf = w.fn("cancelfn%d" % li, p.get("cancel_script"), default=(("ret", True),)) if p.get("cancel_fn") else None
            ex = PollExecutor(ex, pf, cancel_fn=cf, default_interval=p.get("interval", 5.0), name=nm)
            ctx.poll = ex
        elif kind == "throttle":
            cnt = p.get("count", 1)
            if isinstance(cnt, list):
                cfn = w.fn("countfn%d" % li, [[("ret", c)] if c != "raise" else [("raise", "E2")] for c in cnt])
                ex = ThrottleExecutor(ex, count=lambda cfn=cfn: cfn(), name=nm, block=bool(p.get("block")))
            else:
                ex = ThrottleExecutor(ex, count=cnt, name=nm, block=bool(p.get("block")))
        elif kind == "timeout":
            ex = TimeoutExecutor(ex, p.get("timeout", 2.0), name=nm)
        elif kind == "cancel_on_shutdown":
            ex = CancelOnShutdownExecutor(ex, name=nm)
        else:
            raise ValueError(kind)
        s.ev("ctor<", nm, kind)
        ctx.execs.append(ex)
    ctx.top = ex
    w.top = ex
    return ex


class ScriptPolicy(object):
    """Custom retry policy driven by a script: per attempt 'retry:<sleep>' | 'stop' | 'raise'."""

    def __init__(self, w, li, p):
        self.script = p.get("policy_script", ["stop"])
        self.calls = []
        self.w = w

    def _entry(self, attempt):
        return self.script[min(attempt - 1, len(self.script) - 1)]

    def should_retry(self, attempt, future):
        s = core.ACTIVE
        s.yield_point("ucall")
        s.ev("policy", "should_retry", attempt, oname(outcome(future)))
        self.calls.append(("should_retry", attempt, s.now))
        e = self._entry(attempt)
        if e == "raise":
            s.ev("policy!", "should_retry", attempt, "E2")
            raise EXC["E2"]("policy")
        s.ev("policy<", "should_retry", attempt, e.startswith("retry"))
        return e.startswith("retry")

    def sleep_time(self, attempt, future):
        s = core.ACTIVE
        s.ev("policy", "sleep_time", attempt)
        self.calls.append(("sleep_time", attempt, s.now))
        e = self._entry(attempt)
        if e == "retry:raise":
            s.ev("policy!", "sleep_time", attempt, "E2")
            raise EXC["E2"]("policy-sleep")
        s.ev("policy<", "sleep_time", attempt, float(e.split(":")[1]))
        return float(e.split(":")[1])


class PollScript(object):
    """Poll function driven by a script.  mode 'echo': first poll yields ('polled', d.result) for every descriptor.
    mode entries per call: 'yield' | 'none' | 'raise' | 'err' (yield_exception) | number (return interval)."""

    def __init__(self, w, li, p):
        self.script = p.get("poll_script", ["yield"])
        self.li = li
        self.calls = []
        self.active = 0
        self.max_active = 0

    def __call__(self, descriptors):
        s = core.ACTIVE
        s.yield_point("ucall")
        i = len(self.calls)
        self.active += 1
        self.max_active = max(self.max_active, self.active)
        results = [d.result for d in descriptors]
        s.ev("pollfn", i, vname(results))
        self.calls.append((i, list(results), s.now, s.cur.tid))
        e = self.script[min(i, len(self.script) - 1)]
        if isinstance(e, (list, tuple)) and e and e[0] == "at":
            # ["at", T, entry]: behave as `entry` from virtual time T on, as "none" before (independent of how many polls happened)
            e = e[2] if s.now >= e[1] else "none"
        try:
            s.yield_point("uyield")
            if e == "raise":
                x = EXC["E2"]("poll#%d" % i)
                # which futures this invocation was shown (harness-level peek at the descriptor's private field; silent if renamed)
                shown = [getattr(d, "_PollDescriptor__future", None) for d in descriptors]
                s.ev("pollraise", i, s.name_of(x, "x"), [s.name_of(f, "f") for f in shown] if all(f is not None for f in shown) else None, "L%d" % self.li)
                raise x
            if e == "yield":
                for d in descriptors:
                    d.yield_result(("polled", d.result))
            elif e == "yield1":
                # resolve only the first (oldest registered) descriptor of this call
                for d in descriptors[:1]:
                    d.yield_result(("polled", d.result))
            elif e == "err":
                for d in descriptors:
                    exc = EXC["E1"]("pollerr#%d" % i)
                    s.ev("pollerr", self.li, i, vname(exc))
                    d.yield_exception(exc)
            elif isinstance(e, (int, float)):
                return e
            return None
        finally:
            self.active -= 1
            s.ev("pollfn<", i)


def run_clients(desc, s, w, ctx):
    ex = ctx.top

    def do_shutdown(wait, tid):
        s.yield_point("api")
        s.ev("call", "shutdown", wait)
        try:
            ex.shutdown(wait)
        except core.Abort:
            raise
        except BaseException as e:
            s.ev("raise", "shutdown", type(e).__name__, str(e)[:60])
            ctx.api.append((tid, "shutdown", None, ("raise", e)))
            return
        s.ev("ret", "shutdown")
        if ctx.shutdown_returned_at is None:
            ctx.shutdown_returned_at = (s.now, len(s.log))
        ctx.api.append((tid, "shutdown", None, ("ret", None)))

    def make_cb(kind, cbid, key):
        def cb(f):
            s.ev("cbrun", cbid, vname(f), f.done())
            ctx.cb_runs.append((cbid, key, s.cur.tid, f.done(), s.now))
            if kind == "slow":
                # a callback that takes a while: other threads can act between two callbacks of the same future
                s.yield_point("ucall")
                s.yield_point("uyield")
            if kind == "raise":
                raise EXC["E2"]("cb%d" % cbid)
            if kind == "submit":
                nkey = "nested%d" % cbid
                s.ev("call", "submit", nkey)
                try:
                    nf = ex.submit(w.fn(nkey, [[("ret", -1)]]))
                    s.ev("ret", "submit", vname(nf), nkey)
                except RuntimeError as e:
                    s.ev("raise", "submit", type(e).__name__, str(e)[:60])
        return cb

    def client(ci, ops):
        def go():
            tid = s.cur.tid
            for op in ops:
                k = op[0]
                if k == "submit":
                    _, key, script = op[:3]
                    kw = op[3] if len(op) > 3 else {}
                    fn = w.fn(key, [list(map(tuple, b)) for b in script])
                    s.yield_point("api")
                    s.ev("call", "submit", key)
                    t0 = s.now
                    try:
                        f = ex.submit(fn, key, **kw)
                    except core.Abort:
                        raise
                    except BaseException as e:
                        s.ev("raise", "submit", type(e).__name__, str(e)[:60])
                        ctx.api.append((tid, "submit", key, ("raise", e, s.now, len(s.log))))
                        continue
                    nm = vname(f)
                    s.ev("ret", "submit", nm, key)
                    ctx.futs[key] = f
                    ctx.info[nm] = dict(key=key, t_call=t0, t_ret=s.now, script=script, fn=fn)
                    ctx.api.append((tid, "submit", key, ("ret", nm, s.now, len(s.log))))
                elif k == "cancel":
                    f = ctx.futs.get(op[1])
                    if f is None:
                        continue
                    s.yield_point("api")
                    s.ev("call", "cancel", vname(f))
                    try:
                        r = f.cancel()
                    except core.Abort:
                        raise
                    except BaseException as e:
                        s.ev("raise", "cancel", vname(f), type(e).__name__, str(e)[:60])
                        ctx.api.append((tid, "cancel", op[1], ("raise", e, s.now, len(s.log))))
                        continue
                    s.ev("ret", "cancel", vname(f), r)
                    ctx.api.append((tid, "cancel", op[1], ("ret", r, s.now, len(s.log))))
                elif k == "result":
                    f = ctx.futs.get(op[1])
                    if f is None:
                        continue
                    s.yield_point("api")
                    s.ev("call", "result", vname(f), op[2])
                    try:
                        r = f.result(op[2])
                        s.ev("ret", "result", vname(f), "ok")
                    except core.Abort:
                        raise
                    except BaseException as e:
                        s.ev("ret", "result", vname(f), type(e).__name__)
                elif k == "addcb":
                    f = ctx.futs.get(op[1])
                    if f is None:
                        continue
                    cbid = len(ctx.cbs)
                    ctx.cbs.append((cbid, op[1], s.now, vname(f)))
                    s.yield_point("api")
                    s.ev("call", "addcb", vname(f), cbid)
                    try:
                        f.add_done_callback(make_cb(op[2], cbid, op[1]))
                    except core.Abort:
                        raise
                    except BaseException as e:
                        s.ev("raise", "addcb", vname(f), type(e).__name__)
                        ctx.api.append((tid, "addcb", op[1], ("raise", e, s.now, len(s.log))))
                        continue
                    s.ev("ret", "addcb", vname(f), cbid)
                elif k == "cfwait":
                    f = ctx.futs.get(op[1])
                    if f is None:
                        continue
                    import concurrent.futures as _cf
                    s.yield_point("api")
                    s.ev("call", "cfwait", vname(f), op[2])
                    try:
                        if op[3] == "as_completed":
                            try:
                                got = list(_cf.as_completed([f], timeout=op[2]))
                            except _cf.TimeoutError:
                                got = []
                            released = bool(got)
                        else:
                            dn, nd = _cf.wait([f], timeout=op[2])
                            released = f in dn
                    except core.Abort:
                        raise
                    s.ev("ret", "cfwait", vname(f), released, f.done())
                    ctx.cfwaits.append((op[1], vname(f), released, f.done(), s.now))
                elif k == "shutdown":
                    do_shutdown(op[1], tid)
                elif k == "sleep":
                    s.sleep(op[1])
                elif k == "dcancel":
                    # somebody else cancels the delegate future currently working for submission `key` behind the stack's back
                    df = None
                    for (f0, fn0, _a, _k) in reversed(getattr(ctx.delegate, "submitted", [])):
                        if getattr(fn0, "name", None) == op[1]:
                            df = f0
                            break
                    if df is not None:
                        s.yield_point("api")
                        df.cancel()
                elif k == "setev":
                    s.yield_point("api")
                    w.gate(op[1]).set()
                elif k == "waitev":
                    s.yield_point("api")
                    w.gate(op[1]).wait()
                elif k == "notify":
                    p = getattr(ctx, "poll", None)
                    if p is not None:
                        s.yield_point("api")
                        s.ev("call", "notify")
                        p.notify()
        return go

    cts = [s.spawn(client(i, ops), name="c%d" % i) for i, ops in enumerate(desc["clients"])]
    for ct in cts:
        if ct.state != "done":
            s.block(lambda ct=ct: ct.state == "done", None, ("cjoin", ct.tid))
    ctx.clients_done_at = s.now
    if desc.get("tail"):
        s.sleep(desc["tail"])
    ctx.t_end = s.now
    ctx.end_index = len(s.log)
    ctx.final = {vname(f): outcome(f) for f in ctx.futs.values()}
    ctx.completed = True
    if desc.get("final_shutdown", True):
        do_shutdown(True, 0)
        try:
            ctx.delegate.shutdown(True)
        except BaseException as e:
            if isinstance(e, core.Abort):
                raise


def body_for(desc, ctx):
    def body(s, w):
        build(desc, s, w, ctx)
        run_clients(desc, s, w, ctx)
    return body
