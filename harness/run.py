#!/venv/bin/python
"""Pipeline: gen -> lake build -> audit -> scenarios on the real code (dsched) -> validate against the Lean model
-> monitors -> verdict -> evidence.   See DESIGN.md section 5.

  ./check --setup
  ./check Cxx --tier quick|thorough
  ./check Cxx --replay <file>

Exit 0: property held on everything explored.  Exit 1: `VIOLATION property=<id> replay=<path>` printed.
Exit 2: internal error / time-out of the machinery (never a VIOLATION).
"""
import hashlib
import importlib
import json
import multiprocessing as mp
import os
import re
import subprocess
import sys
import time
import traceback

HERE = os.path.dirname(os.path.abspath(__file__))
ROOT = os.path.dirname(HERE)
LEAN = os.path.join(ROOT, "lean")
if HERE not in sys.path:
    sys.path.insert(0, HERE)

ALLOWED_AXIOMS = {"propext", "Quot.sound", "Classical.choice"}
FORBIDDEN = re.compile(r"\b(sorry|admit|native_decide|bv_decide|implemented_by|unsafe)\b|^\s*axiom\s|maxHeartbeats\s+0\b")
TRUSTED_BASE = [
    "Lean 4.33.0 kernel",
    "axioms allowed: propext, Quot.sound, Classical.choice (audited by #print axioms on every obligation, every run)",
    "harness/pygen translator (Python AST -> Lean) for the regenerated kernels, validated each run by a differential",
    "harness/dsched deterministic scheduler, SimPool/SimSync delegates, virtual clock (stand for CPython threads, ThreadPoolExecutor, time.monotonic)",
    "lean/MoreExec/Base + stdlib Future semantics as modelled (concurrent.futures.Future is outside the repository)",
    "the rendering of the property as theorems in lean/MoreExec/Props",
]


def log(*a):
    print(*a, file=sys.stderr, flush=True)


# --------------------------------------------------------------------------------------------- lean side

def sh(cmd, cwd=None, timeout=3600):
    p = subprocess.run(cmd, cwd=cwd, stdout=subprocess.PIPE, stderr=subprocess.STDOUT, timeout=timeout)
    return p.returncode, p.stdout.decode(errors="replace")


def lake_build(targets):
    t0 = time.time()
    rc, out = sh(["lake", "build"] + list(targets), cwd=LEAN, timeout=3000)
    return rc == 0, out, time.time() - t0


def strip_comments(src):
    src = re.sub(r"/-.*?-/", "", src, flags=re.S)
    src = re.sub(r"--.*", "", src)
    return src


def grep_forbidden():
    bad = []
    for base, _dirs, files in os.walk(LEAN):
        if ".lake" in base:
            continue
        for f in files:
            if f.endswith(".lean"):
                p = os.path.join(base, f)
                for i, line in enumerate(strip_comments(open(p).read()).splitlines()):
                    if FORBIDDEN.search(line):
                        bad.append("%s:%d: %s" % (os.path.relpath(p, LEAN), i + 1, line.strip()[:80]))
    return bad


def audit(pid, modules, theorems):
    """#print axioms on every obligation.  Returns (ok_list, bad_list, raw)."""
    os.makedirs(os.path.join(LEAN, "Audit"), exist_ok=True)
    path = os.path.join(LEAN, "Audit", "%s.lean" % pid)
    with open(path, "w") as f:
        for m in modules:
            f.write("import %s\n" % m)
        for t in theorems:
            f.write("#print axioms %s\n" % t)
    rc, out = sh(["lake", "env", "lean", path], cwd=LEAN, timeout=900)
    ok, bad = [], []
    found = {}
    for m in re.finditer(r"'([^']+)' depends on axioms: \[([^\]]*)\]", out.replace("\n", " ")):
        found[m.group(1)] = set(x.strip() for x in m.group(2).split(",") if x.strip())
    for m in re.finditer(r"'([^']+)' does not depend on any axioms", out):
        found[m.group(1)] = set()
    for t in theorems:
        ax = found.get(t)
        if ax is None:
            bad.append((t, "not found / does not compile"))
        elif not ax <= ALLOWED_AXIOMS:
            bad.append((t, "axioms: %s" % sorted(ax)))
        else:
            ok.append((t, sorted(ax)))
    return ok, bad, out


# --------------------------------------------------------------------------------------------- scenarios

def _worker(args):
    modname, descs = args
    mod = importlib.import_module(modname)
    out = []
    for d in descs:
        try:
            r = mod.run_one(d)
        except Exception as e:  # harness error
            r = {"desc": d, "error": "%s: %s\n%s" % (type(e).__name__, e, traceback.format_exc()[-1500:])}
        r.setdefault("desc", d)
        out.append(r)
    # validate this chunk's blocks in-process-parallel
    try:
        import leanval
        blocks = []
        idx = []
        for i, r in enumerate(out):
            for b in r.get("blocks", []) or []:
                blocks.append(b)
                idx.append(i)
        verdicts = leanval.validate_blocks(blocks) if blocks else []
        for i, v in zip(idx, verdicts):
            out[i].setdefault("verdicts", []).append(v)
        for r in out:
            nb = len(r.get("blocks", []) or [])
            r["nblocks"] = nb
            r["block_sample"] = (r.get("blocks") or [None])[0] if r.get("keep_block") else None
            r.pop("blocks", None)
    except Exception as e:
        for r in out:
            r.pop("blocks", None)
            r.setdefault("verdicts", []).append("INCONCLUSIVE 0 validator-error %s" % (str(e)[:300],))
    return out


def run_scenarios(modname, descs, procs=16, budget_s=None):
    if not descs:
        return []
    chunks = [[] for _ in range(min(procs * 4, max(1, len(descs))))]
    for i, d in enumerate(descs):
        chunks[i % len(chunks)].append(d)
    t0 = time.time()
    results = []
    with mp.get_context("fork").Pool(procs, maxtasksperchild=8) as pool:
        it = pool.imap_unordered(_worker, [(modname, c) for c in chunks if c])
        for res in it:
            results.extend(res)
            if budget_s is not None and time.time() - t0 > budget_s:
                pool.terminate()
                break
    return results


# --------------------------------------------------------------------------------------------- findings

def load_known():
    p = os.path.join(ROOT, "known_findings.json")
    if not os.path.exists(p):
        return []
    return json.load(open(p)).get("findings", [])


def match_known(pid, sig, known):
    for k in known:
        if k.get("status", "open") == "open" and k["property"] == pid and k["signature"] == sig:
            return k
    return None


def write_replay(pid, kind, payload):
    os.makedirs(os.path.join(ROOT, "replays"), exist_ok=True)
    h = hashlib.sha1(json.dumps(payload, sort_keys=True, default=str).encode()).hexdigest()[:10]
    path = os.path.join(ROOT, "replays", "%s-%s-%s.json" % (pid, kind, h))
    with open(path, "w") as f:
        json.dump({"property": pid, "kind": kind, **payload}, f, indent=1, default=str)
    return os.path.relpath(path, ROOT)


def directed_search(pid, mod, divergences, known, per_desc=24, max_descs=48):
    """A correspondence broke: re-run the scenarios on which model and implementation disagreed under many "window" schedules
    (one thread suspended at a boundary point until all others are blocked, see dsched.core.Chooser 'hold') and under
    boundary-biased ones, looking for an execution on which a property monitor fires.  Search aid only."""
    if not divergences:
        return None
    import random as _r
    rng = _r.Random(12345)
    picked = divergences if len(divergences) <= max_descs else rng.sample(divergences, max_descs)
    descs = []
    for (_v, d, _sch) in picked:
        if not isinstance(d, dict):
            continue
        for k in range(per_desc):
            x = dict(d)
            x.pop("replay", None)
            x["seed"] = rng.randrange(1 << 30)
            if k % 4 == 3:
                x.update(mode="bnd", p_switch=0.5, trace_lines=True)
            else:
                x.update(mode="hold", p_switch=[0.0, 0.02, 0.1][k % 3], trace_lines=True)
            x["idx"] = 1
            descs.append(x)
    for r in run_scenarios("props.%s" % pid, descs, budget_s=120):
        for h in r.get("hits", []):
            if match_known(pid, h["sig"], known) is None:
                return {"sig": h["sig"], "detail": h.get("detail"), "desc": r["desc"], "schedule": r.get("schedule")}
    # systematic placement: for a few of the smallest diverging scenarios, suspend each thread at each of its hot yields in turn
    # (one suspension per run, everything else sequential) - the exhaustive "where does the racing step land" enumeration
    from dsched import core as _core
    small = sorted((d for (_v, d, _s) in divergences if isinstance(d, dict)), key=lambda d: len(json.dumps(d, default=str)))
    step = max(1, len(small) // 8)
    descs = []
    for d in small[::step][:8]:
        x = dict(d)
        x.pop("replay", None)
        x.update(mode="holdat", p_switch=0.0, trace_lines=True, hold_at=None, idx=1)
        try:
            mod.run_one(x)
            counts = dict(_core.Chooser.LAST.hot_count)
        except Exception:
            continue
        pts = [(t, k) for t, n in sorted(counts.items()) for k in range(1, n + 1)]
        if len(pts) > 600:
            pts = rng.sample(pts, 600)
        for (t, k) in pts:
            y = dict(x)
            y["hold_at"] = [t, k]
            descs.append(y)
    for r in run_scenarios("props.%s" % pid, descs, budget_s=240):
        for h in r.get("hits", []):
            if match_known(pid, h["sig"], known) is None:
                return {"sig": h["sig"], "detail": h.get("detail"), "desc": r["desc"], "schedule": r.get("schedule")}
    return None


# --------------------------------------------------------------------------------------------- main check

def check(pid, tier, seed):
    t_start = time.time()
    mod = importlib.import_module("props.%s" % pid)
    known = load_known()
    broken = []          # obligations / correspondences that no longer check
    notes = []

    # 1. gen
    gen_info = {}
    if not getattr(mod, "KERNELS", None):
        import pygen.gen as gen0
        gen0.generate(None)
    if getattr(mod, "KERNELS", None):
        import pygen.gen as gen
        gen_info = gen.generate(None)   # always regenerate every kernel: Gen/ must reflect /repo as it is now
        gen_info = {k: v for k, v in gen_info.items() if k in mod.KERNELS}
        for k, v in gen_info.items():
            if v.get("error"):
                broken.append({"what": "translator", "kernel": k, "detail": v["error"]})

    # 2. build
    targets = list(mod.LEAN_MODULES) + ["validate"]
    ok, out, dt = lake_build(targets)
    errs = [ln for ln in out.splitlines() if ln.startswith("error") or "error:" in ln or ln.startswith("✖")]
    build_tail = ("\n".join(errs)[:2500] + "\n...\n" + out[-500:]) if errs else out[-3000:]
    theorems = list(mod.THEOREMS)
    discharged = []
    if not ok:
        broken.append({"what": "lake build", "detail": build_tail})
        # try to find which theorems still hold: build failed => treat all of this module's obligations as open
    else:
        # 3. audit
        bad_src = grep_forbidden()
        ok_t, bad_t, raw = audit(pid, mod.LEAN_MODULES, theorems)
        discharged = [t for t, _ in ok_t]
        for t, why in bad_t:
            broken.append({"what": "obligation", "theorem": t, "detail": why})
        for b in bad_src:
            broken.append({"what": "forbidden construct", "detail": b})
        if tier == "thorough" and getattr(mod, "LEANCHECKER", True):
            rc, o = sh(["lake", "env", "leanchecker"] + list(mod.LEAN_MODULES), cwd=LEAN, timeout=1800)
            if rc != 0:
                broken.append({"what": "leanchecker", "detail": o[-1500:]})
            else:
                notes.append("leanchecker re-checked %s" % ",".join(mod.LEAN_MODULES))

    # 4./5. correspondence + monitors
    descs = list(mod.gen_scenarios(seed, tier))
    budget = getattr(mod, "BUDGET", {"quick": 150, "thorough": 1500})[tier]
    have_validator = os.path.exists(os.path.join(LEAN, ".lake", "build", "bin", "validate"))
    results = run_scenarios("props.%s" % pid, descs, budget_s=budget) if descs else []
    hits, divergences, inconclusive, errors = [], [], [], []
    validated = 0
    stats = {}
    samples = []
    distinct = set()
    for r in results:
        if r.get("error"):
            errors.append(r)
            continue
        for h in r.get("hits", []):
            hits.append((h, r["desc"], r.get("schedule")))
        for v in r.get("verdicts", []):
            if v.startswith("OK"):
                validated += 1
            elif v.startswith("DIVERGE"):
                divergences.append((v, r["desc"], r.get("schedule")))
            else:
                inconclusive.append((v, r["desc"]))
        for k, n in (r.get("stats") or {}).items():
            stats[k] = stats.get(k, 0) + n
        if r.get("fingerprint"):
            distinct.add(r["fingerprint"])
        if r.get("sample") is not None and len(samples) < 3:
            samples.append(r["sample"])
    if errors:
        log("harness errors: %d; first: %s" % (len(errors), errors[0]["error"][:1500]))

    # differential / oracle checks that are not scenario-shaped
    extra = {}
    if hasattr(mod, "extra_checks"):
        try:
            extra = mod.extra_checks(seed, tier) or {}
        except Exception as e:
            # the differential drives the real function with stand-in objects: if the function no longer runs on them the kernel
            # and the code have drifted apart - a broken correspondence, to be followed by the search, not an internal error
            extra = {"broken": [{"what": "kernel differential could not run the implementation",
                                 "detail": "%s: %s | %s" % (type(e).__name__, e, traceback.format_exc()[-600:])}]}
        for h in extra.get("hits", []):
            hits.append((h, h.get("desc"), None))
        for b in extra.get("broken", []):
            broken.append(b)
        for k, n in (extra.get("stats") or {}).items():
            stats[k] = stats.get(k, 0) + n
        samples.extend(extra.get("samples", [])[:3])
        validated += extra.get("validated", 0)
        for fp in extra.get("fingerprints", []):
            distinct.add(fp)

    for v, d, sch in divergences[:1]:
        broken.append({"what": "correspondence", "detail": v, "desc": d, "schedule": sch})

    # 6. verdict
    violations = []
    known_lines = []
    seen_known = set()
    for h, d, sch in hits:
        k = match_known(pid, h["sig"], known)
        if k is not None:
            if k["signature"] not in seen_known:
                seen_known.add(k["signature"])
                known_lines.append("KNOWN-FINDING: property=%s %s" % (pid, k["what"]))
            continue
        violations.append((h, d, sch))

    exit_code = 0
    if violations:
        h, d, sch = violations[0]
        path = write_replay(pid, "monitor", {"signature": h["sig"], "detail": h.get("detail"), "desc": d, "schedule": sch})
        print("VIOLATION property=%s replay=%s" % (pid, path))
        exit_code = 1
    elif broken:
        # extended search for a concrete failing input
        found = directed_search(pid, mod, divergences, known)
        if found is None and hasattr(mod, "extended_search"):
            found = mod.extended_search(seed, tier, broken)
            if found is not None and match_known(pid, found["sig"], known) is not None:
                found = None
        if found is not None:
            path = write_replay(pid, "monitor", {"signature": found["sig"], "detail": found.get("detail"),
                                                 "desc": found.get("desc"), "schedule": found.get("schedule"),
                                                 "after_broken": broken[:3]})
            print("VIOLATION property=%s replay=%s" % (pid, path))
        else:
            path = write_replay(pid, "unchecked", {"no_longer_checks": broken[:5],
                                                   "note": "no concrete failing input found by the extended search"})
            print("VIOLATION property=%s replay=%s no-failing-input-found" % (pid, path))
        exit_code = 1
    for ln in known_lines:
        print(ln)

    # 7. evidence
    wall = time.time() - t_start
    n_eval = len(results) + int(stats.get("differential_cases", 0))
    ev = {
        "property_id": pid,
        "tier": tier,
        "seed": seed,
        "level": "proof",
        "coverage": {
            "obligations": len(theorems),
            "discharged": len(discharged),
            "checker_cmd": "cd lean && lake build %s && lake env lean Audit/%s.lean  (#print axioms on every obligation)" % (" ".join(mod.LEAN_MODULES), pid),
            "trusted_base": TRUSTED_BASE + list(getattr(mod, "TRUSTED_EXTRA", [])),
            "obligation_names": theorems,
            "broken": [{k: (str(v)[:400]) for k, v in b.items() if k != "desc"} for b in broken[:10]],
            "kernels_regenerated": {k: {kk: vv for kk, vv in v.items() if kk in ("sha", "changed", "functions")} for k, v in gen_info.items()},
            "traces_validated_against_impl": validated,
            "divergences": len(divergences),
            "inconclusive": len(inconclusive),
            "evaluations": max(n_eval, 1),
            "distinct_nontrivial": max(len(distinct), 0),
            "rule": getattr(mod, "RULE", "seeded scenario programs x schedules; distinct = distinct (program, schedule-hash); "
                                          "non-trivial = at least one library worker-thread event or callback ran"),
            "samples": samples[:3] if samples else [{"note": "no scenario ran"}],
            "stats": stats,
            "monitor_hits": len(hits),
            "hit_signatures": {sg: sum(1 for h, _d, _s in hits if h["sig"] == sg) for sg in sorted(set(h["sig"] for h, _d, _s in hits))},
            "known_finding_hits": len(hits) - len(violations),
            "harness_errors": len(errors),
            "notes": notes,
            "build_s": round(dt, 1),
        },
        "assumptions": list(getattr(mod, "ASSUMPTIONS", [])),
        "wall_s": round(wall, 2),
        "violations": len(violations) + (1 if (broken and not violations) else 0),
    }
    os.makedirs(os.path.join(ROOT, "evidence"), exist_ok=True)
    with open(os.path.join(ROOT, "evidence", "%s.json" % pid), "w") as f:
        json.dump(ev, f, indent=1, default=str)
    log("[%s %s seed=%d] obligations %d/%d, scenarios %d, validated %d, divergences %d, inconclusive %d, hits %d (known %d), errors %d, %.1fs"
        % (pid, tier, seed, len(discharged), len(theorems), len(results), validated, len(divergences), len(inconclusive),
           len(hits), len(hits) - len(violations), len(errors), wall))
    if errors and not results:
        return 2
    return exit_code


def replay(pid, path):
    mod = importlib.import_module("props.%s" % pid)
    data = json.load(open(os.path.join(ROOT, path) if not os.path.isabs(path) else path))
    if data.get("kind") != "monitor":
        print("replay file names an obligation/correspondence that no longer checks:")
        print(json.dumps(data.get("no_longer_checks"), indent=1)[:3000])
        return 1
    desc = dict(data["desc"])
    if data.get("schedule") is not None:
        desc["replay"] = data["schedule"]
    r = mod.run_one(desc)
    sigs = [h["sig"] for h in r.get("hits", [])]
    print("replayed: hits=%s" % sigs)
    if data["signature"] in sigs:
        print("VIOLATION property=%s replay=%s" % (pid, path))
        return 1
    return 0


def setup():
    t0 = time.time()
    try:
        import pygen.gen as gen
        gen.generate(None)
    except ImportError:
        pass
    ok, out, dt = lake_build([])
    print(out[-2000:])
    print("setup: lake build %s in %.0fs" % ("ok" if ok else "FAILED", time.time() - t0))
    return 0 if ok else 2


def main(argv):
    if argv and argv[0] == "--setup":
        return setup()
    if not argv:
        print(__doc__)
        return 2
    pid = argv[0]
    tier = os.environ.get("VERIF_TIER", "quick")
    seed = int(os.environ.get("VERIF_SEED", "0"))
    rp = None
    i = 1
    while i < len(argv):
        if argv[i] == "--tier":
            tier = argv[i + 1]
            i += 2
        elif argv[i] == "--seed":
            seed = int(argv[i + 1])
            i += 2
        elif argv[i] == "--replay":
            rp = argv[i + 1]
            i += 2
        else:
            i += 1
    try:
        if rp is not None:
            return replay(pid, rp)
        return check(pid, tier, seed)
    except subprocess.TimeoutExpired as e:
        log("time-out: %s" % e)
        return 2
    except Exception:
        traceback.print_exc()
        return 2


if __name__ == "__main__":
    sys.exit(main(sys.argv[1:]))
