"""Helpers shared by the per-property modules."""
import hashlib
import json
import random

from scen.base import run, api, fmt_log  # noqa: F401
from dsched import core
from world import wrapfut


def fingerprint(desc, sched):
    h = hashlib.sha1()
    d = {k: v for k, v in desc.items() if k not in ("seed", "replay")}
    h.update(json.dumps(d, sort_keys=True, default=str).encode())
    h.update(repr(sched.chooser.record).encode())
    return h.hexdigest()[:16]


def sched_kwargs(desc):
    return dict(seed=desc.get("seed", 0), mode=desc.get("mode", "random"), p_switch=desc.get("p_switch", 0.2),
                trace_lines=desc.get("trace_lines", True), replay=desc.get("replay"),
                max_yields=desc.get("max_yields", 60000))


def schedule_modes(rng):
    r = rng.random()
    if r < 0.12:
        return dict(mode="random", p_switch=0.02, trace_lines=True)
    if r < 0.40:
        return dict(mode="bnd", p_switch=rng.choice([0.3, 0.5, 0.7]), trace_lines=True)
    if r < 0.60:
        return dict(mode="random", p_switch=rng.choice([0.05, 0.1, 0.2, 0.4]), trace_lines=True)
    if r < 0.75:
        return dict(mode="pct", trace_lines=True)
    return dict(mode="random", p_switch=rng.choice([0.1, 0.3, 0.6]), trace_lines=False)


def hit(sig, detail):
    return {"sig": sig, "detail": detail}
