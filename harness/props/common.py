"""Helpers shared by the per-property modules."""
import hashlib
import json
import os
import random

from scen.base import run, api, fmt_log  # noqa: F401
from dsched import core
from world import wrapfut


def fingerprint(desc, sched):
    h = hashlib.sha1()
    d = {k: v for k, v in desc.items() if k not in ("seed", "replay")}
    h.update(json.dumps(d, sort_keys=True, default=str).encode())
    h.update(repr(sched.chooser.record).encode())
    return h.hexdigest()[:16]


def sched_kwargs(desc):
    return dict(seed=desc.get("seed", 0), mode=desc.get("mode", "random"), p_switch=desc.get("p_switch", 0.2),
                trace_lines=desc.get("trace_lines", True), replay=desc.get("replay"),
                max_yields=desc.get("max_yields", 60000), hold_at=desc.get("hold_at"))


def schedule_modes(rng):
    r = rng.random()
    forced = os.environ.get("VERIF_MODE")      # experiments only: force one schedule strategy
    if forced == "hold":
        r = 0.0
    elif forced == "bnd":
        r = 0.25 + 0.75 * 0.2
    elif forced == "pct":
        r = 0.25 + 0.75 * 0.7
    if r < 0.25:
        # window schedules: one thread suspended at a random (mostly boundary) point until all others are blocked
        return dict(mode="hold", p_switch=rng.choice([0.0, 0.02, 0.1]), trace_lines=True)
    r = (r - 0.25) / 0.75
    if r < 0.12:
        return dict(mode="random", p_switch=0.02, trace_lines=True)
    if r < 0.40:
        return dict(mode="bnd", p_switch=rng.choice([0.3, 0.5, 0.7]), trace_lines=True)
    if r < 0.60:
        return dict(mode="random", p_switch=rng.choice([0.05, 0.1, 0.2, 0.4]), trace_lines=True)
    if r < 0.75:
        return dict(mode="pct", trace_lines=True)
    return dict(mode="random", p_switch=rng.choice([0.1, 0.3, 0.6]), trace_lines=False)


def hit(sig, detail):
    return {"sig": sig, "detail": detail}


def protocol_verdicts(s):
    """correspondence with Model/MeFuture.lean's locking protocol on ANY scenario: a state change of a library future made without
    that future's own lock is a step the model cannot take (its Set / Cancel frames act under the lock)"""
    out = []
    for (i, f, kind, cls) in wrapfut.protocol_breaks(s.log)[:1]:
        out.append("DIVERGE %d [future locking protocol] %s.%s on %s changed the future's state without holding its own lock "
                   "(Model/MeFuture.lean: state changes and the callback hand-over happen under the future's lock)" % (i, cls, kind, f))
    return out
