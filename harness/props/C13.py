"""C13 - map / flat_map laws.

Lean: MoreExec/Model/MapFut.lean (resolution procedure of MapFuture/FlatMapFuture) and Props/C13.lean.
Tie: differential (D) - the real MapExecutor / FlatMapExecutor / f_map / f_flat_map are run on every combination of
input outcome x fn behaviour x error_fn behaviour (x timing under the deterministic scheduler) and compared with the
Lean model evaluated on the same combination (values and exceptions by object identity, call arguments)."""
import itertools
import random
from concurrent.futures import Future

from props.common import run, fingerprint, sched_kwargs, schedule_modes, hit, core, wrapfut, protocol_verdicts
from world.sim import SimFuture, SimPool, SimSync, EXC, vname, outcome, oname
import leanval

ID = "C13"
LEAN_MODULES = ["MoreExec.Props.C13", "MoreExec.Props.C13Code"]
THEOREMS = [
    "MoreExec.MapFut.C13_spec",
    "MoreExec.MapFut.C13_calls",
    "MoreExec.MapFut.C13_identity",
    "MoreExec.MapFut.C13_compose",
    "MoreExec.MapFut.C13_reraise_same",
    "MoreExec.MapFut.C13_flat_nonfuture",
    "MoreExec.MapFut.C13_code_is_model",
    "MoreExec.MapFut.C13_code_meets_spec",
    "MoreExec.MapFut.C13_code_calls",
]
KERNELS = ["K15"]
BUDGET = {"quick": 150, "thorough": 1200}
ASSUMPTIONS = [
    "user functions are total and deterministic per call; tracebacks are not modelled (identity of the exception object is)",
    "the resolution methods (_delegate_resolved, _delegate_failed, both _on_mapped, the constructors' defaults) are regenerated from "
    "map.py / flat_map.py as programs of Model/PyMap (K15) and proved equal to the hand-written MapFut.resolve; MODELLED there: the meaning "
    "of the primitives they call (copy_future_exception, copy_exception, try_set_result, _me_delegate_cancelled, _set_delegate, the "
    "delegate's cancelled()/exception()/result()) - tied to common.py by the behaviour differential of this check",
]
RULE = ("full cross product of input outcome (value/exception/cancelled) x fn behaviour (omitted, return, raise, return future "
        "ok/err/cancelled/pending-then-finished) x error_fn behaviour (same + re-raise same) x form (MapExecutor, FlatMapExecutor, "
        "f_map, f_flat_map) x timing (input done before / completes later from another thread) x schedules; distinct = distinct "
        "combination+schedule; non-trivial = the derived future reached a terminal state")

FN_BEH = ["none", "ret6", "raise61", "futok7", "futerr71", "futcancelled", "ret900", "ret903"]
EF_BEH = ["none", "ret8", "raise81", "same", "futok9", "futerr91", "futcancelled", "ret901"]
# plain values >= 900 are FALSY non-futures (None, 0, "", [], {}, False): a function may return any object
FALSY_VALUES = {900: None, 901: 0, 902: "", 903: [], 904: {}, 905: False}
INPUTS = ["ok5", "err50", "cancelled"]
FORMS = ["f", "exec_sync", "exec_pool"]


def gen_chain(rng, i):
    """chains of 2-4 map / flat_map stages built by one thread WHILE the input is being completed by another one (the
    composition law `map g then h == map (h after g)` and identity, under every placement of the completion relative to the
    chaining thread's add_done_callback)"""
    n = rng.randint(2, 4)
    stages = []
    k = 100
    for j in range(n):
        flat = rng.random() < 0.4
        k += 10
        if flat:
            fn = rng.choice(["none", "futok%d" % k, "futok%d" % k, "futerr%d" % (k + 1), "raise%d" % (k + 2)])
            ef = rng.choice(["none", "none", "futok%d" % (k + 3), "raise%d" % (k + 4), "same"])
        else:
            fn = rng.choice(["none", "ret%d" % k, "ret%d" % k, "ret%d" % k, "raise%d" % (k + 2)])
            ef = rng.choice(["none", "none", "ret%d" % (k + 3), "raise%d" % (k + 4), "same"])
        stages.append([1 if flat else 0, fn, ef])
    d = dict(family="chain", stages=stages, inp=rng.choice(["ok5", "ok5", "ok5", "err50", "cancelled"]),
             timing=rng.choice(["during", "during", "during", "before", "after"]), idx=i, seed=rng.randrange(1 << 30))
    d.update(schedule_modes(rng))
    return d


def chain_body(desc, ctx):
    from more_executors.futures import f_map, f_flat_map

    def body(s, w):
        ctx.vals, ctx.excs = {}, {}
        ctx.calls = [([], []) for _ in desc["stages"]]

        def val(n):
            return ctx.vals.setdefault(n, Obj(n))

        def exc(n):
            return ctx.excs.setdefault(n, EXC["E0"]("x%d" % n))

        def mk(beh, calls):
            if beh == "none":
                return None

            def f(arg):
                s.yield_point("ucall")
                calls.append(arg)
                if beh.startswith("ret"):
                    return val(int(beh[3:]))
                if beh.startswith("raise"):
                    raise exc(int(beh[5:]))
                if beh == "same":
                    raise arg
                fu = SimFuture()
                fu.set_running_or_notify_cancel()
                if beh.startswith("futok"):
                    fu.set_result(val(int(beh[5:])))
                else:
                    fu.set_exception(exc(int(beh[6:])))
                return fu
            return f

        src = SimFuture()

        def complete_input():
            s.yield_point("complete")
            if desc["inp"] == "ok5":
                if src.set_running_or_notify_cancel():
                    src.set_result(val(5))
            elif desc["inp"] == "err50":
                if src.set_running_or_notify_cancel():
                    src.set_exception(exc(50))
            else:
                if Future.cancel(src):
                    src.set_running_or_notify_cancel()

        ct = None
        if desc["timing"] == "before":
            complete_input()
        elif desc["timing"] == "during":
            ct = s.spawn(complete_input, name="finisher")
        out = src
        if desc["timing"] == "race2":
            # the first stage exists; a finisher thread completes the input while a builder thread attaches the remaining stages
            # (main only waits: the two racing threads are the only runnable ones, which is what the systematic enumeration of
            # suspension PAIRS in `extended_search` needs)
            (flat, fn, ef) = desc["stages"][0]
            first = (f_flat_map if flat else f_map)(out, mk(fn, ctx.calls[0][0]), mk(ef, ctx.calls[0][1]))
            box = [first]

            def build_rest():
                o = box[0]
                for j, (flat, fn, ef) in list(enumerate(desc["stages"]))[1:]:
                    s.yield_point("api")
                    o = (f_flat_map if flat else f_map)(o, mk(fn, ctx.calls[j][0]), mk(ef, ctx.calls[j][1]))
                box[0] = o
            ct = s.spawn(complete_input, name="finisher")
            bt = s.spawn(build_rest, name="builder")
            s.block(lambda: ct.state == "done" and bt.state == "done", None, ("cjoin", ct.tid))
            out = box[0]
        else:
            for j, (flat, fn, ef) in enumerate(desc["stages"]):
                s.yield_point("api")
                out = (f_flat_map if flat else f_map)(out, mk(fn, ctx.calls[j][0]), mk(ef, ctx.calls[j][1]))
        ctx.out = out
        if desc["timing"] == "after":
            ct = s.spawn(complete_input, name="finisher")
        if ct is not None and ct.state != "done":
            s.block(lambda: ct.state == "done", None, ("cjoin", ct.tid))
        if not out.done():
            s.block(lambda: out.done(), s.now + 1000.0, ("waitout",))
        ctx.final = outcome(out)
    return body


def stage_spec(flat, fn, ef, inp):
    """one map / flat_map stage read off the property: (outcome, fn calls, error_fn calls) for an input ok<n> / err<n> / cancelled"""
    def lift(beh, arg):
        if beh.startswith("raise"):
            return "err" + beh[5:]
        if beh == "same":
            return "err%d" % arg
        if beh.startswith("ret"):
            return "typeError" if flat else "ok" + beh[3:]
        inner = {"futcancelled": "cancelled"}.get(beh) or ("ok" + beh[5:] if beh.startswith("futok") else "err" + beh[6:])
        return inner if flat else "okFut(%s)" % inner
    if inp == "cancelled":
        return "cancelled", [], []
    if inp.startswith("ok"):
        v = int(inp[2:])
        return (inp, [], []) if fn == "none" else (lift(fn, None), [v], [])
    e = int(inp[3:])
    return (inp, [], []) if ef == "none" else (lift(ef, e), [], [e])


def chain_spec(desc):
    """the property read stage by stage, independently of the library: (final outcome, per-stage calls)"""
    cur = desc["inp"]
    calls = []
    for (flat, fn, ef) in desc["stages"]:
        cur, fc, ec = stage_spec(flat, fn, ef, cur)
        calls.append("fn=[%s] err=[%s]" % (", ".join(map(str, fc)), ", ".join(map(str, ec))))
    return cur, calls


def run_chain(desc):
    wrapfut.install()
    ctx = Ctx()
    s, w = run(chain_body(desc, ctx), **sched_kwargs(desc))
    hits, verdicts = [], []
    if s.end_reason != "done":
        hits.append(hit("C13/stuck:%s" % s.end_reason, "chain scenario ended with %s; parked %r" % (s.end_reason, s.parked())))
    for e in s.log:
        if e[1] == "tdied":
            hits.append(hit("C13/thread-died:%s" % e[2], "thread %d died with %s at %s" % (e[0], e[2], e[3])))
    got = None
    if hasattr(ctx, "final"):
        inv_v = {id(o): n for n, o in ctx.vals.items()}
        inv_e = {id(o): n for n, o in ctx.excs.items()}
        fin = ctx.final
        if fin[0] == "ok":
            got_out = "ok%d" % inv_v.get(id(fin[1]), -1)
        elif fin[0] == "err":
            got_out = "typeError" if isinstance(fin[1], TypeError) else "err%d" % inv_e.get(id(fin[1]), -1)
        else:
            got_out = fin[0]
        got_calls = ["fn=[%s] err=[%s]" % (", ".join(str(inv_v.get(id(a), -1)) for a in fc), ", ".join(str(inv_e.get(id(a), -1)) for a in ec))
                     for (fc, ec) in ctx.calls]
        got = (got_out, got_calls)
        want = chain_spec(desc)
        if got != want:
            hits.append(hit("C13/law-violated:chain", "stages=%r input=%s timing=%s: observed %r, composition of the stage laws requires %r"
                            % (desc["stages"], desc["inp"], desc["timing"], got, want)))
        # the same fold through the Lean model, stage by stage
        cur = desc["inp"]
        lean_calls = []
        for (flat, fn, ef) in ([] if desc.get("no_oracle") else desc["stages"]):
            out = leanval.validate_blocks([["S oracle", "k7.resolve %d %s %s %s" % (flat, fn, ef, cur), "."]])[0][len("ORACLE "):]
            cur = out.split(" ")[0]
            lean_calls.append(out.split(" ", 1)[1])
        if not desc.get("no_oracle"):
            verdicts.append("OK 1 1" if (cur, lean_calls) == got else "DIVERGE 1 [chain %r] real=%r lean=%r" % (desc["stages"], got, (cur, lean_calls)))
    verdicts += protocol_verdicts(s)
    return {"hits": hits, "blocks": [], "verdicts": verdicts, "stats": {"yields": s.nyields, "family_chain": 1, "chain_%s" % desc["timing"]: 1},
            "schedule": list(s.chooser.record), "fingerprint": fingerprint(desc, s) if got is not None else None,
            "hot_counts": dict(getattr(s.chooser, "hot_count", {}))}


def gen_scenarios(seed, tier):
    rng0 = random.Random(seed * 7919 + 131)
    for d in _gen_single(seed, tier):
        yield d
        if d["idx"] % 2 == 0:
            yield gen_chain(rng0, 100000 + d["idx"])


def _gen_single(seed, tier):
    rng = random.Random(seed * 3571 + 13)
    combos = list(itertools.product([0, 1], FN_BEH, EF_BEH, INPUTS, FORMS, ["before", "later"], ["now", "later"]))
    rng.shuffle(combos)
    reps = 1 if tier == "quick" else 12
    i = 0
    for rep in range(reps):
        for (flat, fn, ef, inp, form, timing, inner_timing) in combos:
            if form != "f" and inp == "cancelled":
                continue   # an executor's own delegate future is cancelled only through the derived future
            if form != "f" and timing == "before" and form == "exec_pool":
                continue
            d = dict(flat=flat, fn=fn, ef=ef, inp=inp, form=form, timing=timing, inner_timing=inner_timing, idx=i,
                     cancel_race=(rng.random() < 0.1), seed=rng.randrange(1 << 30))
            d.update(schedule_modes(rng))
            i += 1
            yield d


class Ctx(object):
    pass


class Obj(object):
    def __init__(self, n):
        self.n = n

    def __repr__(self):
        return "O%d" % self.n


def body_for(desc, ctx):
    from more_executors import Executors
    from more_executors.map import MapExecutor
    from more_executors.flat_map import FlatMapExecutor
    from more_executors.futures import f_map, f_flat_map

    def body(s, w):
        ctx.vals = {}
        ctx.excs = {}
        ctx.inner = {}
        ctx.fn_calls = []
        ctx.ef_calls = []
        ctx.pending_inner = []

        def val(n):
            if n in FALSY_VALUES and n not in ctx.vals:
                ctx.vals[n] = FALSY_VALUES[n] if not isinstance(FALSY_VALUES[n], (list, dict)) else type(FALSY_VALUES[n])()
            return ctx.vals.setdefault(n, Obj(n))

        def exc(n):
            return ctx.excs.setdefault(n, EXC["E0"]("x%d" % n))

        def behave(beh, arg, calls):
            calls.append(arg)
            if beh.startswith("ret"):
                return val(int(beh[3:]))
            if beh.startswith("raise"):
                raise exc(int(beh[5:]))
            if beh == "same":
                raise arg
            f = SimFuture()
            ctx.inner[beh] = f
            if beh == "futcancelled":
                Future.cancel(f)
                f.set_running_or_notify_cancel()
            elif desc["inner_timing"] == "now":
                f.set_running_or_notify_cancel()
                if beh.startswith("futok"):
                    f.set_result(val(int(beh[5:])))
                else:
                    f.set_exception(exc(int(beh[6:])))
            else:
                ctx.pending_inner.append((f, beh))
            return f

        fn = None if desc["fn"] == "none" else (lambda v: behave(desc["fn"], v, ctx.fn_calls))
        ef = None if desc["ef"] == "none" else (lambda e: behave(desc["ef"], e, ctx.ef_calls))
        inp = desc["inp"]

        def complete_input(f):
            if inp == "ok5":
                if f.set_running_or_notify_cancel():
                    f.set_result(val(5))
            elif inp == "err50":
                if f.set_running_or_notify_cancel():
                    f.set_exception(exc(50))
            else:
                if Future.cancel(f):
                    f.set_running_or_notify_cancel()

        later = []
        if desc["form"] == "f":
            src = SimFuture()
            if desc["timing"] == "before":
                complete_input(src)
            else:
                later.append(lambda: complete_input(src))
            out = (f_flat_map if desc["flat"] else f_map)(src, fn, ef)
        else:
            def callable_():
                if inp == "ok5":
                    return val(5)
                raise exc(50)
            base = SimSync() if desc["form"] == "exec_sync" else SimPool(1)
            cls = FlatMapExecutor if desc["flat"] else MapExecutor
            # the documented constructor: (delegate, fn, logger, name, error_fn=...) - every second scenario passes the logger (and
            # name) positionally; it must stay a logger and never become a mapping function
            import logging as _logging
            if desc.get("idx", 0) % 2 == 1:
                lg = _logging.getLogger("c13")
                ex = cls(base, fn, lg, "c13n") if ef is None else cls(base, fn, lg, error_fn=ef)
            else:
                ex = cls(base, fn, error_fn=ef)
            ctx.ex = ex
            out = ex.submit(callable_)
        ctx.out = out

        def finisher():
            for act in later:
                s.yield_point("complete")
                act()
            # inner futures returned by the user functions that are still pending: finish them now
            for _ in range(50):
                if not ctx.pending_inner:
                    s.yield_point("poll")
                    if out.done():
                        break
                    continue
                f, beh = ctx.pending_inner.pop(0)
                s.yield_point("complete")
                if f.set_running_or_notify_cancel():
                    if beh.startswith("futok"):
                        f.set_result(val(int(beh[5:])))
                    else:
                        f.set_exception(exc(int(beh[6:])))
        cts = [s.spawn(finisher, name="finisher")]
        if desc.get("cancel_race"):
            def canceller():
                s.yield_point("api")
                ctx.cancel_result = out.cancel()
            cts.append(s.spawn(canceller, name="canceller"))
        for ct in cts:
            if ct.state != "done":
                s.block(lambda ct=ct: ct.state == "done", None, ("cjoin", ct.tid))
        if not out.done():
            s.block(lambda: out.done(), s.now + 1000.0, ("waitout",))
        # drain: anything still pending that the finisher missed
        for (f, beh) in list(ctx.pending_inner):
            if f.set_running_or_notify_cancel():
                if beh.startswith("futok"):
                    f.set_result(val(int(beh[5:])))
                else:
                    f.set_exception(exc(int(beh[6:])))
        ctx.final = outcome(out)
        if desc["form"] == "exec_pool":
            base.shutdown(True)
    return body


def observed(ctx):
    """canonical string in the oracle's format"""
    fin = ctx.final
    inv_v = {id(o): n for n, o in ctx.vals.items()}
    inv_e = {id(o): n for n, o in ctx.excs.items()}
    if fin[0] == "ok":
        v = fin[1]
        if isinstance(v, Future):
            o = outcome(v)
            for beh, f in ctx.inner.items():
                if f is v:
                    if o[0] == "ok":
                        out = "okFut(ok%d)" % inv_v.get(id(o[1]), -1)
                    elif o[0] == "err":
                        out = "okFut(err%d)" % inv_e.get(id(o[1]), -1)
                    else:
                        out = "okFut(%s)" % o[0]
                    break
            else:
                out = "okFut(?)"
        else:
            out = "ok%d" % inv_v.get(id(v), -1)
    elif fin[0] == "err":
        if isinstance(fin[1], TypeError):
            out = "typeError"
        else:
            out = "err%d" % inv_e.get(id(fin[1]), -1)
    else:
        out = fin[0]
    fnc = "[" + ", ".join(str(inv_v.get(id(a), -1)) for a in ctx.fn_calls) + "]"
    efc = "[" + ", ".join(str(inv_e.get(id(a), -1)) for a in ctx.ef_calls) + "]"
    return "%s fn=%s err=%s" % (out, fnc, efc)


def py_spec(desc):
    """The property statement, written independently (monitor): expected outcome and calls."""
    flat, fn, ef, inp = desc["flat"], desc["fn"], desc["ef"], desc["inp"]

    def lift(beh, arg):
        if beh.startswith("raise"):
            return "err" + beh[5:]
        if beh == "same":
            return "err%d" % arg
        if beh.startswith("ret"):
            return "typeError" if flat else "ok" + beh[3:]
        inner = {"futcancelled": "cancelled"}.get(beh) or ("ok" + beh[5:] if beh.startswith("futok") else "err" + beh[6:])
        return inner if flat else "okFut(%s)" % inner
    if inp == "cancelled":
        return "cancelled fn=[] err=[]"
    if inp == "ok5":
        if fn == "none":
            return "ok5 fn=[] err=[]"
        return "%s fn=[5] err=[]" % lift(fn, None)
    if ef == "none":
        return "err50 fn=[] err=[]"
    return "%s fn=[] err=[50]" % lift(ef, 50)


def run_one(desc):
    if desc.get("family") == "chain":
        return run_chain(desc)
    if desc.get("family") == "zip-race":
        return run_zip_race(desc)
    wrapfut.install()
    ctx = Ctx()
    s, w = run(body_for(desc, ctx), **sched_kwargs(desc))
    hits = []
    verdicts = []
    if s.end_reason != "done":
        hits.append(hit("C13/stuck:%s" % s.end_reason, "scenario ended with %s; parked %r" % (s.end_reason, s.parked())))
    for e in s.log:
        if e[1] == "tdied":
            hits.append(hit("C13/thread-died:%s" % e[2], "thread %d died with %s at %s" % (e[0], e[2], e[3])))
    line = "k7.resolve %d %s %s %s" % (desc["flat"], desc["fn"], desc["ef"], desc["inp"])
    got = None
    if hasattr(ctx, "final"):
        got = observed(ctx)
        cancelled_by_client = getattr(ctx, "cancel_result", None) is True
        if not cancelled_by_client:
            want = py_spec(desc)
            if got != want:
                hits.append(hit("C13/law-violated:%s" % ("flat" if desc["flat"] else "map"),
                                "form=%s input=%s fn=%s error_fn=%s timing=%s/%s: observed %s, the property requires %s"
                                % (desc["form"], desc["inp"], desc["fn"], desc["ef"], desc["timing"], desc["inner_timing"], got, want)))
            out = leanval.validate_blocks([["S oracle", line, "."]])[0]
            lean = out[len("ORACLE "):]
            verdicts.append("OK 1 1" if lean == got else "DIVERGE 1 [%s] real=%s lean=%s" % (line, got, lean))
    verdicts += protocol_verdicts(s)
    r = {"hits": hits, "blocks": [], "verdicts": verdicts, "stats": {"yields": s.nyields, "form_" + desc["form"]: 1},
         "schedule": list(s.chooser.record), "fingerprint": fingerprint(desc, s) if got is not None else None}
    if desc.get("idx") == 0:
        r["sample"] = {"desc": desc, "oracle_line": line, "observed": got}
    return r


def zip_race_body(desc, ctx):
    """the output of f_zip(a, b) is completed by a finisher thread (it completes a, then b) while a builder thread registers a
    done-callback on it: whatever the interleaving, the callback runs exactly once"""
    from more_executors.futures import f_zip

    def body(s, w):
        a, b = SimFuture(), SimFuture()
        out = f_zip(a, b)
        ctx.runs = []

        def finish():
            for f, v in ((a, 1), (b, 2)):
                s.yield_point("complete")
                if f.set_running_or_notify_cancel():
                    f.set_result(v)

        def build():
            s.yield_point("api")
            out.add_done_callback(lambda f: ctx.runs.append(f.done()))
        ct = s.spawn(finish, name="finisher")
        bt = s.spawn(build, name="builder")
        s.block(lambda: ct.state == "done" and bt.state == "done", None, ("cjoin", ct.tid))
        ctx.out_done = out.done()
    return body


def run_zip_race(desc):
    wrapfut.install()
    ctx = Ctx()
    s, w = run(zip_race_body(desc, ctx), **sched_kwargs(desc))
    hits = []
    if s.end_reason != "done":
        hits.append(hit("C13/stuck:%s" % s.end_reason, "zip race scenario ended with %s; parked %r" % (s.end_reason, s.parked())))
    elif getattr(ctx, "out_done", False) and len(ctx.runs) != 1:
        hits.append(hit("C13/callback-count:output-future", "a done-callback registered on the output of f_zip while it was being completed "
                        "ran %d times (the output is done)" % len(ctx.runs)))
    return {"hits": hits, "blocks": [], "verdicts": [], "stats": {"family_zip_race": 1}, "schedule": list(s.chooser.record), "fingerprint": None}


def pair_race_search(budget_s=90):
    import time as _t
    t0 = _t.time()
    # the output future of f_zip (an `_OutputFuture`): the finisher has about 22 hot yields, the builder about 7
    base = dict(family="zip-race", idx=1, seed=1, mode="holdat", p_switch=0.0, trace_lines=True, hold_at=None)
    for i in range(1, 31):
        for j in range(1, 11):
            if _t.time() - t0 > budget_s * 0.3:
                break
            d = dict(base, hold_at=[[1, i], [2, j]])
            r = run_zip_race(d)
            for hh in r["hits"]:
                hh = dict(hh)
                hh["desc"] = d
                hh["schedule"] = r["schedule"]
                return hh
    return _pair_race_search_chain(max(10.0, budget_s - (_t.time() - t0)))


def _pair_race_search_chain(budget_s=90):
    """systematic search for a lost / duplicated callback: a finisher completes the input of a two-stage chain while a builder
    attaches the second stage to the first stage's (library) future; every PAIR of suspension points (finisher at its i-th hot yield,
    builder at its j-th) is tried - held threads are released oldest first, which realises `A pauses inside its window, B runs into
    its own and pauses, A finishes, B resumes`, the shape of a check-then-act race against an unlocked state change"""
    import time as _t
    t0 = _t.time()
    base = dict(family="chain", stages=[[0, "ret110", "none"], [0, "ret120", "none"]], inp="ok5", timing="race2", idx=1, seed=1,
                mode="holdat", p_switch=0.0, trace_lines=True, hold_at=None)
    base["no_oracle"] = True
    # thread ids in spawn order; the finisher has about 16 hot yields, the builder about 115 (f_map builds two internal executors);
    # a placement beyond a thread's last hot yield never suspends it
    fin, bld = 1, 2
    for sd in (1,):
        for i in range(1, 25):
            for j in range(1, 141):
                if _t.time() - t0 > budget_s:
                    return None
                d = dict(base, seed=sd, hold_at=[[fin, i], [bld, j]])
                r = run_chain(d)
                for h in r["hits"]:
                    h = dict(h)
                    h["desc"] = d
                    h["schedule"] = r["schedule"]
                    return h
    return None


def extended_search(seed, tier, broken):
    h = pair_race_search(90 if tier == "quick" else 600)
    if h is not None:
        return h
    for d in gen_scenarios(seed + 1, "quick"):
        r = run_one(d)
        for h in r["hits"]:
            h = dict(h)
            h["desc"] = d
            h["schedule"] = r["schedule"]
            return h
    return None
