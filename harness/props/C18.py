"""C18 - Faults in user code stay with their own future; worker threads survive.

Lean: Props/C18.lean (raising branches of the Retry / Poll / Throttle / MapFut / MeFuture models) + K11, the table of
user-code call sites and their exception guards regenerated from the source and decided.  Tie: random stacks with faults
injected at every site (callable, map / error fn, poll / cancel fn, retry policy methods, count callable, done-callbacks),
combined with concurrent cancels, followed by a probe submission; monitors: thread death, escaping exceptions, probe served,
unrelated futures unaffected."""
import random

from props.common import fingerprint, hit
from props import stackcommon as sc

ID = "C18"
LEAN_MODULES = ["MoreExec.Props.C18"]
THEOREMS = [
    "MoreExec.Faults.C18_every_site_guarded",
    "MoreExec.Faults.C18_policy_fault_is_local",
    "MoreExec.Faults.C18_poll_fault_spares_others",
    "MoreExec.Faults.C18_poll_thread_survives",
    "MoreExec.Faults.C18_count_fault",
    "MoreExec.Faults.C18_map_fn_fault",
    "MoreExec.Faults.C18_callback_fault",
    "MoreExec.Retry.C05_policy_raises",
    "MoreExec.Poll.C08_raise_fails_shown",
    "MoreExec.Throttle.C07_count_fallback",
]
KERNELS = ["K11", "K1", "K2", "K4"]
BUDGET = {"quick": 150, "thorough": 1500}
ASSUMPTIONS = [
    "the component models have no dead-worker state: that a raising call site cannot kill a thread rests on the guard table K11 "
    "(regenerated, decided) and on the replay correspondences of C05 / C07 / C08 / C02, whose scenarios include raising user code",
    "a done-callback that raises from a DIRECT call (add_done_callback on an already-done future) propagates to the caller of "
    "add_done_callback, i.e. to the user's own thread; the library's own direct registrations use callbacks that do not raise",
]
RULE = ("random stacks of 1-3 layers with scripted faults at every user-code site x call index (map fn / error fn raise, poll fn "
        "raise / yield_exception, cancel fn raise, policy.should_retry / sleep_time raise, count callable raise or None, "
        "done-callbacks raising or re-submitting, callables raising), concurrent cancels, then a probe submission after the "
        "dust settles; distinct = distinct (program, schedule) hash; non-trivial = at least one injected fault fired")


def gen_scenarios(seed, tier):
    rng = random.Random(seed * 122949829 + 18)
    n = 2400 if tier == "quick" else 40000
    for i in range(n):
        d = sc.gen_stack(rng, i, ops=("submit", "submit", "cancel", "addcb", "result", "sleep"), tail=(60.0,), shutdown_p=0.0, max_layers=3)
        if not d["layers"]:
            d["layers"] = [sc.gen_layer(rng, rng.choice(["retry", "poll", "throttle", "map"]))]
        for lay in d["layers"]:
            k, p = lay
            if k == "retry" and rng.random() < 0.6:
                p.clear()
                p.update({"custom": True, "policy_script": [rng.choice(["raise", "retry:raise", "retry:1.0", "stop"]) for _ in range(rng.randint(1, 3))] + ["stop"]})
            elif k == "poll":
                p["poll_script"] = [rng.choice(["raise", "err", "yield", "raise"]) for _ in range(rng.randint(1, 3))] + ["yield"]
                p["cancel_fn"] = rng.random() < 0.6
                p["cancel_script"] = [[rng.choice([["raise", "E2"], ["ret", True], ["ret", False]])]]
            elif k == "throttle":
                p["block"] = False
                p["count"] = [rng.choice([1, 2])] + [rng.choice(["raise", 1, 2, None]) for _ in range(rng.randint(1, 3))] + [rng.choice([1, 2])]
                if rng.random() < 0.3:
                    # blocking mode with a count that never makes submit() wait (unlimited, or far above the load): the mode itself
                    # must not make submit() - and a worker thread of a layer above that calls it - fail
                    p["block"] = True
                    p["count"] = rng.choice([None, None, [None, None], 50])
            elif k == "map":
                p["script"] = [[rng.choice([["raise", "E1"], ["retarg"]])]]
                p["errfn"] = rng.random() < 0.5
                p["escript"] = [[rng.choice([["raise", "E2"], ["reraise"], ["ret", 7]])]]
        nretry = sum(1 for lay in d["layers"] if lay[0] == "retry")
        if nretry >= 2:
            for lay in d["layers"]:
                if lay[0] == "retry" and lay[1].get("custom"):
                    lay[1]["policy_script"] = lay[1]["policy_script"][:1] + ["stop"]
        if d["base"] == "simsync":
            for ops in d["clients"]:
                for op in ops:
                    if op[0] == "addcb" and op[2] == "submit":
                        op[2] = "raise"
        # a raising done-callback followed by further callbacks on the same future: the fault must not stop the others
        if idx_of(d) % 3 == 0:
            for ops in d["clients"]:
                extra = []
                for op in ops:
                    extra.append(op)
                    if op[0] == "submit" and rng.random() < 0.7:
                        extra += [["addcb", op[1], "raise"], ["addcb", op[1], "plain"], ["addcb", op[1], "slow"]]
                ops[:] = extra
        if idx_of(d) % 12 == 5:
            # blocking throttle whose count callable fails on several evaluations in a row while submitters really have to wait for
            # room: every evaluation - on a submitter's thread as on the hand-over thread - goes through the guard that logs the fault
            # and falls back to the previous value; submit() does not raise, no thread dies, nothing stays pending
            k = rng.randint(1, 3)
            d["layers"] = [["throttle", {"block": True, "count": [1] * k + ["raise"] * rng.randint(2, 4) + [1, 1, rng.choice([1, 2])]}]]
            if rng.random() < 0.4:
                d["layers"].append(["retry", {"max_attempts": 2, "sleep": 1.0, "exponent": 1.0, "max_sleep": 3.0, "exception_base": ["E0"]}])
            d["base"] = rng.choice(["simpool1", "simpool2"])
            cl = []
            kk = 0
            for c in range(rng.choice([1, 2, 2])):
                ops = []
                for _ in range(rng.randint(2, 4)):
                    ops.append(["submit", "k%d" % kk, [[["sleep", rng.choice([0.5, 1.0, 2.0])], ["ret", kk]]]])
                    kk += 1
                cl.append(ops)
            d["clients"] = cl
            d["family"] = "blocking-count-faults"
        # the probe: a fresh submission long after the faults, which must be served
        d["clients"].append([["sleep", 45.0], ["submit", "probe", [[["ret", 4242]]]], ["result", "probe", 10.0]])
        yield d


def idx_of(d):
    return d.get("idx", 0)


def monitors(s, ctx, desc):
    hits = []
    if ctx.completed:
        pf = ctx.futs.get("probe")
        if pf is None:
            for (tid, op, key, res) in ctx.api:
                if op == "submit" and key == "probe" and res[0] == "raise":
                    hits.append(hit("C18/probe-refused:%s" % type(res[1]).__name__, "the probe submission after the faults raised %r" % (res[1],)))
        elif not pf.done():
            hits.append(hit("C18/probe-not-served", "a fresh submission made after the faults is still pending %.0f virtual seconds later; layers %r"
                            % (ctx.t_end - 45.0, [l[0] for l in desc["layers"]])))
    # exceptions escaping public API calls of client threads (other than the documented ones)
    for (tid, op, key, res) in ctx.api:
        if res[0] == "raise" and op in ("cancel", "addcb", "submit") and key != "probe":
            nm = type(res[1]).__name__
            if op == "addcb" and nm in ("E2",):
                continue        # the client's own raising callback called directly on a done future
            if op == "submit" and "cannot schedule" in str(res[1]):
                continue
            hits.append(hit("C18/escaped:%s:%s" % (op, nm), "%s(%s) raised %r" % (op, key, res[1])))
    return hits


def run_one(desc):
    s, ctx, out = sc.run_stack(desc, props=("C18", "C03", "C02"))
    hits = [h for h in out.get("C18", [])] + monitors(s, ctx, desc)
    if any(e[1] == "uraise" or (e[1] == "cbrun") for e in s.log):
        # a fault in one callback (or anywhere) must not keep OTHER done-callbacks from running
        hits += [hit("C18/callback-fault-stops-others", h["detail"]) for h in out.get("C02", []) if h["sig"] == "C02/callback-never"]
    hits += [h for h in out.get("C03", []) if h["sig"] == "C03/livelock"]
    nfault = sum(1 for e in s.log if e[1] in ("uraise", "pollraise", "policy!"))
    return {"hits": hits, "blocks": [], "verdicts": [], "schedule": list(s.chooser.record),
            "fingerprint": fingerprint(desc, s) if nfault else None,
            "stats": {"faults_fired": nfault, "user_raises": sum(1 for e in s.log if e[1] == "uraise"),
                      "poll_raises": sum(1 for e in s.log if e[1] == "pollraise"),
                      "policy_raises": sum(1 for e in s.log if e[1] == "policy!"),
                      "probe_done": 1 if (ctx.futs.get("probe") is not None and ctx.futs["probe"].done()) else 0,
                      "layers_%d" % len(desc["layers"]): 1},
            "sample": {"desc": {k: desc[k] for k in ("base", "layers", "clients")}, "log_len": len(s.log)} if desc.get("idx", 1) == 0 else None}


def extended_search(seed, tier, broken):
    from run import run_scenarios
    for extra in range(1, 4 if tier == "quick" else 10):
        descs = list(gen_scenarios(seed + 1000 * extra, "quick"))
        for r in run_scenarios("props.C18", descs, budget_s=100):
            for h in r.get("hits", []):
                return {"sig": h["sig"], "detail": h.get("detail"), "desc": r["desc"], "schedule": r.get("schedule")}
    return None
