"""C07 - Throttle: never more than count in flight, FIFO hand-over, no idle capacity, blocking submit.

Lean: Model/Throttle.lean (section-level model calling the admission kernel K4 regenerated from throttle.py);
theorems in Props/C07.lean.  Tie: K4 regenerated + differential; histories of the real ThrottleExecutor under dsched
(order of lock-protected sections, event operations, hand-overs, completions) replayed through the model's step
function (every real action must be enabled in the model).  Search: direct monitors on the same runs."""
import random

from props.common import fingerprint, hit
from props import stackcommon as sc
from proj import throttle as proj
import leanval

ID = "C07"
LEAN_MODULES = ["MoreExec.Props.C07"]
THEOREMS = [
    "MoreExec.Throttle.C07_bound_at_handover",
    "MoreExec.Throttle.C07_inflight_le_counter",
    "MoreExec.Throttle.C07_bound_static",
    "MoreExec.Throttle.C07_fifo",
    "MoreExec.Throttle.C07_no_idle_capacity",
    "MoreExec.Throttle.C07_count_fallback",
    "MoreExec.Throttle.C07_blocking_guard_facts",
    "MoreExec.Throttle.C07_block_test_spec",
    "MoreExec.Throttle.C07_admission_notifies_iff_popped",
    "MoreExec.Throttle.C07_admission_is_block_pop",
    "MoreExec.BlockProto.C07_blocked_only_while_full",
    "MoreExec.BlockProto.C07_room_wakes_all",
    "MoreExec.BlockProto.C07_shutdown_releases_blocked",
    "MoreExec.Throttle.C07_admission_kernel",
]
KERNELS = ["K4"]
BUDGET = {"quick": 150, "thorough": 1500}
ASSUMPTIONS = [
    "AT1: `_to_submit` is read/written only under `_lock` (the projection takes each outermost acquisition of that lock as one section)",
    "AT2: `_running_count` is incremented only by the hand-over thread inside the admission loop and decremented under AtomicInt.lock",
    "no-idle-capacity is proved for a static count (the property itself excepts dynamic counts: they take effect at the periodic re-check)",
    "the delegate obeys the delegate contract DC (SimPool/SimSync)",
]
RULE = ("seeded single-layer ThrottleExecutor programs (count static 1-3 / None / scripted callable incl. None, 0 and raising; "
        "block on/off; 1-3 submitter threads; cancels; callables that sleep in virtual time) x random/PCT line-level schedules; "
        "distinct = distinct (program, schedule) hash; non-trivial = at least one hand-over happened")


def gen_scenarios(seed, tier):
    rng = random.Random(seed * 7919 + 7)
    n = 3000 if tier == "quick" else 60000
    for i in range(n):
        d = sc.gen_stack(rng, i, kinds=["throttle"], max_layers=1, ops=("submit", "cancel", "sleep", "result"),
                         bases=("simpool1", "simpool2", "simpool2", "simsync"), tail=(40.0,), shutdown_p=0.0)
        d["layers"] = [sc.gen_layer(rng, "throttle")]
        if i % 5 == 4:
            d = gen_blocking(rng, i, d)
        elif i % 10 == 7:
            d = gen_count_drop(rng, i, d)
        yield d


def gen_count_drop(rng, i, d):
    """a dynamic count that DROPS below the number of futures already in flight while more are queued: from the next evaluation on
    nothing may be handed over until enough of the running ones have finished (the limit in force is the value last returned)"""
    d = dict(d)
    hi = rng.choice([2, 3, 3, 4])
    lo = rng.choice([0, 1, 1, hi - 1])
    script = [hi] * rng.randint(2, 7) + [lo] * rng.randint(1, 4) + [rng.choice([lo, 1, hi])]
    d["layers"] = [["throttle", {"count": script, "block": False}]]
    clients = []
    k = 0
    for c in range(rng.choice([1, 1, 2])):
        ops = []
        for _ in range(rng.randint(3, 6)):
            ops.append(["submit", "k%d" % k, [[["sleep", rng.choice([1.0, 2.0, 3.0, 5.0])], ["ret", k]]]])
            k += 1
            if rng.random() < 0.25:
                ops.append(["sleep", rng.choice([0.5, 1.0])])
        clients.append(ops)
    d["clients"] = clients
    d["base"] = rng.choice(["simpool2", "simpool2", "simpool1"])
    d["tail"] = 60.0
    d["family"] = "count-drop"
    return d


def gen_blocking(rng, i, d):
    """blocking mode with a small static count and more submissions than the queue holds, from 1-3 threads: submitters park in
    `_block_until_ready` and must be released as soon as the hand-over thread (or a cancel) makes room"""
    d = dict(d)
    d["layers"] = [["throttle", {"count": rng.choice([1, 1, 2]), "block": True}]]
    clients = []
    k = 0
    for c in range(rng.choice([1, 2, 2, 3])):
        ops = []
        for _ in range(rng.randint(2, 4)):
            beh = []
            if rng.random() < 0.5:
                beh.append(["sleep", rng.choice([0.5, 1.0, 2.0])])
            beh.append(["ret", k])
            ops.append(["submit", "k%d" % k, [beh]])
            k += 1
            r = rng.random()
            if r < 0.15 and k > 1:
                ops.append(["cancel", "k%d" % rng.randrange(k)])
            elif r < 0.3:
                ops.append(["sleep", rng.choice([0.5, 1.0])])
        clients.append(ops)
    if rng.random() < 0.3:
        # shutdown() while submitters may be asleep in submit(): it must get in, wake them, and they must leave (their submit raises)
        clients.append([["sleep", rng.choice([0.5, 1.0, 1.5])], ["shutdown", rng.choice([True, False])]])
        d["family_shutdown"] = True
    d["clients"] = clients
    d["base"] = rng.choice(["simpool1", "simpool2", "simsync"])
    d["family"] = "blocking"
    return d


def static_count(desc):
    c = desc["layers"][0][1].get("count", 1)
    return None if isinstance(c, list) else ("unlimited" if c is None else c)


def monitors(s, ctx, desc):
    """Direct statement of the property on observable events."""
    hits = []
    cnt = desc["layers"][0][1].get("count", 1)
    dynamic = isinstance(cnt, list)
    worker = None
    for e in s.log:
        if e[1] == "spawn" and str(e[3]).startswith("ThrottleExecutor"):
            worker = e[2]
            break
    last = None if dynamic else cnt      # value most recently returned to the hand-over thread
    have_last = not dynamic
    shared_last = last                   # `_last_throttle`: value most recently returned to the executor (any thread)
    cands = [last]                       # values the hand-over thread may be using
    ambig = False
    wparked = False
    handed_set = set()
    inflight = set()
    dkey = {}
    submitted = []          # keys in order of submit() return
    cancelled_true = set()
    handed = []
    fut_key = {}
    queued = set()
    blocked_subs = {}       # submitter tid -> log index of its park inside `_block_until_ready`
    in_ctor = False
    dres, opened = {}, {}
    for i, e in enumerate(s.log):
        if e[1] == "dcancel>":
            opened.setdefault(e[0], []).append(i)
        elif e[1] == "dcancel<" and opened.get(e[0]):
            dres[opened[e[0]].pop()] = e[3]
    for i, e in enumerate(s.log):
        t, k = e[0], e[1]
        if k == "ctor>":
            in_ctor = True
        elif k == "ctor<":
            in_ctor = False
        elif k == "uret" and e[2] == "countfn0":
            v = None if e[4] == "None" else int(e[4])
            if t == worker or in_ctor:
                # `_eval_throttle` stores the value in the shared `_last_throttle` and returns that attribute, read on the next
                # line: what the hand-over thread uses is its own value or one a submitter stored since ("the value the count
                # callable most recently returned to the executor")
                cands = [v]
                have_last = True
            else:
                cands.append(v)
            shared_last = v
        elif k == "uraise" and e[2] == "countfn0" and t == worker:
            cands = [shared_last]
        elif k == "ret" and e[2] == "submit":
            submitted.append(e[4])
            fut_key[e[3]] = e[4]
            if e[4] not in handed_set:
                queued.add(e[4])
        elif k == "ret" and e[2] == "cancel" and e[4] is True and e[3] in fut_key:
            cancelled_true.add(fut_key[e[3]])
            queued.discard(fut_key[e[3]])
        elif k == "dsubmit" and t == worker:
            dkey[e[3]] = e[4]
            handed.append(e[4])
            handed_set.add(e[4])
            queued.discard(e[4])
            inflight.add(e[3])
            lim = None if any(c is None for c in cands) else max(cands)
            if have_last and lim is not None and len(inflight) > lim:
                hits.append(hit("C07/over-count", "hand-over of %s makes %d callables in flight with count in %r (log %d)"
                                % (e[4], len(inflight), cands, i)))
        elif k == "dcomplete" and e[2] in inflight:
            inflight.discard(e[2])
        elif k == "dcancel>" and e[2] in inflight and dres.get(i) is True:
            inflight.discard(e[2])      # the delegate future is cancelled (done) before its callbacks run inside cancel()
        elif k == "park" and t != worker and e[2] in ("event", "cond") and len(e) > 4 and e[4] == 30.0:
            # a submitter parking in `_block_until_ready` (the only 30 s wait a non-worker thread makes)
            blocked_subs[t] = i
        elif k in ("woke", "acq", "call", "ret") and t in blocked_subs:
            blocked_subs.pop(t, None)
        elif k == "idle_jump" and not dynamic and blocked_subs and isinstance(cnt, int):
            # "in blocking mode submit() ... blocks only while the queue already holds count entries": virtual time is about to
            # pass (every thread is blocked) with a submitter asleep although the queue has room
            q = [x for x in submitted if x in queued]
            if len(q) < cnt:
                hits.append(hit("C07/blocked-with-room", "time passes (to t=%s) with submit() of thread(s) %r asleep in blocking mode while "
                                "the queue holds %d < count=%d entries (log %d)" % (e[2], sorted(blocked_subs), len(q), cnt, i)))
                break
        elif k == "park" and t == worker:
            wparked = (e[2] == "event")
        elif k == "woke" and t == worker:
            wparked = False
        elif k == "idle_jump" and not dynamic and wparked:
            # virtual time is about to pass while the hand-over thread sleeps on its event: with a static count nothing may
            # be queued while capacity is free (a thread busy inside delegate.submit() of an inline delegate is not asleep)
            q = [x for x in submitted if x in queued]
            if q and (cnt is None or len(inflight) < cnt):
                # a submit() still in progress has not enqueued yet; `queued` only holds returned submits
                hits.append(hit("C07/idle-capacity", "time passes (to t=%s) with %d queued and %d in flight, count=%r (log %d)"
                                % (e[2], len(q), len(inflight), cnt, i)))
                break
    # FIFO: hand-over order = submit order of the handed keys (a key is 'submitted' when its enqueue section ran; the
    # order of submit() returns equals the enqueue order only per thread, so compare per submitting thread)
    per_thread = {}
    for (tid, op, key, res) in ctx.api:
        if op == "submit" and res[0] == "ret":
            per_thread.setdefault(tid, []).append(key)
    pos = {k: i for i, k in enumerate(handed)}
    for tid, keys in per_thread.items():
        hk = [k for k in keys if k in pos]
        if [pos[k] for k in hk] != sorted(pos[k] for k in hk):
            hits.append(hit("C07/not-fifo", "thread %d submitted %r but the delegate received them in order %r" % (tid, hk, sorted(hk, key=lambda x: pos[x]))))
    if len(set(handed)) != len(handed):
        hits.append(hit("C07/handed-twice", "a callable reached the delegate twice: %r" % (handed,)))
    for k in handed:
        if k in cancelled_true and False:
            pass
    # blocking mode: submit() must work for every count value
    for (tid, op, key, res) in ctx.api:
        if op == "submit" and res[0] == "raise" and "cannot schedule" not in str(res[1]):
            hits.append(hit("C07/submit-raised:%s" % type(res[1]).__name__, "submit(%s) raised %r" % (key, res[1])))
    return hits


def run_one(desc):
    s, ctx, out = sc.run_stack(desc, props=("C18",))
    hits = monitors(s, ctx, desc)
    hits += [h for h in out.get("C18", []) if h["sig"].startswith("C18/thread-died")]
    if not ctx.completed and s.end_reason in ("idle", "limit"):
        # the client program never finished: somebody is stuck for good (e.g. shutdown() locked out by a sleeping submitter)
        hits.append(hit("C07/stuck:%s" % s.end_reason, "the scenario's clients never finished; parked: %r" % (s.parked(),)))
    blocks = []
    verd = []
    if s.end_reason == "limit":
        verd.append("INCONCLUSIVE 0 yield limit")
    else:
        try:
            blocks.append(proj.project(s.log, desc))
            if desc["layers"][0][1].get("block"):
                blocks.append(proj.project_block(s.log, desc))
        except proj.Ambiguous as e:
            verd.append("INCONCLUSIVE 0 %s" % e)
        except proj.ProjError as e:
            verd.append("DIVERGE 0 [projection] %s" % e)
    nh = sum(1 for e in s.log if e[1] == "dsubmit")
    return {"hits": hits, "blocks": blocks, "verdicts": verd, "schedule": list(s.chooser.record),
            "fingerprint": fingerprint(desc, s) if nh else None,
            "stats": {"handovers": nh, "submits": sum(1 for e in s.log if e[1] == "ret" and e[2] == "submit"),
                      "cancels_true": sum(1 for e in s.log if e[1] == "ret" and e[2] == "cancel" and e[4] is True),
                      "count_%s" % ("dynamic" if isinstance(desc["layers"][0][1].get("count"), list) else "static"): 1,
                      "blocking": 1 if desc["layers"][0][1].get("block") else 0,
                      "idle_jumps": sum(1 for e in s.log if e[1] == "idle_jump")},
            "sample": {"desc": {k: desc[k] for k in ("base", "layers", "clients")}, "log_len": len(s.log)} if desc.get("idx", 1) == 0 else None}


def extra_checks(seed, tier):
    import kdiff
    return kdiff.k4_diff(seed, 400 if tier == "quick" else 5000)


def extended_search(seed, tier, broken):
    """More seeds of the same generator; returns the first monitor hit."""
    from run import run_scenarios
    for extra in range(1, 4 if tier == "quick" else 10):
        descs = list(gen_scenarios(seed + 1000 * extra, "quick"))
        for r in run_scenarios("props.C07", descs, budget_s=100):
            for h in r.get("hits", []):
                return {"sig": h["sig"], "detail": h.get("detail"), "desc": r["desc"], "schedule": r.get("schedule")}
    return None
