"""C05 - Retry: exact attempt accounting, sequential attempts, exact back-off.

Lean: Model/Retry.lean (section-level model; job selection = K2 regenerated from `_get_next_job`; ExceptionRetryPolicy =
K1 regenerated); theorems in Props/C05.lean.  Tie: K1/K2 regenerated + differentials; histories of the real
RetryExecutor under dsched replayed through the model's step function; direct monitors on the same runs."""
import random

from props.common import fingerprint, hit
from props import stackcommon as sc
from proj import retry as proj
from proj.common import ticks

ID = "C05"
LEAN_MODULES = ["MoreExec.Props.C05", "MoreExec.Props.C03", "MoreExec.Props.C06"]
THEOREMS = [
    "MoreExec.Retry.C05_attempts_sequential",
    "MoreExec.Retry.C05_never_early",
    "MoreExec.Retry.C05_policy_attempt_number",
    "MoreExec.Retry.C05_policy_raises",
    "MoreExec.Retry.C05_no_early_resolution",
    "MoreExec.Retry.C05_exception_policy_spec",
    "MoreExec.Retry.C05_attempts_bounded",
    "MoreExec.Retry.C05_next_job_spec",
    "MoreExec.Retry.C05_eval_policy_facts",
    # "exactly then, not at a later fall-back wake-up": the submit thread's wait / clear / re-scan protocol
    # the order of operations inside `_submit_now` / `_retry` / `_cancel` that the model's actions stand for (regenerated facts)
    "MoreExec.Retry.C06_source_protocol",
    "MoreExec.WakeProto.C03_sleep_invariant",
    "MoreExec.WakeProto.C03_no_overshoot",
]
KERNELS = ["K1", "K2"]
BUDGET = {"quick": 150, "thorough": 1500}
ASSUMPTIONS = [
    "AR1: `_jobs` is mutated only under `RetryExecutor._lock`; each outermost acquisition of that lock is one section",
    "the job selected by `_get_next_job` is handed over without being re-selected: selection and `_submit_now` are merged in the model "
    "(a selected job has no delegate and is immutable; a cancel in between pops it and leaves the future done)",
    "whole-second sleeps and integer exponents (exact in floating point) in the scenarios; K1 is proved over the naturals",
    "the delegate obeys the delegate contract DC (SimPool/SimSync)",
]
RULE = ("seeded single-layer RetryExecutor programs (ExceptionRetryPolicy with varying max_attempts/sleep/exponent/max_sleep/"
        "exception_base, or scripted custom policies incl. raising ones; outcome scripts per attempt; 1-3 client threads; cancels; "
        "virtual-time sleeps) x random/PCT line-level schedules; distinct = distinct (program, schedule) hash; non-trivial = "
        "at least one retry decision was taken")


def gen_scenarios(seed, tier):
    rng = random.Random(seed * 104729 + 5)
    n = 2000 if tier == "quick" else 40000
    for i in range(n):
        d = sc.gen_stack(rng, i, kinds=["retry"], max_layers=1, ops=("submit", "cancel", "sleep", "result", "addcb"),
                         bases=("simpool1", "simpool2", "simpool2", "simsync"), tail=(60.0,), shutdown_p=0.0)
        d["layers"] = [sc.gen_layer(rng, "retry")]
        if i % 7 == 6 and not d["layers"][0][1].get("custom"):
            # boundary values that are legal and mean what they say: no delay, a cap of 0, a single attempt, nothing retried
            pp = d["layers"][0][1]
            which = rng.choice(["sleep", "max_sleep", "max_attempts", "exception_base", "exponent"])
            if which == "exception_base":
                pp["exception_base"] = []
            elif which == "exponent":
                # a SHRINKING back-off whose first delay is already at the cap: delays 3, 0, 0, ... (not the cap for ever)
                pp["exponent"] = 0
                if rng.random() < 0.6:
                    pp["sleep"], pp["max_sleep"], pp["max_attempts"] = 3.0, 3.0, rng.choice([3, 4])
            else:
                pp[which] = 0
        if i % 3 == 0:
            d = concurrent_retries(rng, i, d)
        if i % 11 == 10:
            d = staggered_backoff(rng, i, d)
        yield d


def staggered_backoff(rng, i, d):
    """job A is deep in a growing back-off (next retry far away) when job B is submitted and fails its first attempt at once: B's
    retry is due long BEFORE A's.  B's failure is reported by a pool worker while the submit thread, having just handed B over, is
    computing how long to sleep for A - the wake-up for B must not be lost in that window."""
    pol = {"max_attempts": 4, "sleep": 1.0, "exponent": rng.choice([3.0, 4.0]), "max_sleep": 120, "exception_base": ["E0"]}
    a = [[["raise", "E0"]], [["raise", "E0"]], [["ret", 1]]]
    b = [[["raise", "E0"]], [["ret", 2]]]
    t_b = rng.choice([1.5, 2.0, 2.5])
    clients = [[["submit", "k0", a]], [["sleep", t_b], ["submit", "k1", b]]]
    if rng.random() < 0.4:
        clients.append([["sleep", t_b], ["submit", "k2", [[["raise", "E0"]], [["ret", 3]]]]])
    d = dict(d)
    d.update(layers=[["retry", pol]], clients=clients, base=rng.choice(["simpool2", "simpool2", "simpool1"]), tail=60.0, family="staggered-backoff")
    if rng.random() < 0.5:
        d.update(mode="hold", p_switch=rng.choice([0.0, 0.02, 0.1]), trace_lines=True)
    return d


def concurrent_retries(rng, i, d):
    """2-3 submissions retrying at the same time with different back-offs and attempt durations: retry decisions of one
    land while the submit thread is between its scan and its timed wait for another."""
    pol = {"max_attempts": rng.choice([3, 4]), "sleep": rng.choice([1.0, 2.0, 3.0]), "exponent": rng.choice([1.0, 2.0, 3.0]),
           "max_sleep": rng.choice([120, 4.0]), "exception_base": ["E0"]}
    if rng.random() < 0.4:
        pol = {"custom": True, "policy_script": [rng.choice(["retry:1.0", "retry:2.0", "retry:3.0", "retry:5.0"]) for _ in range(rng.randint(1, 3))] + ["stop"]}
    clients = []
    k = 0
    for c in range(rng.choice([1, 2, 2, 3])):
        ops = []
        for _ in range(rng.randint(1, 2)):
            script = []
            for a in range(rng.randint(2, 4)):
                beh = []
                if rng.random() < 0.7:
                    beh.append(["sleep", rng.choice([0.5, 1.0, 1.5, 2.0, 3.0])])
                beh.append(["raise", "E0"])
                script.append(beh)
            script[-1][-1] = ["ret", rng.randrange(100)]
            ops.append(["submit", "k%d" % k, script])
            k += 1
            if rng.random() < 0.3:
                ops.append(["sleep", rng.choice([0.5, 1.0, 2.0])])
        clients.append(ops)
    d = dict(d)
    d["layers"] = [["retry", pol]]
    d["clients"] = clients
    d["base"] = rng.choice(["simpool2", "simpool2", "simpool1"])
    return d


def expected_attempts(layer, script):
    """ExceptionRetryPolicy: number of attempts for an outcome script, straight from the property statement."""
    from world.sim import EXC
    p = layer[1]
    base = tuple(EXC[x] for x in p.get("exception_base", ["E0"]))
    n = 0
    for beh in script:
        n += 1
        last = beh[-1]
        if last[0] != "raise":
            return n
        if not issubclass(EXC[last[1]], base):
            return n
        if n >= p.get("max_attempts", 3):
            return n
    return n


def monitors(s, ctx, desc):
    hits = []
    layer = desc["layers"][0]
    custom = layer[1].get("custom")
    worker = None
    for e in s.log:
        if e[1] == "spawn" and str(e[3]).startswith("RetryExecutor"):
            worker = e[2]
            break
    # per submission key: times of delegate.submit, delegate completion, policy answers
    dkey = {}
    subs = {}          # key -> [(time-ish index, log index)]
    inflight = {}      # key -> delegate future name currently not done
    finish = {}        # key -> virtual time of the last finished attempt
    sleep_ans = {}     # key -> last sleep_time answer
    cancel_seen = set()
    now = 0.0
    fut_key = {}
    pol_calls = {}     # key -> [attempt numbers]
    cur_cb = {}        # tid -> key of the delegate whose callback is running
    for i, e in enumerate(s.log):
        t, k = e[0], e[1]
        if k == "idle_jump" or k == "tick":
            now = e[2]
        elif k == "ret" and e[2] == "submit":
            fut_key[e[3]] = e[4]
        elif k == "dsubmit" and t == worker:
            key = e[4]
            dkey[e[3]] = key
            if key in inflight:
                hits.append(hit("C05/overlapping-attempts", "attempt of %s handed to the delegate while %s is not done (log %d)" % (key, inflight[key], i)))
            n = len(subs.setdefault(key, []))
            if n >= 1 and key in finish and key in sleep_ans and key not in cancel_seen:
                due = finish[key] + sleep_ans[key]
                if now + 1e-9 < due:
                    hits.append(hit("C05/early-retry", "attempt %d of %s started at t=%s, before finish %s + sleep %s (log %d)"
                                    % (n + 1, key, now, finish[key], sleep_ans[key], i)))
                elif now > due + 1e-9 and not ctx_busy(s, i, worker):
                    hits.append(hit("C05/late-retry", "attempt %d of %s started at t=%s, later than finish %s + sleep %s (log %d)"
                                    % (n + 1, key, now, finish[key], sleep_ans[key], i)))
            subs[key].append((now, i))
            inflight[key] = e[3]
        elif k == "dcomplete" and e[2] in dkey:
            key = dkey[e[2]]
            inflight.pop(key, None)
            finish[key] = now
            cur_cb[t] = key
        elif k == "dcancel<" and e[3] is True and e[2] in dkey:
            inflight.pop(dkey[e[2]], None)
        elif k == "daddcb>" and e[2] in dkey and e[3]:
            cur_cb[t] = dkey[e[2]]
        elif k == "policy" and e[2] == "should_retry":
            key = cur_cb.get(t)
            if key is not None:
                pol_calls.setdefault(key, []).append(e[3])
        elif k == "policy<" and e[2] == "sleep_time":
            if not custom and isinstance(e[3], int) and e[3] >= 1:
                # the delay the library's own policy answers is the configured one: min(sleep * exponent^(attempt-1), max_sleep)
                pp = layer[1]
                try:
                    want = min(pp.get("sleep", 1.0) * (pp.get("exponent", 2.0) ** (e[3] - 1)), pp.get("max_sleep", 120))
                    if abs(float(e[4]) - float(want)) > 1e-9:
                        hits.append(hit("C05/backoff-not-as-configured", "sleep_time(attempt %d) answered %r; sleep=%r exponent=%r max_sleep=%r give %r"
                                        % (e[3], e[4], pp.get("sleep"), pp.get("exponent"), pp.get("max_sleep"), want)))
                except (OverflowError, TypeError, ValueError):
                    pass
            key = cur_cb.get(t)
            if key is not None:
                sleep_ans[key] = float(e[4])
                finish[key] = now    # the back-off starts when the retry decision is taken (monotonic() + sleep_time)
        elif k == "call" and e[2] == "cancel" and e[3] in fut_key:
            cancel_seen.add(fut_key[e[3]])
    # the returned future carries the final attempt's outcome (also when a policy method raised)
    if ctx.completed:
        for fname, inf in ctx.info.items():
            key = inf["key"]
            if key in cancel_seen:
                continue
            fin = ctx.final.get(fname)
            n = len(subs.get(key, []))
            if fin is None or n == 0:
                continue
            if fin[0] == "pending":
                if key not in inflight:
                    hits.append(hit("C05/not-resolved", "%s: all %d attempts finished but the returned future is still pending at quiescence" % (key, n)))
                continue
            last = inf["script"][min(n, len(inf["script"])) - 1][-1]
            want = ("err", last[1]) if last[0] == "raise" else ("ok", last[1])
            got = (fin[0], type(fin[1]).__name__ if fin[0] == "err" else fin[1]) if fin[0] in ("ok", "err") else (fin[0],)
            if fin[0] == "cancelled" or got != want:
                hits.append(hit("C05/wrong-outcome", "%s finished %r after %d attempts; the final attempt's outcome is %r" % (key, got, n, want)))
    for key, calls in pol_calls.items():
        if calls != list(range(1, len(calls) + 1)):
            hits.append(hit("C05/policy-attempt-numbers", "policy consulted for %s with attempts %r" % (key, calls)))
    if ctx.completed and not custom:
        for fname, inf in ctx.info.items():
            key = inf["key"]
            if key in cancel_seen:
                continue
            fin = ctx.final.get(fname)
            if fin is None or fin[0] == "pending":
                continue
            exp = expected_attempts(layer, inf["script"])
            got = len(subs.get(key, []))
            if got != exp:
                hits.append(hit("C05/attempt-count", "%s ran %d attempts, ExceptionRetryPolicy %r over its outcome script implies %d"
                                % (key, got, {k: v for k, v in layer[1].items()}, exp)))
    return hits


def ctx_busy(s, i, worker):
    """was the submit thread legitimately busy (not parked on its event) during the idle jump that preceded log index i?
    Lateness is only a violation when time passed WHILE the thread slept on its event ("absent contention")."""
    parked = False
    late_jump = False
    for e in s.log[:i]:
        if e[0] == worker and e[1] == "park" and e[2] == "event":
            parked = True
        elif e[0] == worker and e[1] == "woke":
            parked = False
    # walk back: find the last idle jump before i and whether the worker was parked on the event then
    wp = False
    res = True
    for e in s.log[:i]:
        if e[0] == worker and e[1] == "park":
            wp = (e[2] == "event")
        elif e[0] == worker and e[1] == "woke":
            wp = False
        elif e[1] == "idle_jump":
            res = not wp
    return res


def run_one(desc):
    s, ctx, out = sc.run_stack(desc, props=("C18", "C06"))
    hits = monitors(s, ctx, desc)
    hits += [h for h in out.get("C18", []) if h["sig"].startswith("C18/thread-died")]
    blocks, verd = [], []
    if s.end_reason == "limit":
        verd.append("INCONCLUSIVE 0 yield limit")
    else:
        try:
            blocks.append(proj.project(s.log, desc))
            if desc["base"] != "simsync":
                # the same execution projected onto the wake-up protocol model: every set / wait(time-out) / clear of the submit
                # thread's event, the scans, and the idle jumps (an attempt starts exactly when due, not at a later wake-up)
                blocks.append(proj.project(s.log, desc, wake=True))
        except proj.ProjError as e:
            verd.append("DIVERGE 0 [projection] %s" % e)
    nr = sum(1 for e in s.log if e[1] == "policy" and e[2] == "should_retry")
    return {"hits": hits, "blocks": blocks, "verdicts": verd, "schedule": list(s.chooser.record),
            "fingerprint": fingerprint(desc, s) if nr else None,
            "c06_hits": out.get("C06", []),
            "stats": {"policy_consultations": nr, "delegate_submits": sum(1 for e in s.log if e[1] == "dsubmit"),
                      "cancel_calls": sum(1 for e in s.log if e[1] == "call" and e[2] == "cancel"),
                      "custom_policy": 1 if desc["layers"][0][1].get("custom") else 0,
                      "idle_jumps": sum(1 for e in s.log if e[1] == "idle_jump")},
            "sample": {"desc": {k: desc[k] for k in ("base", "layers", "clients")}, "log_len": len(s.log)} if desc.get("idx", 1) == 0 else None}


def extra_checks(seed, tier):
    import kdiff
    a = kdiff.k1_diff(seed, 300 if tier == "quick" else 5000)
    b = kdiff.k2_diff(seed, 300 if tier == "quick" else 5000)
    return {"hits": [], "broken": a["broken"] + b["broken"],
            "stats": {"differential_cases": a["stats"]["differential_cases"] + b["stats"]["differential_cases"]},
            "validated": 0, "samples": a["samples"] + b["samples"], "fingerprints": a["fingerprints"] + b["fingerprints"]}


def extended_search(seed, tier, broken):
    from run import run_scenarios
    for extra in range(1, 4 if tier == "quick" else 10):
        descs = list(gen_scenarios(seed + 1000 * extra, "quick"))
        for r in run_scenarios("props.C05", descs, budget_s=100):
            for h in r.get("hits", []):
                return {"sig": h["sig"], "detail": h.get("detail"), "desc": r["desc"], "schedule": r.get("schedule")}
    return None
