"""C10 - Cancel-on-shutdown covers every future the executor ever accepted.

Lean: Model/CancelOnShutdown.lean + Props/C10.lean; shutdown source facts K10 regenerated.  Tie: histories of the real
CancelOnShutdownExecutor (submitters racing one shutdown, completions, cancels) replayed through the model; direct monitors."""
import random

from props.common import fingerprint, hit
from props import stackcommon as sc
from proj import shutdown as proj

ID = "C10"
LEAN_MODULES = ["MoreExec.Props.C10", "MoreExec.Props.C11"]
THEOREMS = [
    "MoreExec.CoS.C10_sweep_covers",
    "MoreExec.CoS.C10_race_linearises",
    "MoreExec.CoS.C10_no_accept_after_flip",
    "MoreExec.Shutdown.C11_source_facts",
    "MoreExec.CoS.C10_source_facts",
]
KERNELS = ["K10"]
BUDGET = {"quick": 150, "thorough": 1500}
ASSUMPTIONS = [
    "`ShutdownHelper.__call__` returns True to exactly one caller (test-and-set under the gate lock: fact extracted from helpers.py, K10)",
    "`set.add` / `set.discard` / `set.copy` on `_futures` are atomic (CPython); the copy is taken under `_lock`, the discard callback runs outside it",
    "the copy is a set: the model lets the sweep cancel its members in any order",
    "the wrapped executor obeys the delegate contract DC (SimPool/SimSync)",
]
RULE = ("seeded single-layer CancelOnShutdownExecutor programs: 1-3 client threads submitting (callables finishing at various virtual "
        "times), cancelling and calling shutdown(); line-level random/PCT/boundary-biased schedules; distinct = distinct (program, "
        "schedule) hash; non-trivial = a shutdown raced at least one submit or swept at least one pending future")


def gen_scenarios(seed, tier):
    rng = random.Random(seed * 49979687 + 10)
    n = 2000 if tier == "quick" else 40000
    for i in range(n):
        d = sc.gen_stack(rng, i, kinds=["cancel_on_shutdown"], max_layers=1, ops=("submit", "submit", "cancel", "sleep", "shutdown", "result"),
                         bases=("simpool1", "simpool2", "simpool2", "simsync"), tail=(10.0,), shutdown_p=0.4, nclients=(2, 2, 3))
        d["layers"] = [["cancel_on_shutdown", {}]]
        yield d


def monitors(s, ctx, desc):
    hits = []
    if ctx.shutdown_returned_at is None:
        return hits
    t_sd, idx_sd = ctx.shutdown_returned_at
    # which thread performed the sweep, and what it cancelled
    sd_tid = None
    for e in s.log:
        if e[1] == "ret" and e[2] == "shutdown":
            sd_tid = e[0]
            break
    swept = {}
    in_sd = set()
    first_sd_call = None
    for i, e in enumerate(s.log[:idx_sd]):
        t, k = e[0], e[1]
        if k == "call" and e[2] == "shutdown":
            in_sd.add(t)
            if first_sd_call is None:
                first_sd_call = i
        elif k in ("ret", "raise") and e[2] == "shutdown":
            in_sd.discard(t)
        elif k == "dcancel>" and t in in_sd:
            swept[e[2]] = swept.get(e[2], 0) + 1
    for nm, n in swept.items():
        if n > 1:
            hits.append(hit("C10/cancelled-twice", "shutdown() invoked cancel() %d times on %s" % (n, nm)))
    # every future returned by a submit() that completed before shutdown() returned and not done at that point must have been swept
    done_at = {}
    for i, e in enumerate(s.log):
        if e[1] == "dcomplete" and e[2] not in done_at:
            done_at[e[2]] = i
        elif e[1] == "dcancel<" and e[3] is True and e[2] not in done_at:
            done_at[e[2]] = i
    for (tid, op, key, res) in ctx.api:
        if op == "submit" and res[0] == "ret":
            nm, ret_idx = res[1], res[3]
            if ret_idx < idx_sd and nm not in swept:
                # must have been done before the sweep could have reached it: done before shutdown() returned
                d = done_at.get(nm)
                if d is None or d > idx_sd:
                    hits.append(hit("C10/escaped-sweep", "future %s (key %s) was returned by submit() before shutdown() returned, was not "
                                    "done, and never received cancel()" % (nm, key)))
    nds = sum(1 for e in s.log[:idx_sd] if e[1] == "dshutdown")
    if nds != 1:
        hits.append(hit("C10/delegate-shutdown-count", "wrapped executor shut down %d times when shutdown() returned" % nds))
    return hits


def run_one(desc):
    s, ctx, out = sc.run_stack(desc, props=("C04", "C11"))
    hits = monitors(s, ctx, desc)
    hits += [h for h in out.get("C04", [])]
    hits += [h for h in out.get("C11", []) if h["sig"].startswith("C11/shutdown-never-returns") or h["sig"].startswith("C11/submit-after")]
    blocks, verd = [], []
    if s.end_reason == "limit":
        verd.append("INCONCLUSIVE 0 yield limit")
    elif s.end_reason == "idle" and not ctx.completed:
        pass
    else:
        try:
            blocks.append(proj.project_cos(s.log, desc))
        except proj.ProjError as e:
            verd.append("DIVERGE 0 [projection] %s" % e)
    nsd = sum(1 for e in s.log if e[1] == "call" and e[2] == "shutdown")
    return {"hits": hits, "blocks": blocks, "verdicts": verd, "schedule": list(s.chooser.record),
            "fingerprint": fingerprint(desc, s) if nsd > 1 else None,
            "stats": {"shutdown_calls": nsd, "submits": sum(1 for e in s.log if e[1] == "call" and e[2] == "submit"),
                      "submits_refused": sum(1 for e in s.log if e[1] == "raise" and e[2] == "submit"),
                      "swept_cancels": sum(1 for e in s.log if e[1] == "dcancel>")},
            "sample": {"desc": {k: desc[k] for k in ("base", "layers", "clients")}, "log_len": len(s.log)} if desc.get("idx", 1) == 0 else None}


def extended_search(seed, tier, broken):
    from run import run_scenarios
    for extra in range(1, 4 if tier == "quick" else 10):
        descs = list(gen_scenarios(seed + 1000 * extra, "quick"))
        for r in run_scenarios("props.C10", descs, budget_s=100):
            for h in r.get("hits", []):
                return {"sig": h["sig"], "detail": h.get("detail"), "desc": r["desc"], "schedule": r.get("schedule")}
    return None
