"""C17 - f_proxy is transparent for forwarded operations; f_nocancel shields cancel.

Lean: Model/Proxy.lean (operator protocol as a parameter) over the forwarding table K8 regenerated from proxy.py;
theorems in Props/C17.lean.  Tie: K8 regenerated + differential (D): every forwarded operation x operands across the
builtin types, applied to the proxy and to the plain result (value or exception TYPE compared); non-blocking and
f_nocancel checked under the deterministic scheduler with a pending input."""
import itertools
import math
import operator
import random
from concurrent.futures import Future
from concurrent.futures import Future
from decimal import Decimal
from fractions import Fraction

from props.common import run, fingerprint, sched_kwargs, schedule_modes, hit, core, wrapfut
from world.sim import SimFuture, EXC, outcome

ID = "C17"
LEAN_MODULES = ["MoreExec.Props.C17", "MoreExec.Props.C17NoCancel"]
THEOREMS = [
    "MoreExec.Proxy.C17_transparent",
    "MoreExec.Proxy.C17_direct_dunder_agrees_iff",
    "MoreExec.Proxy.C17_direct_dunder_not_transparent",
    "MoreExec.Proxy.C17_direct_trunc_not_transparent",
    "MoreExec.Proxy.C17_table_all_transparent",
    "MoreExec.Proxy.C17_nonblocking",
    "MoreExec.Proxy.C17_nocancel",
    "MoreExec.NoCancel.C17_nocancel_source_facts",
    "MoreExec.NoCancel.C17_nocancel_returns_false",
    "MoreExec.NoCancel.C17_nocancel_shields",
    "MoreExec.NoCancel.C17_nocancel_mirrors",
    "MoreExec.NoCancel.C17_nocancel_resolve_mirrors",
    "MoreExec.NoCancel.C17_nocancel_code_mirrors",
]
KERNELS = ["K8", "K15"]
BUDGET = {"quick": 120, "thorough": 900}
ASSUMPTIONS = [
    "Python's numeric/container semantics are a parameter of the theorems; the differential samples them over the builtin types",
    "results are compared by value (==, repr for NaN-like) or by exception type",
]
RULE = ("every forwarded operation (len, item get/set/del, iter, in, + - * / // % divmod pow << >> & ^ | unary - + ~ abs, complex int "
        "float round trunc floor ceil, attribute/method access) x result values x other operands drawn from int, bool, float, complex, "
        "str, bytes, list, tuple, dict, set, frozenset, range, None, Fraction, Decimal, user classes x state of f (resolved, failed, pending "
        "then resolved from another thread); distinct = distinct (operation, operand types); non-trivial = the operation was evaluated on both")


class WithTrunc(object):
    def __trunc__(self):
        return 7

    def __floor__(self):
        return 6

    def __ceil__(self):
        return 8

    def __eq__(self, o):
        return type(o) is WithTrunc

    def __hash__(self):
        return 1


class RDiv(object):
    """knows how to be divided INTO only through the reflected methods"""
    def __rtruediv__(self, o):
        return ("rtruediv", o)

    def __rfloordiv__(self, o):
        return ("rfloordiv", o)

    def __radd__(self, o):
        return ("radd", o)

    def __eq__(self, o):
        return type(o) is RDiv

    def __hash__(self):
        return 2


def values():
    return [0, 1, -3, 7, True, False, 2.5, -0.5, 1e308, complex(1, 2), "", "abc", b"xy", [], [1, 2, 3], (1, 2), (), {"a": 1},
            {}, {1, 2}, frozenset([3]), range(4), None, Fraction(7, 2), Decimal("2.5"), WithTrunc(), RDiv(), object]


BINOPS = {"add": operator.add, "sub": operator.sub, "mul": operator.mul, "truediv": operator.truediv,
          "floordiv": operator.floordiv, "mod": operator.mod, "divmod": divmod, "pow": pow, "lshift": operator.lshift,
          "rshift": operator.rshift, "and": operator.and_, "xor": operator.xor, "or": operator.or_,
          "getitem": operator.getitem, "contains": lambda a, b: b in a}
UNOPS = {"neg": operator.neg, "pos": operator.pos, "abs": abs, "invert": operator.invert, "complex": complex, "int": int,
         "float": float, "round": round, "trunc": math.trunc, "floor": math.floor, "ceil": math.ceil, "len": len,
         "iter": lambda x: list(iter(x)), "round2": lambda x: round(x, 1), "attr_real": lambda x: x.real,
         "method_upper": lambda x: x.upper(), "attr_missing": lambda x: x.no_such_attribute, "pow3": lambda x: pow(x, 2, 5)}


def canon(f):
    try:
        r = f()
    except core.Abort:
        raise
    except BaseException as e:
        return ("exc", type(e).__name__)
    try:
        return ("val", type(r).__name__, repr(r))
    except Exception:
        return ("val", type(r).__name__, "?")


def gen_scenarios(seed, tier):
    # dsched part: non-blocking / pending-then-resolved / nocancel
    rng = random.Random(seed * 2203 + 17)
    n = 150 if tier == "quick" else 3000
    for i in range(n):
        d = dict(idx=i, mode_kind=rng.choice(["nonblocking", "pending_then", "nocancel", "failed", "timeout"]),
                 op=rng.choice(sorted(UNOPS)), val=rng.randrange(len(values())), seed=rng.randrange(1 << 30))
        d.update(schedule_modes(rng))
        yield d


class Ctx(object):
    pass


def body_for(desc, ctx):
    from more_executors.futures import f_proxy, f_nocancel

    def body(s, w):
        kind = desc["mode_kind"]
        v = values()[desc["val"]]
        ctx.hits = []
        if kind == "nonblocking":
            src = SimFuture()
            p = f_proxy(src)
            # none of these may block on or resolve the pending future
            res = [bool(p), repr(p) is not None, str(p) is not None, p == p, (p != object()), hash(p) is not None]
            for nm in ("__foo__", "__wrapped__", "__len_hint__"):
                try:
                    getattr(p, nm)
                    res.append(False)
                except AttributeError:
                    res.append(True)
            if not all(res):
                ctx.hits.append(hit("C17/nonblocking-wrong", "bool/repr/str/eq/hash/unknown dunder on a pending proxy gave %r" % (res,)))
            ctx.done_flag = True
        elif kind == "pending_then":
            src = SimFuture()
            p = f_proxy(src)
            op = UNOPS[desc["op"]]

            def resolver():
                s.sleep(1.0)
                src.set_running_or_notify_cancel()
                src.set_result(v)
            ct = s.spawn(resolver, name="resolver")
            got = canon(lambda: op(p))
            want = canon(lambda: op(v))
            if got != want:
                ctx.hits.append(hit("C17/not-transparent:%s" % desc["op"], "%s(proxy of %r) = %r but on the result %r" % (desc["op"], v, got, want)))
            if s.now < 1.0 and want[0] != "exc-skip":
                ctx.hits.append(hit("C17/did-not-wait", "operation returned at t=%r before the future resolved" % s.now))
            if ct.state != "done":
                s.block(lambda: ct.state == "done", None, ("cjoin", ct.tid))
            ctx.done_flag = True
        elif kind == "timeout":
            src = SimFuture()
            tmo = [2.0, 0, 0.0, 0.5, 1, 3.0][desc.get("idx", 0) % 6]     # includes the falsy time-outs 0 and 0.0
            p = f_proxy(src, timeout=tmo)
            t0 = s.now
            got = canon(lambda: len(p))
            if got != ("exc", "TimeoutError") or abs((s.now - t0) - float(tmo)) > 1e-3:
                ctx.hits.append(hit("C17/timeout-not-honoured", "len(proxy) with timeout=%r on a pending future gave %r after %r s" % (tmo, got, s.now - t0)))
            ctx.done_flag = True
        elif kind == "failed":
            src = SimFuture()
            e = EXC["E1"]("boom")
            src.set_running_or_notify_cancel()
            src.set_exception(e)
            p = f_proxy(src)
            op = UNOPS[desc["op"]]
            try:
                op(p)
                got = None
            except core.Abort:
                raise
            except BaseException as ex:
                got = ex
            if got is not e:
                ctx.hits.append(hit("C17/failed-future-not-raised", "%s(proxy of failed future) raised %r instead of the future's exception" % (desc["op"], got)))
            ctx.done_flag = True
        else:  # nocancel: one run of Model/NoCancel.lean's alphabet (wcancel* / finish o / callback), any order the schedule picks
            rr = random.Random(desc["seed"])
            fin = rr.choice(["ok", "ok", "err", "cancelled", "never"])      # how the INPUT ends (cancelled = by a holder of the input)
            pre = fin != "never" and rr.random() < 0.3                     # already finished when wrapped
            ncanc = rr.choice([0, 1, 2, 2, 3])
            e = EXC["E1"]("nc%d" % desc["idx"])
            src = SimFuture()

            def finish():
                if fin == "ok":
                    src.set_running_or_notify_cancel()
                    src.set_result(v)
                elif fin == "err":
                    src.set_running_or_notify_cancel()
                    src.set_exception(e)
                elif fin == "cancelled":
                    Future.cancel(src)     # the holder of the input cancels it: stdlib call, not logged as a request from above
                    src.set_running_or_notify_cancel()
            if pre:
                finish()
            nc = f_nocancel(src)
            rs = []
            seen = []
            nc.add_done_callback(lambda f: seen.append(outcome(f)))

            def canceller():
                s.yield_point("api")
                rs.append(nc.cancel())
            cts = [s.spawn(canceller, name="c%d" % k) for k in range(ncanc)]

            def resolver():
                s.yield_point("api")
                finish()
            if not pre and fin != "never":
                cts.append(s.spawn(resolver, name="resolver"))
            for ct in cts:
                if ct.state != "done":
                    s.block(lambda ct=ct: ct.state == "done", None, ("cjoin", ct.tid))
            rs.append(nc.cancel())                                          # a late cancel, after everything
            ctx.stats = {"nc_fin_" + fin: 1, "nc_pre": int(pre), "nc_cancels": ncanc + 1}
            if any(r is not False for r in rs):
                ctx.hits.append(hit("C17/nocancel-returned-true", "f_nocancel(f).cancel() returned %r" % (rs,)))
            if src.cancelled() != (fin == "cancelled"):
                ctx.hits.append(hit("C17/nocancel-cancelled-input", "the wrapped future's cancelled() is %r, its own history says %r" % (src.cancelled(), fin)))
            if fin == "never":
                if nc.done() or src.done():
                    ctx.hits.append(hit("C17/nocancel-not-mirroring", "input never finished but wrapper done=%r input done=%r" % (nc.done(), src.done())))
            else:
                o = outcome(nc)
                want = {"ok": ("ok", v), "err": ("err", e), "cancelled": ("cancelled",)}[fin]
                same = o[0] == want[0] and (len(want) == 1 or o[1] is want[1])
                if not same:
                    ctx.hits.append(hit("C17/nocancel-not-mirroring", "wrapper outcome %r, input ended with %r" % (o, want)))
                if len(seen) != 1:
                    ctx.hits.append(hit("C17/nocancel-callbacks", "done-callback of the wrapper ran %d times" % len(seen)))
            ctx.done_flag = True
    return body


def run_one(desc):
    wrapfut.install()
    ctx = Ctx()
    s, w = run(body_for(desc, ctx), **sched_kwargs(desc))
    hits = list(getattr(ctx, "hits", []))
    if s.end_reason == "done" and not getattr(ctx, "done_flag", False):
        raise RuntimeError("C17 scenario body did not reach its end (harness error): %r %r" % (desc, s.errors))
    if s.end_reason != "done":
        hits.append(hit("C17/stuck:%s:%s" % (desc["mode_kind"], s.end_reason), "scenario ended with %s; parked %r" % (s.end_reason, s.parked())))
    for e in s.log:
        if e[1] == "dcancel>" and desc["mode_kind"] == "nocancel":
            hits.append(hit("C17/nocancel-pierced", "cancel() reached the wrapped future"))
    st = {"kind_" + desc["mode_kind"]: 1}
    st.update(getattr(ctx, "stats", {}))
    r = {"hits": hits, "blocks": [], "verdicts": [], "stats": st,
         "schedule": list(s.chooser.record), "fingerprint": fingerprint(desc, s)}
    if desc.get("idx") == 0:
        r["sample"] = {"desc": desc}
    return r


def extra_checks(seed, tier):
    """Differential on resolved proxies (no scheduler needed): op(proxy) vs op(result) over operand types."""
    from more_executors.futures import f_proxy, f_return
    hits = []
    n = 0
    fps = set()
    vals = values()
    samples = []
    for name, op in sorted(BINOPS.items()):
        for a, b in itertools.product(vals, vals):
            if name in ("pow", "lshift") and isinstance(a, (int, float)) and isinstance(b, (int, float)) and not isinstance(b, bool) and abs(b) > 64:
                continue
            want = canon(lambda: op(a, b))
            got = canon(lambda: op(f_proxy(f_return(a)), b))
            n += 1
            fps.add("bin:%s:%s:%s" % (name, type(a).__name__, type(b).__name__))
            if got != want and len(hits) < 50:
                hits.append(hit("C17/not-transparent:%s" % name, "%s(proxy(%r), %r) = %r but %s(%r, %r) = %r" % (name, a, b, got, name, a, b, want)))
            if len(samples) < 2 and want[0] == "val":
                samples.append({"op": name, "a": repr(a), "b": repr(b), "proxy": got, "plain": want})
    for name, op in sorted(UNOPS.items()):
        for a in vals:
            want = canon(lambda: op(a))
            got = canon(lambda: op(f_proxy(f_return(a))))
            n += 1
            fps.add("un:%s:%s" % (name, type(a).__name__))
            if got != want and len(hits) < 50:
                hits.append(hit("C17/not-transparent:%s" % name, "%s(proxy(%r)) = %r but %s(%r) = %r" % (name, a, got, name, a, want)))
    # setitem / delitem on fresh containers
    for mk in (lambda: [1, 2, 3], lambda: {"a": 1}, lambda: (1, 2), lambda: "abc", lambda: 5):
        for key in (0, "a", 5, None):
            def do_set(x, key=key):
                x[key] = 9
                return x
            def do_del(x, key=key):
                del x[key]
                return x
            for nm, fnn in (("setitem", do_set), ("delitem", do_del)):
                a1, a2 = mk(), mk()
                want = canon(lambda: fnn(a1))
                p = f_proxy(f_return(a2))
                got0 = canon(lambda: fnn(p))
                got = got0 if got0[0] == "exc" else canon(lambda: a2)
                n += 1
                fps.add("%s:%s:%s" % (nm, type(a1).__name__, type(key).__name__))
                if got != want:
                    hits.append(hit("C17/not-transparent:%s" % nm, "%s on proxy(%r)[%r]: %r vs %r" % (nm, mk(), key, got, want)))
    for h in hits:
        h["desc"] = {"kind": "proxy-differential", "detail": h["detail"]}
    return {"hits": hits[:20], "broken": [], "stats": {"differential_cases": n}, "samples": samples,
            "fingerprints": sorted(fps), "validated": 0}


def replay_extra(desc):
    return None


def extended_search(seed, tier, broken):
    x = extra_checks(seed, tier)
    for h in x["hits"]:
        return h
    return None
