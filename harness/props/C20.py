"""C20 - Metrics: gauges return to reality at quiescence, counters match events.

Lean: Props/C20.lean - the gauges are ghost fields of the Retry / Throttle / Shutdown models (and the callback
exactly-once theorem for the per-future gauge); K13 (inc/dec pairing in the source) regenerated and decided.
Tie: the library runs with its Prometheus implementation against a stand-in `prometheus_client` registry; single-layer
retry / throttle executions are replayed through their models and the final gauge value is compared with the model's;
every scenario samples all gauges and counters at quiescence and compares them with what the event log says."""
import random
import sys

from world import metrics_on
PC = metrics_on.install()

from props.common import fingerprint, hit          # noqa: E402
from props import stackcommon as sc                # noqa: E402
from proj import retry as rproj                    # noqa: E402
from proj import throttle as tproj                 # noqa: E402
from dsched import core                            # noqa: E402

ID = "C20"
LEAN_MODULES = ["MoreExec.Props.C20"]
THEOREMS = [
    "MoreExec.Metrics.C20_gauge_retry_queue",
    "MoreExec.Metrics.C20_gauge_throttle_queue",
    "MoreExec.Metrics.C20_gauge_exec_inprogress",
    "MoreExec.Metrics.C20_gauge_future_inprogress",
    "MoreExec.Metrics.C20_source_facts",
]
KERNELS = ["K13", "K4", "K10"]
BUDGET = {"quick": 150, "thorough": 1500}
ASSUMPTIONS = [
    "the Prometheus client itself is replaced by a stand-in registry (inc/dec arithmetic only); label handling of the real client is not modelled",
    "executors created internally by f_map / f_flat_map / f_apply / ... per call are never shut down, so `exec_inprogress` grows with every such "
    "call (known finding); the executor gauge is checked for executors the user creates and shuts down",
    "time counters (future_time, poll_time, retry_delay) are sums of virtual durations and are not compared",
]
RULE = ("random stacks of 1-3 layers (plus single-layer retry / throttle programs that are also replayed through their Lean models) with "
        "submissions, completions, failures, cancellations (queued, in flight, between retries), retries, time-outs, polls, a final "
        "shutdown; every gauge and counter of the stand-in registry is sampled at quiescence and after shutdown and compared with the "
        "event log; distinct = distinct (program, schedule) hash")


def gen_scenarios(seed, tier):
    rng = random.Random(seed * 160481183 + 20)
    n = 2400 if tier == "quick" else 40000
    for i in range(n):
        m = i % 4
        if m == 0:
            d = sc.gen_stack(rng, i, kinds=["retry"], max_layers=1, ops=("submit", "submit", "cancel", "cancel", "sleep", "result"),
                             bases=("simpool1", "simpool2"), tail=(60.0,), shutdown_p=0.0)
            d["layers"] = [sc.gen_layer(rng, "retry")]
            d["replay_model"] = "retry"
        elif m == 1:
            d = sc.gen_stack(rng, i, kinds=["throttle"], max_layers=1, ops=("submit", "submit", "cancel", "cancel", "sleep", "result"),
                             bases=("simpool1", "simpool2"), tail=(60.0,), shutdown_p=0.0)
            lay = sc.gen_layer(rng, "throttle")
            lay[1]["block"] = False
            if lay[1].get("count") in (0, None) or isinstance(lay[1].get("count"), list):
                lay[1]["count"] = rng.choice([1, 2])
            d["layers"] = [lay]
            d["replay_model"] = "throttle"
        elif i % 16 == 3:
            # two threads call shutdown() while a third is still inside submit() (it holds the gate: the callable runs inline)
            kind = rng.choice(["map", "flat_map", "timeout", "cancel_on_shutdown", "poll", "retry"])
            lay = sc.gen_layer(rng, kind)
            if kind == "retry":
                lay = ["map", {"fn": True, "errfn": False, "script": [[["retarg"]]], "escript": [[["reraise"]]]}]
            d = dict(kind="stack", idx=i, base="simsync", layers=[lay],
                     clients=[[["submit", "k0", [[["sleep", 1.0], ["ret", 1]]]]],
                              [["sleep", 0.5], ["shutdown", rng.choice([True, False])]],
                              [["sleep", 0.5], ["shutdown", rng.choice([True, False])]]],
                     tail=5.0, seed=rng.randrange(1 << 30))
            from props.common import schedule_modes
            d.update(schedule_modes(rng))
        elif i % 16 == 7:
            # two (or three) threads call shutdown() at the same virtual instant on a worker executor over a pool: whichever way their
            # steps interleave, the executor leaves `exec_inprogress` exactly once
            kind = rng.choice(["throttle", "throttle", "retry", "poll", "timeout", "map", "cancel_on_shutdown"])
            lay = sc.gen_layer(rng, kind)
            if kind == "throttle":
                lay[1]["block"] = False
                if lay[1].get("count") in (0, None) or isinstance(lay[1].get("count"), list):
                    lay[1]["count"] = rng.choice([1, 2])
            if kind == "poll":
                lay[1]["poll_script"] = [x for x in lay[1]["poll_script"] if x != "none"] or ["yield"]
            if kind == "retry":
                lay = ["retry", {"max_attempts": 2, "sleep": 1.0, "exponent": 1.0, "max_sleep": 3.0, "exception_base": ["E0"]}]
            # the shutdowns come when the submission has long finished (this check compares counters with events at quiescence; what
            # a shutdown does to work that is still outstanding is C11's subject)
            t0 = rng.choice([20.0, 25.0, 40.0])
            clients = [[["submit", "k0", [[["sleep", rng.choice([0.0, 1.0])], ["ret", 1]]]], ["sleep", t0], ["shutdown", rng.choice([True, False])]],
                       [["sleep", t0], ["shutdown", rng.choice([True, False])]]]
            if rng.random() < 0.3:
                clients.append([["sleep", t0], ["shutdown", rng.choice([True, False])]])
            d = dict(kind="stack", idx=i, base=rng.choice(["simpool1", "simpool2"]), layers=[lay], clients=clients, tail=30.0,
                     seed=rng.randrange(1 << 30), family="racing-shutdowns")
            from props.common import schedule_modes
            d.update(schedule_modes(rng))
        else:
            d = sc.gen_stack(rng, i, ops=("submit", "submit", "cancel", "addcb", "sleep", "result"), tail=(60.0,), shutdown_p=0.0, max_layers=3)
            if not d["layers"]:
                d["layers"] = [sc.gen_layer(rng, rng.choice(["retry", "throttle", "poll", "timeout", "map", "cancel_on_shutdown"]))]
            for lay in d["layers"]:
                if lay[0] == "throttle":
                    lay[1]["block"] = False
                    if lay[1].get("count") == 0 or isinstance(lay[1].get("count"), list):
                        lay[1]["count"] = rng.choice([1, 2])
                if lay[0] == "poll":
                    lay[1]["poll_script"] = [x for x in lay[1]["poll_script"] if x != "none"] or ["yield"]
            nretry = sum(1 for lay in d["layers"] if lay[0] == "retry")
            if nretry >= 2:
                for lay in d["layers"]:
                    if lay[0] == "retry":
                        lay[1].clear()
                        lay[1].update({"max_attempts": 2, "sleep": 1.0, "exponent": 1.0, "max_sleep": 3.0, "exception_base": ["E0"]})
            if d["base"] == "simsync":
                for ops in d["clients"]:
                    for op in ops:
                        if op[0] == "addcb" and op[2] == "submit":
                            op[2] = "plain"
        yield d


TYPE_OF = {"map": "map", "flat_map": "flat_map", "retry": "retry", "poll": "poll", "throttle": "throttle", "timeout": "timeout",
           "cancel_on_shutdown": "cancel_on_shutdown"}


def run_one(desc):
    PC.reset()
    samples = {}
    mlog = []

    def hook(name, key, delta, value):
        s = core.ACTIVE
        mlog.append((len(s.log) if s is not None else -1, name, key, delta, value))
    PC.LOG_HOOK[0] = hook
    try:
        s, ctx, out = sc.run_stack(desc, props=("C18",))
    finally:
        PC.LOG_HOOK[0] = None
    hits = []

    def value_at(idx, name, key):
        v = 0
        for (i, n, k, d, val) in mlog:
            if i > idx:
                break
            if n == name and k == key:
                v = val
        return v
    # never negative
    for k, mn in PC.MINIMA.items():
        if mn < 0 and "inprogress" in k[0] or (mn < 0 and "queue" in k[0]):
            hits.append(hit("C20/gauge-negative:%s" % k[0].replace("more_executors_", ""), "%s%r went down to %r" % (k[0], dict(k[1]), mn)))
    if ctx.completed and s.end_reason in ("done", "idle"):
        all_done = all(f.done() for f in ctx.futs.values())
        qi = ctx.end_index
        names = set((n, k) for (_i, n, k, _d, _v) in mlog)
        if all_done:
            for (n, k) in sorted(names):
                short = n.replace("more_executors_", "")
                if short in ("retry_queue", "throttle_queue", "future_inprogress"):
                    v = value_at(qi, n, k)
                    if v != 0:
                        hits.append(hit("C20/gauge-at-quiescence:%s" % short, "%s%r = %r at quiescence with every future done and nothing queued; layers %r"
                                        % (short, dict(k), v, [l[0] for l in desc["layers"]])))
        # executors: one in use per layer until shut down, none afterwards
        for li, lay in enumerate(desc["layers"]):
            key = (("type", TYPE_OF[lay[0]]), ("executor", "L%d" % li))
            n = "more_executors_exec_inprogress"
            before = value_at(qi, n, key)
            after = PC.REGISTRY.get((n, key), 0)
            client_shutdown = any(op[0] == "shutdown" for ops in desc["clients"] for op in ops)
            if before != (0 if client_shutdown else 1):
                hits.append(hit("C20/exec-gauge-before-shutdown", "exec_inprogress%r = %r while the executor is in use" % (dict(key), before)))
            if after != 0:
                hits.append(hit("C20/exec-gauge-after-shutdown", "exec_inprogress%r = %r after shutdown()" % (dict(key), after)))
        # counters of the top layer
        if desc["layers"]:
            top = desc["layers"][-1]
            ti = len(desc["layers"]) - 1
            tkey = (("type", TYPE_OF[top[0]]), ("executor", "L%d" % ti))
            if top[0] != "cancel_on_shutdown":       # it hands out the delegate's futures: it tracks none of its own
                accepted = [a for a in ctx.api if a[1] == "submit" and a[3][0] == "ret"]
                nested = sum(1 for e in s.log if e[1] == "ret" and e[2] == "submit" and str(e[4]).startswith("nested"))
                want_total = len(accepted) + nested
                got_total = PC.REGISTRY.get(("more_executors_future_total", tkey), 0)
                if got_total != want_total:
                    hits.append(hit("C20/counter:future_total", "future_total%r = %r but %d futures were handed out" % (dict(tkey), got_total, want_total)))
                if all_done and not nested:
                    want_c = sum(1 for f in ctx.futs.values() if f.cancelled())
                    want_e = sum(1 for f in ctx.futs.values() if f.done() and not f.cancelled() and f.exception() is not None)
                    got_c = PC.REGISTRY.get(("more_executors_future_cancel", tkey), 0)
                    got_e = PC.REGISTRY.get(("more_executors_future_error", tkey), 0)
                    if got_c != want_c:
                        hits.append(hit("C20/counter:future_cancel", "future_cancel%r = %r but %d futures ended cancelled" % (dict(tkey), got_c, want_c)))
                    if got_e != want_e:
                        hits.append(hit("C20/counter:future_error", "future_error%r = %r but %d futures ended with an exception" % (dict(tkey), got_e, want_e)))
        for li, lay in enumerate(desc["layers"]):
            if lay[0] == "poll":
                key = (("executor", "L%d" % li),)
                npoll = sum(1 for e in s.log if e[1] == "pollfn<")
                nraise = sum(1 for e in s.log if e[1] == "pollraise")
                if sum(1 for l in desc["layers"] if l[0] == "poll") == 1:
                    got = PC.REGISTRY.get(("more_executors_poll_total", key), 0)
                    if got != npoll:
                        hits.append(hit("C20/counter:poll_total", "poll_total = %r but the poll function was called %d times" % (got, npoll)))
                    got = PC.REGISTRY.get(("more_executors_poll_error", key), 0)
                    if got != nraise:
                        hits.append(hit("C20/counter:poll_error", "poll_error = %r but the poll function raised %d times" % (got, nraise)))
        if len(desc["layers"]) == 1 and desc["layers"][0][0] == "retry":
            key = (("executor", "L0"),)
            per = {}
            for e in s.log:
                if e[1] == "dsubmit":
                    per[e[4]] = per.get(e[4], 0) + 1
            want = sum(max(0, n - 1) for n in per.values())
            got = PC.REGISTRY.get(("more_executors_retry_total", key), 0)
            if got != want:
                hits.append(hit("C20/counter:retry_total", "retry_total = %r but %d re-submissions reached the delegate" % (got, want)))
    blocks, verd = [], []
    model = desc.get("replay_model")
    if model and s.end_reason != "limit":
        try:
            if model == "retry":
                b = rproj.project(s.log, desc)
                g = PC.REGISTRY.get(("more_executors_retry_queue", (("executor", "L0"),)), 0)
            else:
                b = tproj.project(s.log, desc)
                g = PC.REGISTRY.get(("more_executors_throttle_queue", (("executor", "L0"),)), 0)
            b = b[:-1] + ["A gauge %d" % g, "."]
            blocks.append(b)
        except (rproj.ProjError, tproj.ProjError) as e:
            verd.append("DIVERGE 0 [projection] %s" % e)
        except tproj.Ambiguous as e:
            verd.append("INCONCLUSIVE 0 %s" % e)
    return {"hits": hits, "blocks": blocks, "verdicts": verd, "schedule": list(s.chooser.record),
            "fingerprint": fingerprint(desc, s) if mlog else None,
            "stats": {"metric_updates": len(mlog), "gauges_sampled": len(PC.REGISTRY), "layers_%d" % len(desc["layers"]): 1,
                      "cancel_true": sum(1 for e in s.log if e[1] == "ret" and e[2] == "cancel" and e[4] is True)},
            "sample": {"desc": {k: desc[k] for k in ("base", "layers", "clients")}, "registry": {"%s%r" % (k[0], dict(k[1])): v for k, v in list(PC.REGISTRY.items())[:12]}} if desc.get("idx", 1) == 0 else None}


def extra_checks(seed, tier):
    """exec_inprogress and the f_* functions: every call builds executors that are never shut down (known finding)"""
    from more_executors.futures import f_map, f_return
    PC.reset()
    n = 5
    for _ in range(n):
        f_map(f_return(1), lambda x: x).result()
    import gc
    gc.collect()
    leaked = sum(v for (name, key), v in PC.REGISTRY.items() if name == "more_executors_exec_inprogress" and dict(key).get("executor") == "internal")
    hits = []
    if leaked > 0:
        hits.append({"sig": "C20/exec-gauge-leak:f_map", "detail": "after %d completed f_map() calls exec_inprogress{executor=internal} totals %d although no "
                     "executor created by them is alive" % (n, leaked), "desc": {"kind": "f_map-loop", "n": n}})
    return {"hits": hits, "broken": [], "stats": {"differential_cases": 0}, "validated": 0, "samples": [], "fingerprints": []}


def extended_search(seed, tier, broken):
    from run import run_scenarios
    for extra in range(1, 4 if tier == "quick" else 10):
        descs = list(gen_scenarios(seed + 1000 * extra, "quick"))
        for r in run_scenarios("props.C20", descs, budget_s=100):
            for h in r.get("hits", []):
                return {"sig": h["sig"], "detail": h.get("detail"), "desc": r["desc"], "schedule": r.get("schedule")}
    return None
