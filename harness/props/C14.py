"""C14 - f_and / f_or are and/or folds over the order in which inputs finish.

Lean: MoreExec/Model/BoolOp.lean over kernel K5 (regenerated from futures/bool.py); theorems in Props/C14.lean.
Tie: K5 regenerated + exhaustive differential of get_state_update; histories of the real f_or/f_and under dsched
(order of the handle_done critical sections) replayed through the Lean fold and compared."""
import itertools
import random
from concurrent.futures import Future

from props.common import run, fingerprint, sched_kwargs, schedule_modes, hit, core, wrapfut
from world.sim import SimFuture, Falsy, EXC, vname, outcome, oname
import leanval

ID = "C14"
LEAN_MODULES = ["MoreExec.Props.C14"]
THEOREMS = [
    "MoreExec.BoolOp.C14_or_fold",
    "MoreExec.BoolOp.C14_and_fold",
    "MoreExec.BoolOp.C14_losers_cancelled",
    "MoreExec.BoolOp.C14_decided_once",
    "MoreExec.BoolOp.C14_output_cancel_fans_out",
    "MoreExec.BoolOp.C14_step_closed_form",
    "MoreExec.BoolOp.C14_repeated_inputs",
    "MoreExec.BoolOp.C14_source_facts",
]
KERNELS = ["K5"]
BUDGET = {"quick": 120, "thorough": 1200}
ASSUMPTIONS = [
    "exception objects are truthy (Python default); a falsy exception object is outside the theorem's hypothesis (S18)",
    "inputs are distinct futures in the fold theorems (duplicates are exercised by the correspondence only)",
    "the plain concurrent.futures.Future used for the output is the stdlib's (trusted)",
]
RULE = ("seeded inputs (1-5; pending SimFutures completed by 1-3 threads, already-finished f_return*/f_return_error/"
        "f_return_cancelled, f_nocancel-wrapped) x outcomes (truthy/falsy values of several types, exception, cancelled, never) x "
        "schedules; the order of handle_done critical sections is read from the log and folded by the Lean model; distinct = "
        "distinct (program, schedule) hash; non-trivial = at least two critical sections ran")

VALS = {"t1": 1, "t2": "x", "t3": [0], "tT": True, "t5": {"a": 1}, "f0": 0, "fE": "", "fL": [], "fN": None, "fF": False, "fO": Falsy(), "fD": {}}
OUT_ID = 99


def gen_scenarios(seed, tier):
    rng = random.Random(seed * 6151 + 14)
    n = 1500 if tier == "quick" else 30000
    for i in range(n):
        d = gen_one(rng, i)
        if i % 6 == 5:
            d = add_duplicates(rng, d)
        yield d


def add_duplicates(rng, d):
    """repeat some inputs (the property quantifies over duplicate inputs); already-finished inputs are also taken as finished
    LIBRARY futures (f_map of an f_return*), whose add_done_callback calls a callback for a done future directly"""
    d = dict(d)
    n = len(d["inputs"])
    d["inputs"] = [(("libdone" if (form == "done" and rng.random() < 0.7) else form), oc) for (form, oc) in d["inputs"]]
    occ = list(range(n))
    for _ in range(rng.randint(1, 2)):
        occ.insert(rng.randint(0, len(occ)), rng.randrange(n))
    d["occ"] = occ
    return d


def gen_one(rng, i):
    n = rng.choice([1, 2, 2, 3, 3, 3, 4, 5])
    inputs = []
    for j in range(n):
        r = rng.random()
        if r < 0.5:
            oc = ("ok", rng.choice(sorted(VALS)))
        elif r < 0.7:
            oc = ("err", rng.choice(["E0", "E1", "ValueError"]))
        elif r < 0.85:
            oc = ("cancel",)
        else:
            oc = ("never",)
        form = rng.choice(["sim", "sim", "sim", "done", "nocancel"])
        if oc[0] == "never" and form == "done":
            form = "sim"
        inputs.append((form, oc))
    nthreads = rng.choice([1, 2, 3])
    order = [j for j in range(n) if inputs[j][0] != "done" and inputs[j][1][0] != "never"]
    rng.shuffle(order)
    completers = [order[k::nthreads] for k in range(nthreads)]
    d = dict(kind=rng.choice(["or", "and"]), idx=i, inputs=inputs, completers=completers,
             cancel_out=rng.random() < 0.15, seed=rng.randrange(1 << 30))
    d.update(schedule_modes(rng))
    return d


class Ctx(object):
    pass


_hd_wrapped = False


def wrap_handle_done():
    global _hd_wrapped
    if _hd_wrapped:
        return
    from more_executors._impl.futures.bool import BoolOperation
    orig = BoolOperation.handle_done

    def handle_done(self, f):
        s = core.ACTIVE
        if s is not None and not s.aborting:
            s.ev("hd>", s.name_of(f, "f"))
        try:
            return orig(self, f)
        finally:
            if s is not None and not s.aborting:
                s.ev("hd<", s.name_of(f, "f"))
    BoolOperation.handle_done = handle_done
    _hd_wrapped = True


def body_for(desc, ctx):
    from more_executors.futures import f_or, f_and, f_return, f_return_error, f_return_cancelled, f_nocancel, f_map

    def body(s, w):
        ctx.inputs = []
        ctx.inner = []
        ctx.exc = {}
        for j, (form, oc) in enumerate(desc["inputs"]):
            if form in ("done", "libdone"):
                if oc[0] == "ok":
                    f = f_return(VALS[oc[1]])
                elif oc[0] == "err":
                    e = EXC[oc[1]]("in%d" % j)
                    ctx.exc[j] = e
                    f = f_return_error(e)
                else:
                    f = f_return_cancelled()
                if form == "libdone":
                    f = f_map(f)
                inner = f
            else:
                inner = SimFuture()
                f = f_nocancel(inner) if form == "nocancel" else inner
            s.name_of(inner, "f")
            ctx.inputs.append(f)
            ctx.inner.append(inner)
        ctx.names = {s.name_of(f, "f"): j for j, f in enumerate(ctx.inputs)}
        ctx.inner_names = {s.name_of(f, "f"): j for j, f in enumerate(ctx.inner)}
        s.ev("call", "f_op")
        op = f_or if desc["kind"] == "or" else f_and
        try:
            out = op(*[ctx.inputs[k] for k in desc["occ"]]) if desc.get("occ") else op(*ctx.inputs)
        except core.Abort:
            raise
        except BaseException as e:
            s.ev("raise", "f_op", type(e).__name__, str(e)[:50])
            ctx.raised = e
            return
        s.ev("ret", "f_op", vname(out))
        ctx.out = out

        def completer(idxs):
            def go():
                for j in idxs:
                    inner = ctx.inner[j]
                    oc = desc["inputs"][j][1]
                    s.yield_point("complete")
                    s.ev("complete", j, oc[0])
                    if oc[0] == "ok":
                        if inner.set_running_or_notify_cancel():
                            inner.set_result(VALS[oc[1]])
                    elif oc[0] == "err":
                        e = EXC[oc[1]]("in%d" % j)
                        ctx.exc[j] = e
                        if inner.set_running_or_notify_cancel():
                            inner.set_exception(e)
                    elif oc[0] == "cancel":
                        if Future.cancel(inner):
                            inner.set_running_or_notify_cancel()
                    s.ev("completed", j)
            return go

        cts = [s.spawn(completer(idxs), name="comp%d" % k) for k, idxs in enumerate(desc["completers"]) if idxs]
        if desc.get("cancel_out"):
            def canceller():
                s.yield_point("api")
                s.ev("call", "cancel_out")
                r = out.cancel()
                s.ev("ret", "cancel_out", r)
                ctx.cancel_out_result = r
            cts.append(s.spawn(canceller, name="canceller"))
        for ct in cts:
            if ct.state != "done":
                s.block(lambda ct=ct: ct.state == "done", None, ("cjoin", ct.tid))
        ctx.final = outcome(out)
        ctx.in_final = [outcome(f) for f in ctx.inputs]
    return body


def in_line(j, f_outcome, ctx):
    """encode a finished input for the oracle: id c exc rid rtruthy"""
    if f_outcome[0] == "cancelled":
        return "%d 1 - 0 0" % j
    if f_outcome[0] == "err":
        return "%d 0 %d 0 0" % (j, 500 + j)
    v = f_outcome[1]
    return "%d 0 - %d %d" % (j, 100 + j, 1 if v else 0)


def analyse(s, ctx, desc):
    """returns (hits, oracle_line or None, expectation dict)"""
    hits = []
    if getattr(ctx, "raised", None) is not None:
        hits.append(hit("C14/raised:%s" % type(ctx.raised).__name__, "f_%s raised %r" % (desc["kind"], ctx.raised)))
        return hits, None, None
    if not hasattr(ctx, "out"):
        return hits, None, None
    n = len(ctx.inputs)
    if n == 1 and not desc.get("occ"):
        if ctx.out is not ctx.inputs[0]:
            hits.append(hit("C14/single-input-not-identity", "f_%s(f) did not return f" % desc["kind"]))
        return hits, None, None
    # the op lock: the controlled Lock created inside the f_op call
    lock = None
    inside = False
    for e in s.log:
        if e[1] == "call" and e[2] == "f_op":
            inside = True
        elif e[1] == "ret" and e[2] == "f_op":
            inside = False
        elif e[1] == "locknew" and inside and lock is None and e[2].startswith("L"):
            lock = e[2]
    cur = {}
    sections = []
    cancels_seen = []
    decided_at = None
    for e in s.log:
        t, k = e[0], e[1]
        if k == "hd>":
            cur.setdefault(t, []).append(e[2])
        elif k == "hd<":
            if cur.get(t):
                cur[t].pop()
        elif k == "acq" and e[2] == lock and cur.get(t):
            nm = cur[t][-1]
            if nm in ctx.names:
                sections.append(ctx.names[nm])
        elif k == "dcancel>" and e[2] in ctx.inner_names:
            cancels_seen.append(("inner", ctx.inner_names[e[2]]))
        elif k == "fcancel>" and e[2] in ctx.names:
            cancels_seen.append(("wrapper", ctx.names[e[2]]))
        elif k == "tdied":
            hits.append(hit("C14/thread-died:%s" % e[2], "thread %d died with %s at %s" % (t, e[2], e[3])))
        elif k == "log" and e[3] in ("ERROR", "CRITICAL"):
            hits.append(hit("C14/logged-error:%s" % e[5], "logger %s: %s (%s)" % (e[2], e[4], e[5])))
    if desc.get("occ"):
        # a repeated input is one input: the fold runs over the distinct futures, each at its first critical section
        first = []
        for j in sections:
            if j not in first:
                first.append(j)
        sections = first
    line = "k5.fold %s %d %s %s" % (desc["kind"], OUT_ID, ",".join(str(j) for j in range(n)) or "-",
                                     " ".join(in_line(j, ctx.in_final[j], ctx) for j in sections))
    return hits, line, dict(sections=sections, cancels_seen=cancels_seen)


def py_spec(kind, secs, finals):
    """or / and fold over the completion order, written directly from the property statement."""
    def truthy(o):
        return o[0] == "ok" and bool(o[1])
    for j in secs:
        if (kind == "or" and truthy(finals[j])) or (kind == "and" and not truthy(finals[j])):
            return j
    return secs[-1] if secs else None


def direct_monitor(desc, ctx, exp):
    hits = []
    n = len(ctx.inputs)
    secs = exp["sections"]
    if getattr(ctx, "cancel_out_result", None) is True or len(set(secs)) != len(secs):
        return hits
    fin = ctx.final
    j = py_spec(desc["kind"], secs, ctx.in_final)
    decided = j is not None and ((desc["kind"] == "or") == (ctx.in_final[j][0] == "ok" and bool(ctx.in_final[j][1])) or sorted(secs) == list(range(n)))
    if decided:
        want = ctx.in_final[j]
        same = fin[0] == want[0] and (fin[0] == "cancelled" or fin[1] is want[1])
        if not same:
            hits.append(hit("C14/wrong-outcome", "f_%s over completion order %r resolved with %s; the %s fold gives the outcome of input %d (%s)"
                            % (desc["kind"], secs, fin[0], desc["kind"], j, want[0])))
    elif fin[0] != "pending":
        hits.append(hit("C14/resolved-early", "output is %s although the fold is undecided after %r" % (fin[0], secs)))
    return hits


def compare(desc, ctx, exp, lean):
    """lean: 'outcome [cancels] done'"""
    hits = []
    oc, rest = lean.split(" ", 1)
    cl = rest[rest.index("[") + 1:rest.index("]")].split()
    done = rest.endswith("true")
    cancels = [int(x) for x in cl]
    fin = ctx.final
    client_cancelled = getattr(ctx, "cancel_out_result", None) is True
    if done and not client_cancelled:
        # outcome
        if oc == "cancelled":
            ok = fin[0] == "cancelled"
        elif oc.startswith("ok:"):
            j = int(oc[3:]) - 100
            ok = fin[0] == "ok" and ctx.in_final[j][0] == "ok" and fin[1] is ctx.in_final[j][1]
        elif oc.startswith("err:"):
            j = int(oc[4:]) - 500
            ok = fin[0] == "err" and fin[1] is ctx.in_final[j][1]
        else:
            ok = False
        if not ok:
            hits.append(hit("C14/wrong-outcome", "f_%s over completion order %r gave %s, Lean fold gives %s"
                            % (desc["kind"], exp["sections"], oname(fin) if fin[0] not in ("ok",) else "ok:%r" % (fin[1],), oc)))
        want = sorted(j for j in cancels if j != OUT_ID)
        if OUT_ID in cancels:
            # the output itself is cancelled: chain_cancel forwards that to every input
            want = list(range(len(ctx.inputs)))
        got_all = exp["cancels_seen"]
        got = sorted(set(j for (kind, j) in got_all if (kind == "inner" and desc["inputs"][j][0] == "sim")
                         or (kind == "wrapper" and desc["inputs"][j][0] == "nocancel")))
        want_obs = sorted(j for j in want if desc["inputs"][j][0] in ("sim", "nocancel"))
        if got != want_obs:
            hits.append(hit("C14/losers-not-cancelled", "decision after %r: cancel() reached inputs %r, model says %r"
                            % (exp["sections"], got, want_obs)))
    if not done and not client_cancelled and fin[0] != "pending":
        hits.append(hit("C14/resolved-early", "output is %s although the fold is undecided after %r" % (fin[0], exp["sections"])))
    # f_nocancel shields: a cancel request never reaches the wrapped future
    for (kind, j) in exp["cancels_seen"]:
        if kind == "inner" and desc["inputs"][j][0] == "nocancel":
            hits.append(hit("C14/nocancel-pierced", "cancel() reached the future wrapped by f_nocancel (input %d)" % j))
    if client_cancelled:
        pend = [j for j in range(len(ctx.inputs)) if desc["inputs"][j][0] in ("sim", "nocancel")]
        got = set(j for (_k, j) in exp["cancels_seen"])
        missing = [j for j in pend if j not in got and ctx.in_final[j][0] == "pending"]
        if missing:
            hits.append(hit("C14/output-cancel-not-forwarded", "output cancelled by client but inputs %r never received cancel()" % missing))
    return hits


def run_one(desc):
    wrapfut.install()
    wrap_handle_done()
    ctx = Ctx()
    s, w = run(body_for(desc, ctx), **sched_kwargs(desc))
    hits, line, exp = analyse(s, ctx, desc)
    if s.end_reason != "done":
        hits.append(hit("C14/stuck:%s" % s.end_reason, "scenario ended with %s; parked %r" % (s.end_reason, s.parked())))
    validated = 0
    divs = []
    if line is not None:
        out = leanval.validate_blocks([["S oracle", line, "."]])[0]
        lean = out[len("ORACLE "):]
        hits.extend(direct_monitor(desc, ctx, exp))
        cmp = compare(desc, ctx, exp, lean)
        direct_sigs = ("C14/nocancel-pierced", "C14/output-cancel-not-forwarded", "C14/losers-not-cancelled")
        hits.extend(h for h in cmp if h["sig"] in direct_sigs)
        divs = [h for h in cmp if h["sig"] not in direct_sigs]
        validated = 1
    nsec = len(exp["sections"]) if exp else 0
    r = {"hits": hits, "blocks": [], "stats": {"sections": nsec, "oracle_folds": validated, "yields": s.nyields,
                                                "kind_" + desc["kind"]: 1, "n_inputs_%d" % len(desc["inputs"]): 1},
         "schedule": list(s.chooser.record), "fingerprint": fingerprint(desc, s) if nsec >= 2 else None,
         "verdicts": ([("DIVERGE 1 [%s] real run vs Lean model: %s" % (line, divs[0]["detail"])) if divs else "OK 1 1"] if validated else [])}
    if desc.get("idx") == 0:
        r["sample"] = {"desc": desc, "oracle_line": line, "final": str(getattr(ctx, "final", None))[:80]}
    return r


def extra_checks(seed, tier):
    """Exhaustive differential of get_state_update against the regenerated kernel K5."""
    from more_executors._impl.futures.bool import OrOperation, AndOperation

    class FakeF(object):
        def __init__(self, c, e, v):
            self.c, self.e, self.v = c, e, v

        def cancelled(self):
            return self.c

        def exception(self):
            return self.e

        def result(self):
            return self.v

    lines, py = [], []
    exc = ValueError("x")
    for kind, cls in (("or", OrOperation), ("and", AndOperation)):
        for nfs, c, e, truthy in itertools.product([0, 1, 3], [False, True], [None, exc], [False, True]):
            if c and e is not None:
                continue
            op = cls.__new__(cls)
            keys = ["k%d" % i for i in range(nfs)]
            op.fs = {k: True for k in keys}
            op.done = False
            op.out = "OUT"
            f = FakeF(c, e, 1 if truthy else 0)
            (sr, se, cf) = op.get_state_update(f)
            cfn = [OUT_ID if x == "OUT" else int(x[1:]) for x in cf]
            py.append("%s %s [%s] %s" % (str(bool(sr)).lower(), str(bool(se)).lower(), " ".join(map(str, cfn)), str(bool(op.done)).lower()))
            lines.append("k5.update %s %d %s 0 %s" % (kind, OUT_ID, (",".join(str(i) for i in range(nfs)) or "-"),
                                                     "7 %d %s 5 %d" % (1 if c else 0, "-" if e is None else "9", 1 if truthy else 0)))
    out = leanval.validate_blocks([["S oracle"] + lines + ["."]])[0]
    lean = out[len("ORACLE "):].split(";")
    broken = []
    for ln, a, b in zip(lines, py, lean):
        if a != b:
            broken.append({"what": "translator differential K5", "detail": "%s: python=%s lean=%s" % (ln, a, b)})
            break
    return {"hits": [], "broken": broken, "stats": {"differential_cases": len(lines)},
            "samples": [{"kernel_case": lines[3], "python": py[3], "lean": lean[3]}],
            "fingerprints": ["k5:%d" % i for i in range(len(lines))]}


def extended_search(seed, tier, broken):
    rng = random.Random(seed * 92821 + 5)
    for i in range(3000):
        d = gen_one(rng, 100000 + i)
        r = run_one(d)
        for h in r["hits"]:
            h = dict(h)
            h["desc"] = d
            h["schedule"] = r["schedule"]
            return h
    return None
