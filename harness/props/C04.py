"""C04 - No deadlock among API calls and internal threads, including nested submission.

Lean: Model/LockOrder.lean + Props/C04.lean (rank discipline => no waits-for cycle); K12 (lexical lock nestings and
user-code-under-lock sites) regenerated from the source.  Tie: every lock instance of a real run is attributed to a lock
class by its creation site and owner, and every observed (held -> acquired) edge must satisfy the model's `allowed`;
search: idle-final states with threads blocked on locks, over random stacks and nested-submission programs."""
import random

from props.common import fingerprint, hit
from props import stackcommon as sc
from props import lockedges

ID = "C04"
LEAN_MODULES = ["MoreExec.Props.C04"]
THEOREMS = [
    "MoreExec.LockOrder.C04_no_lock_cycle",
    "MoreExec.LockOrder.C04_no_self_block",
    "MoreExec.LockOrder.C04_outer_before_inner",
    "MoreExec.LockOrder.C04_source_nesting_ranked",
    "MoreExec.LockOrder.C04_user_code_under_lock_sites",
]
KERNELS = ["K12"]
BUDGET = {"quick": 150, "thorough": 1500}
ASSUMPTIONS = [
    "deadlock = a cycle of threads each blocked on a lock another holds; a thread parked on an Event / Condition / join holds no "
    "library lock except the blocking-throttle submitter (its gate), which C07/C11 treat; lost wake-ups are C03",
    "lock instances are attributed to classes by creation site and owning executor (harness introspection at lock creation)",
    "user code that takes its own locks is outside the library's discipline",
]
RULE = ("random stacks of 0-3 layers over sync and pool bases with 1-3 client threads issuing submit / cancel / add_done_callback / "
        "result and one thread calling shutdown; plus nested-submission programs (callables, map functions and done-callbacks that "
        "submit to the top executor of their own stack) over a real SyncExecutor, an inline delegate and pools; every observed lock "
        "edge is evaluated by the Lean model's `allowed`; deadlock monitor = idle-final with a thread blocked on a lock")


def gen_scenarios(seed, tier):
    rng = random.Random(seed * 141650939 + 4)
    n = 2400 if tier == "quick" else 40000
    for i in range(n):
        if i % 3 == 2:
            yield gen_nested(rng, i)
        elif i % 12 == 1:
            yield gen_blocking(rng, i)
        else:
            d = sc.gen_stack(rng, i, ops=("submit", "cancel", "addcb", "result", "shutdown", "sleep"), tail=(20.0,), shutdown_p=0.12)
            for lay in d["layers"]:
                if lay[0] == "throttle":
                    lay[1]["block"] = False
            d["family"] = "stack"
            yield d


def gen_blocking(rng, i):
    """stacks containing a ThrottleExecutor in blocking mode: its submit() parks the caller on an event while the caller holds the
    gates (and, for the retry submit thread, the locks) of the layers above"""
    d = sc.gen_stack(rng, i, ops=("submit", "submit", "addcb", "result", "sleep"), tail=(30.0,), shutdown_p=0.0, max_layers=3,
                     bases=("simsync", "libsync", "simpool1", "simpool2"))
    th = ["throttle", {"count": rng.choice([1, 1, 2]), "block": True}]
    lays = [l for l in d["layers"] if l[0] != "throttle"]
    lays.insert(rng.randint(0, len(lays)), th)
    if rng.random() < 0.6 and not any(l[0] == "retry" for l in lays):
        lays.append(["retry", {"max_attempts": rng.choice([2, 3]), "sleep": 1.0, "exponent": 1.0, "max_sleep": 3.0, "exception_base": ["E0"]}])
    d["layers"] = lays
    d["family"] = "blocking"
    return d


def retry_over_blocking_throttle(desc):
    kinds = [(l[0], bool(l[1].get("block"))) for l in desc["layers"]]
    for i, (k, b) in enumerate(kinds):
        if k == "throttle" and b and any(k2 == "retry" for (k2, _) in kinds[i + 1:]):
            return True
    return False


def gen_nested(rng, i):
    kinds = ["map", "flat_map", "retry", "poll", "throttle", "timeout", "cancel_on_shutdown"]
    nl = rng.randint(0, 2)
    layers = [sc.gen_layer(rng, rng.choice(kinds)) for _ in range(nl)]
    for lay in layers:
        if lay[0] == "throttle":
            lay[1]["block"] = False
            lay[1]["count"] = rng.choice([1, 2, None])
        if lay[0] == "map" and rng.random() < 0.5:
            lay[1]["script"] = [[["nested"], ["retarg"]]]
        if lay[0] == "retry":
            lay[1].clear()
            lay[1].update({"max_attempts": 2, "sleep": 1.0, "exponent": 1.0, "max_sleep": 3.0, "exception_base": ["E0"]})
    clients = []
    k = 0
    for c in range(rng.choice([1, 2])):
        ops = []
        for _ in range(rng.randint(1, 2)):
            beh = [["nested"], ["ret", k]] if rng.random() < 0.7 else [["ret", k]]
            ops.append(["submit", "k%d" % k, [beh]])
            if rng.random() < 0.4:
                ops.append(["addcb", "k%d" % k, "submit"])
            k += 1
        clients.append(ops)
    d = dict(kind="stack", idx=i, family="nested", base=rng.choice(["libsync", "simsync", "simpool1", "simpool2"]), layers=layers,
             clients=clients, tail=10.0, seed=rng.randrange(1 << 30))
    from props.common import schedule_modes
    d.update(schedule_modes(rng))
    return d


def run_one(desc):
    s, ctx, out = sc.run_stack(desc, props=("C04", "C11"))
    hits = list(out.get("C04", []))
    hits += [h for h in out.get("C11", []) if h["sig"].startswith("C11/shutdown-never-returns:lock")]
    inline_base = desc["base"] in ("libsync", "simsync")
    has_retry = any(l[0] == "retry" for l in desc["layers"])
    nested_running = any(e[1] == "call" and e[2] == "nsubmit" for e in s.log)
    if inline_base and has_retry and nested_running:
        # the retry submit thread runs the callable inline (synchronous delegate) while holding the future's and the executor's
        # lock; a submit issued from that callable, racing with another submitter, closes a cycle through those locks
        for h in hits:
            if h["sig"] == "C04/deadlock:lock-wait":
                h["sig"] = "C04/deadlock:nested-submit:retry-over-inline-delegate"
    if retry_over_blocking_throttle(desc):
        # the retry submit thread is parked in the blocking throttle's submit() holding the retry executor's lock; the throttle's
        # hand-over thread, which alone can make room, finds the delegate future already done (inline delegate, or a pool that was
        # quicker) and so runs the retry layer's done-callback itself, which needs that lock
        for h in hits:
            if h["sig"] == "C04/deadlock:lock-wait":
                h["sig"] = "C04/deadlock:retry-over-blocking-throttle"
    # client threads stuck for ever inside a nested submit
    if s.end_reason == "idle" and not ctx.completed:
        pend = {}
        for e in s.log:
            if e[1] == "call" and e[2] == "nsubmit":
                pend[e[0]] = e[3]
            elif e[1] in ("ret", "raise") and e[2] == "nsubmit":
                pend.pop(e[0], None)
        for (tid, park, role, name) in s.parked():
            if tid in pend and park and park[0] == "lock":
                sig = "C04/nested-submit-blocks:%s" % desc["base"]
                if desc["base"] in ("libsync", "simsync") and any(l[0] == "retry" for l in desc["layers"]):
                    sig = "C04/deadlock:nested-submit:retry-over-inline-delegate"
                hits.append(hit(sig, "a submit() issued from inside %s blocks for ever on lock %s "
                                "(layers %r, base %s)" % (pend[tid], park[1], [l[0] for l in desc["layers"]], desc["base"])))
    verd = []
    bad = []
    nested_under_lock = desc.get("family") == "nested"
    try:
        # the rank discipline is the library's own: user code that re-enters the stack from under library locks (a nested
        # submit from a callable run inline by a synchronous delegate) takes outer locks while inner ones are held by design
        if not nested_under_lock:
            es = [(lockedges.classify(a, ctx, desc), lockedges.classify(b, ctx, desc)) for (a, b) in s.edges]
            bad = lockedges.check_edges(es)
    except Exception as e:      # harness problem: never a violation
        verd.append("INCONCLUSIVE 0 lock-edge check failed: %s" % str(e)[:100])
    for e in bad[:1]:
        verd.append("DIVERGE 0 [lock order] a thread holding %r acquired %r, which the model's rank order does not allow" % e)
    if not bad and not verd:
        verd.append("OK %d 1 lock edges" % len(s.edges))
    return {"hits": hits, "blocks": [], "verdicts": verd, "schedule": list(s.chooser.record),
            "fingerprint": fingerprint(desc, s),
            "stats": {"lock_edges": len(s.edges), "family_%s" % desc.get("family", "stack"): 1,
                      "nested_submits": sum(1 for e in s.log if e[1] == "call" and e[2] == "nsubmit"),
                      "lock_parks": sum(1 for e in s.log if e[1] == "park" and e[2] == "lock"),
                      "layers_%d" % len(desc["layers"]): 1},
            "sample": {"desc": {k: desc[k] for k in ("base", "layers", "clients")}, "log_len": len(s.log)} if desc.get("idx", 1) == 0 else None}


def extended_search(seed, tier, broken):
    from run import run_scenarios
    for extra in range(1, 4 if tier == "quick" else 10):
        descs = list(gen_scenarios(seed + 1000 * extra, "quick"))
        for r in run_scenarios("props.C04", descs, budget_s=100):
            for h in r.get("hits", []):
                return {"sig": h["sig"], "detail": h.get("detail"), "desc": r["desc"], "schedule": r.get("schedule")}
    return None
