"""C04 - No deadlock among API calls and internal threads, including nested submission.

Lean: Model/LockOrder.lean + Props/C04.lean (rank discipline => no waits-for cycle); K12 (lexical lock nestings and
user-code-under-lock sites) regenerated from the source.  Tie: every lock instance of a real run is attributed to a lock
class by its creation site and owner, and every observed (held -> acquired) edge must satisfy the model's `allowed`;
search: idle-final states with threads blocked on locks, over random stacks and nested-submission programs."""
import random

from props.common import fingerprint, hit
from props import stackcommon as sc
from props import lockedges

ID = "C04"
LEAN_MODULES = ["MoreExec.Props.C04"]
THEOREMS = [
    "MoreExec.LockOrder.C04_no_lock_cycle",
    "MoreExec.LockOrder.C04_no_self_block",
    "MoreExec.LockOrder.C04_outer_before_inner",
    "MoreExec.LockOrder.C04_source_nesting_ranked",
    "MoreExec.LockOrder.C04_user_code_under_lock_sites",
]
KERNELS = ["K12"]
BUDGET = {"quick": 150, "thorough": 1500}
ASSUMPTIONS = [
    "deadlock = a cycle of threads each blocked on a lock another holds; a thread parked on an Event / Condition / join holds no "
    "library lock except the blocking-throttle submitter (its gate), which C07/C11 treat; lost wake-ups are C03",
    "lock instances are attributed to classes by creation site and owning executor (harness introspection at lock creation)",
    "user code that takes its own locks is outside the library's discipline",
]
RULE = ("random stacks of 0-3 layers over sync and pool bases with 1-3 client threads issuing submit / cancel / add_done_callback / "
        "result and one thread calling shutdown; plus nested-submission programs (callables, map functions and done-callbacks that "
        "submit to the top executor of their own stack) over a real SyncExecutor, an inline delegate and pools; every observed lock "
        "edge is evaluated by the Lean model's `allowed`; deadlock monitor = idle-final with a thread blocked on a lock")


def gen_scenarios(seed, tier):
    rng = random.Random(seed * 141650939 + 4)
    n = 2400 if tier == "quick" else 40000
    for i in range(n):
        if i % 3 == 2:
            yield gen_nested(rng, i)
        elif i % 12 == 1:
            yield gen_blocking(rng, i)
        elif i % 12 == 7:
            yield gen_blocking_nested(rng, i)
        elif i % 12 == 4:
            yield gen_comb_callback(rng, i)
        elif i % 12 == 10:
            # cancel() of a retry future at the very instant its running attempt fails and is re-queued: the canceller holds the
            # future's lock and needs the executor's, the completing pool thread is inside the executor's retry section
            from props import C06
            d = C06.gen_running_cancel(rng, i)
            d.pop("replay_model", None)
            d["family"] = "running-cancel"
            yield d
        else:
            d = sc.gen_stack(rng, i, ops=("submit", "cancel", "addcb", "result", "shutdown", "sleep"), tail=(20.0,), shutdown_p=0.12)
            for lay in d["layers"]:
                if lay[0] == "throttle":
                    lay[1]["block"] = False
            d["family"] = "stack"
            yield d


def gen_blocking(rng, i):
    """stacks containing a ThrottleExecutor in blocking mode: its submit() parks the caller on an event while the caller holds the
    gates (and, for the retry submit thread, the locks) of the layers above"""
    d = sc.gen_stack(rng, i, ops=("submit", "submit", "addcb", "result", "sleep"), tail=(30.0,), shutdown_p=0.0, max_layers=3,
                     bases=("simsync", "libsync", "simpool1", "simpool2"))
    th = ["throttle", {"count": rng.choice([1, 1, 2]), "block": True}]
    lays = [l for l in d["layers"] if l[0] != "throttle"]
    lays.insert(rng.randint(0, len(lays)), th)
    if rng.random() < 0.6 and not any(l[0] == "retry" for l in lays):
        lays.append(["retry", {"max_attempts": rng.choice([2, 3]), "sleep": 1.0, "exponent": 1.0, "max_sleep": 3.0, "exception_base": ["E0"]}])
    d["layers"] = lays
    d["family"] = "blocking"
    return d


def gen_blocking_nested(rng, i):
    """a ThrottleExecutor in blocking mode with a small count, more submitters than room, and done-callbacks that submit to the
    same executor: with an inline (or quick) delegate those callbacks run on the hand-over thread itself - the only thread that
    can make room for a submitter parked inside submit()"""
    layers = [["throttle", {"count": rng.choice([1, 1, 2]), "block": True}]]
    if rng.random() < 0.3:
        layers.append(sc.gen_layer(rng, rng.choice(["map", "timeout", "cancel_on_shutdown"])))
    if rng.random() < 0.3:
        layers.insert(0, sc.gen_layer(rng, rng.choice(["map", "flat_map"])))
    clients = []
    k = 0
    for c in range(rng.choice([2, 3, 3])):
        ops = []
        for _ in range(rng.randint(2, 3)):
            beh = [["ret", k]] if rng.random() < 0.7 else [["sleep", 0.5], ["ret", k]]
            ops.append(["submit", "k%d" % k, [beh]])
            if rng.random() < 0.5:
                ops.append(["addcb", "k%d" % k, "submit"])
            k += 1
        clients.append(ops)
    d = dict(kind="stack", idx=i, family="blocking-nested", base=rng.choice(["simsync", "libsync", "simpool1", "simpool2"]),
             layers=layers, clients=clients, tail=40.0, seed=rng.randrange(1 << 30))
    from props.common import schedule_modes
    d.update(schedule_modes(rng))
    return d


def gen_nested(rng, i):
    kinds = ["map", "flat_map", "retry", "poll", "throttle", "timeout", "cancel_on_shutdown"]
    nl = rng.randint(0, 2)
    layers = [sc.gen_layer(rng, rng.choice(kinds)) for _ in range(nl)]
    for lay in layers:
        if lay[0] == "throttle":
            lay[1]["block"] = False
            lay[1]["count"] = rng.choice([1, 2, None])
        if lay[0] == "map" and rng.random() < 0.5:
            lay[1]["script"] = [[["nested"], ["retarg"]]]
        if lay[0] == "retry":
            lay[1].clear()
            lay[1].update({"max_attempts": 2, "sleep": 1.0, "exponent": 1.0, "max_sleep": 3.0, "exception_base": ["E0"]})
    clients = []
    k = 0
    for c in range(rng.choice([1, 2])):
        ops = []
        for _ in range(rng.randint(1, 2)):
            beh = [["nested"], ["ret", k]] if rng.random() < 0.7 else [["ret", k]]
            ops.append(["submit", "k%d" % k, [beh]])
            if rng.random() < 0.4:
                ops.append(["addcb", "k%d" % k, "submit"])
            k += 1
        clients.append(ops)
    d = dict(kind="stack", idx=i, family="nested", base=rng.choice(["libsync", "simsync", "simpool1", "simpool2"]), layers=layers,
             clients=clients, tail=10.0, seed=rng.randrange(1 << 30))
    from props.common import schedule_modes
    d.update(schedule_modes(rng))
    return d


def gen_comb_callback(rng, i):
    """a done-callback on the output of a combinator (f_zip, f_sequence, f_or, f_and) that calls back into the combinator's inputs -
    cancels or completes another input - when the output is decided: the combinators run user callbacks outside their own lock, so
    the nested `handle_done` this triggers on the same thread must get in"""
    from props.common import schedule_modes
    d = dict(kind="comb-callback", idx=i, comb=rng.choice(["zip", "zip", "sequence", "or", "and"]), n=rng.choice([2, 3, 4]),
             first=rng.choice(["err", "err", "cancel", "ok"]), action=rng.choice(["cancel", "cancel", "set_result", "set_exception"]),
             threads=rng.choice([1, 2]), seed=rng.randrange(1 << 30))
    d.update(schedule_modes(rng))
    return d


def run_comb_callback(desc):
    from concurrent.futures import Future
    from props.common import run, sched_kwargs, wrapfut
    from world.sim import SimFuture, EXC
    wrapfut.install()
    st = {}

    def body(s, w):
        from more_executors.futures import f_zip, f_sequence, f_or, f_and
        ins = [SimFuture() for _ in range(desc["n"])]
        comb = desc["comb"]
        out = {"zip": lambda: f_zip(*ins), "sequence": lambda: f_sequence(ins), "or": lambda: f_or(*ins), "and": lambda: f_and(*ins)}[comb]()

        def react(f):
            # the usual reaction to "the combined future is decided": deal with the inputs that are still pending
            for g in ins[1:]:
                if g.done():
                    continue
                if desc["action"] == "cancel":
                    g.cancel()
                elif g.set_running_or_notify_cancel():
                    if desc["action"] == "set_result":
                        g.set_result(0)
                    else:
                        g.set_exception(EXC["E1"]("late"))
        out.add_done_callback(react)

        def first():
            s.yield_point("complete")
            f = ins[0]
            if desc["first"] == "cancel":
                if Future.cancel(f):
                    f.set_running_or_notify_cancel()
            elif f.set_running_or_notify_cancel():
                if desc["first"] == "err":
                    f.set_exception(EXC["E0"]("first"))
                else:
                    # a value that decides f_or (truthy) / f_and (falsy) at once; for zip/sequence nothing is decided yet
                    f.set_result(1 if comb != "and" else 0)

        def rest():
            for g in ins[1:]:
                s.yield_point("complete")
                if not g.done() and g.set_running_or_notify_cancel():
                    try:
                        g.set_result(2)
                    except Exception:
                        pass
        ts = [s.spawn(first, name="first")]
        if desc["threads"] == 2:
            ts.append(s.spawn(rest, name="rest"))
        s.block(lambda: all(t.state == "done" for t in ts), None, ("cjoin", ts[0].tid))
        if desc["threads"] == 1:
            rest()
        st["completed"] = True
        st["out_done"] = out.done()
    s, w = run(body, **sched_kwargs(desc))
    hits = []
    if not st.get("completed") and s.end_reason == "idle":
        locks = [(tid, park, role, name) for (tid, park, role, name) in s.parked() if park and park[0] == "lock"]
        hits.append(hit("C04/deadlock:combinator-callback", "a done-callback on the output of f_%s that %ss the other inputs never returns: "
                        "threads blocked for ever %r" % (desc["comb"], desc["action"], locks or s.parked())))
    return {"hits": hits, "blocks": [], "verdicts": ["OK 1 1"] if st.get("completed") else [], "schedule": list(s.chooser.record),
            "fingerprint": fingerprint(desc, s), "stats": {"family_comb_callback": 1}, "sample": None}


def run_one(desc):
    if desc.get("kind") == "comb-callback":
        return run_comb_callback(desc)
    s, ctx, out = sc.run_stack(desc, props=("C04", "C11"))
    hits = list(out.get("C04", []))
    hits += [h for h in out.get("C11", []) if h["sig"].startswith("C11/shutdown-never-returns:lock")]
    inline_base = desc["base"] in ("libsync", "simsync")
    has_retry = any(l[0] == "retry" for l in desc["layers"])
    # threads that are inside a nested submit (a submit issued from a callable / map function / done-callback) at the end
    pend = {}
    cb_sub = {}
    for e in s.log:
        if e[1] == "call" and e[2] == "nsubmit":
            pend[e[0]] = e[3]
        elif e[1] in ("ret", "raise") and e[2] == "nsubmit":
            pend.pop(e[0], None)
        elif e[1] == "call" and e[2] == "submit" and str(e[3]).startswith("nested"):
            # a submit issued by a done-callback (scenario callbacks of kind "submit")
            cb_sub[e[0]] = "done-callback %s" % e[3]
            pend[e[0]] = cb_sub[e[0]]
        elif e[1] in ("ret", "raise") and e[2] == "submit" and e[0] in cb_sub:
            cb_sub.pop(e[0], None)
            pend.pop(e[0], None)
    parked = list(s.parked()) if s.end_reason in ("idle", "limit") else []
    # the known finding needs exactly this: the RETRY SUBMIT THREAD itself is stuck on a lock inside a nested submit - it runs
    # the callable inline (synchronous delegate) inside `_submit_now` while holding the retry future's lock, and the lock it
    # waits for (an outer gate) is held by a client thread that in turn needs that future's lock (add_done_callback on it)
    retry_thread_in_nested = any(tid in pend and park and park[0] == "lock" and role == "lib" and str(name).startswith("RetryExecutor")
                                 for (tid, park, role, name) in parked)
    if inline_base and has_retry and retry_thread_in_nested:
        for h in hits:
            if h["sig"] == "C04/deadlock:lock-wait":
                h["sig"] = "C04/deadlock:nested-submit:retry-over-inline-delegate"
    # threads stuck for ever inside a nested submit: on a lock (idle-final), or re-arming a timed wait without end (virtual time
    # runs away from one fall-back time-out to the next: the run ends at the idle-jump limit)
    if s.end_reason == "limit" and not ctx.completed and getattr(s, "njumps", 0) > 4000:
        for (tid, park, role, name) in parked:
            if tid in pend and park and park[0] in ("cond", "event") and role == "lib" and str(name).startswith("ThrottleExecutor"):
                # the blocking throttle's own hand-over thread (running a done-callback that submits) waits for room that only it
                # can make.  Any OTHER thread sleeping in a blocking submit() while the queue is full is doing what block=True
                # specifies (C07); whether capacity is ever freed is then up to the program (a bounded buffer whose producer runs
                # on the consumer's only thread) - not reported here; sleeping although there IS room is C07/blocked-with-room
                hits.append(hit("C04/nested-submit-blocks:self-wait", "a submit() issued from inside %s on the hand-over thread %s waits for "
                                "ever on %s with time-out %s (layers %r, base %s)" % (pend[tid], name, park[1], park[2] if len(park) > 2 else None,
                                                                                      [l[0] for l in desc["layers"]], desc["base"])))
            elif park and park[0] == "lock":
                # blocked on a lock for good while its holder keeps re-arming a timed wait (so the run never becomes idle-final)
                sleepers = [(t2, p2, n2) for (t2, p2, _r2, n2) in parked if p2 and p2[0] in ("cond", "event") and len(p2) > 2 and p2[2]]
                whose = "unknown-lock"
                try:
                    for (nm, ref) in s.names.values():
                        if nm == park[1]:
                            lk = ref()
                            c = lockedges.classify(getattr(lk, "tag", None), ctx, desc)
                            if c is not None:
                                whose = "%s-%s" % (c[1], c[2])
                                if c[1] != "throttle" and c[2] == "gate":
                                    whose = "outer-gate"
                except Exception:
                    pass
                if tid in pend:
                    hits.append(hit("C04/nested-submit-blocks:lock-held-by-sleeper:%s" % whose, "a submit() issued from inside %s (thread %s) "
                                    "blocks for ever on lock %s (%s) while %r keep re-arming a timed wait (layers %r, base %s)"
                                    % (pend[tid], name, park[1], whose, sleepers, [l[0] for l in desc["layers"]], desc["base"])))
                elif sleepers and role != "client":
                    # (a CLIENT thread queueing behind a lock whose holder sleeps in a blocking submit() is not evidence of a library
                    # deadlock: when the holder is, say, a pool's only worker that submitted from a done-callback to a full bounded
                    # queue, the program has starved itself - nothing would move if the lock were free either.  A library or pool
                    # thread stuck behind such a lock is different: it is one of those that could have made the room.)
                    hits.append(hit("C04/deadlock:lock-held-by-sleeper:%s" % whose, "thread %s blocks for ever on lock %s (%s) while %r keep "
                                    "re-arming a timed wait (layers %r, base %s)"
                                    % (name, park[1], whose, sleepers, [l[0] for l in desc["layers"]], desc["base"])))
    # other threads queueing behind the same lock as a stuck nested submit are collateral of that finding, not a second one
    stuck_on = set(h["sig"].rsplit(":", 1)[1] for h in hits if h["sig"].startswith("C04/nested-submit-blocks:lock-held-by-sleeper:"))
    hits = [h for h in hits if not (h["sig"].startswith("C04/deadlock:lock-held-by-sleeper:") and h["sig"].rsplit(":", 1)[1] in stuck_on)]
    if s.end_reason == "idle" and not ctx.completed:
        # the lock(s) on which the retry submit thread of the known cycle is stuck: any other nested submit queueing behind the same
        # lock (say a done-callback run by the poll thread of a layer above) is collateral of that deadlock, not a second one
        known_locks = set(park[1] for (tid, park, role, name) in parked
                          if tid in pend and park and park[0] == "lock" and inline_base and has_retry and role == "lib"
                          and str(name).startswith("RetryExecutor"))
        for (tid, park, role, name) in parked:
            if tid in pend and park and park[0] == "lock":
                sig = "C04/nested-submit-blocks:%s" % desc["base"]
                if inline_base and has_retry and ((role == "lib" and str(name).startswith("RetryExecutor")) or park[1] in known_locks):
                    sig = "C04/deadlock:nested-submit:retry-over-inline-delegate"
                hits.append(hit(sig, "a submit() issued from inside %s blocks for ever on lock %s "
                                "(layers %r, base %s)" % (pend[tid], park[1], [l[0] for l in desc["layers"]], desc["base"])))
    verd = []
    bad = []
    nested_under_lock = desc.get("family") == "nested"
    try:
        # the rank discipline is the library's own: user code that re-enters the stack from under library locks (a nested
        # submit from a callable run inline by a synchronous delegate) takes outer locks while inner ones are held by design
        if not nested_under_lock:
            es = [(lockedges.classify(a, ctx, desc), lockedges.classify(b, ctx, desc)) for (a, b) in s.edges]
            bad = lockedges.check_edges(es)
    except Exception as e:      # harness problem: never a violation
        verd.append("INCONCLUSIVE 0 lock-edge check failed: %s" % str(e)[:100])
    for e in bad[:1]:
        verd.append("DIVERGE 0 [lock order] a thread holding %r acquired %r, which the model's rank order does not allow" % e)
    if not bad and not verd:
        verd.append("OK %d 1 lock edges" % len(s.edges))
    return {"hits": hits, "blocks": [], "verdicts": verd, "schedule": list(s.chooser.record),
            "fingerprint": fingerprint(desc, s),
            "stats": {"lock_edges": len(s.edges), "family_%s" % desc.get("family", "stack"): 1,
                      "nested_submits": sum(1 for e in s.log if e[1] == "call" and e[2] == "nsubmit"),
                      "lock_parks": sum(1 for e in s.log if e[1] == "park" and e[2] == "lock"),
                      "layers_%d" % len(desc["layers"]): 1},
            "sample": {"desc": {k: desc[k] for k in ("base", "layers", "clients")}, "log_len": len(s.log)} if desc.get("idx", 1) == 0 else None}


def extended_search(seed, tier, broken):
    from run import run_scenarios
    for extra in range(1, 4 if tier == "quick" else 10):
        descs = list(gen_scenarios(seed + 1000 * extra, "quick"))
        for r in run_scenarios("props.C04", descs, budget_s=100):
            for h in r.get("hits", []):
                return {"sig": h["sig"], "detail": h.get("detail"), "desc": r["desc"], "schedule": r.get("schedule")}
    return None
