"""C11 - Shutdown: submit refuses afterwards, idempotent, propagates, joins, returns.

Lean: Model/Shutdown.lean + Props/C11.lean; K10 (every executor's shutdown() and worker loop, ShutdownHelper) regenerated
from the source and decided.  Tie: single-layer worker executors (retry / poll / throttle / timeout) with racing submitters
and shutdown callers replayed through the model; random stacks of depth <= 3 with the direct shutdown monitors."""
import random

from props.common import fingerprint, hit
from props import stackcommon as sc
from proj import shutdown as proj

ID = "C11"
LEAN_MODULES = ["MoreExec.Props.C11"]
THEOREMS = [
    "MoreExec.Shutdown.C11_refuses_after",
    "MoreExec.Shutdown.C11_propagates_once",
    "MoreExec.Shutdown.C11_second_call_is_noop",
    "MoreExec.Shutdown.C11_join_means_exited",
    "MoreExec.Shutdown.C11_worker_not_stuck",
    "MoreExec.Shutdown.C11_worker_exits",
    "MoreExec.Shutdown.C11_not_stuck_stable",
    "MoreExec.Shutdown.C11_chain",
    "MoreExec.Shutdown.C11_source_facts",
]
KERNELS = ["K10"]
BUDGET = {"quick": 150, "thorough": 1500}
ASSUMPTIONS = [
    "single-threaded shutdown per scenario in the generic stacks (as the property says); the single-layer replay scenarios also race "
    "several shutdown callers",
    "`shutdown(wait=True)` returning is proved as: after flip and event.set() the worker cannot be parked on a clear event and reaches "
    "its exit by its own steps; the time the delegate's own shutdown takes is the delegate's business (DC)",
    "AsyncioExecutor / process pools: only the shutdown delegation facts (K10) are covered",
]
RULE = ("half: single-layer retry/poll/throttle/timeout executors with 1-3 client threads submitting, sleeping and calling "
        "shutdown(wait True/False) at arbitrary points (idle, queued, between retries, polling, callable running), replayed through "
        "the Lean model; half: random stacks of depth 0-3 with one shutdown caller and the direct monitors (refused afterwards, "
        "exactly-once propagation with the same arguments, worker exited on wait=True, shutdown returns); distinct = distinct "
        "(program, schedule) hash; non-trivial = shutdown() was called while work was outstanding")

WORKER_KINDS = ["retry", "poll", "throttle", "timeout"]


def gen_scenarios(seed, tier):
    rng = random.Random(seed * 67867967 + 11)
    n = 2400 if tier == "quick" else 40000
    for i in range(n):
        if i % 12 == 7:
            yield gen_racing_shutdowns(rng, i)
            continue
        if i % 2 == 0:
            kind = WORKER_KINDS[(i // 2) % 4]
            d = sc.gen_stack(rng, i, kinds=[kind], max_layers=1, ops=("submit", "submit", "sleep", "shutdown", "result", "cancel"),
                             bases=("simpool1", "simpool2", "simpool2"), tail=(10.0,), shutdown_p=0.45, nclients=(1, 2, 2, 3))
            lay = sc.gen_layer(rng, kind)
            if kind == "throttle":
                lay[1]["block"] = False
            d["layers"] = [lay]
            d["replay_model"] = "shutdown"
        else:
            d = sc.gen_stack(rng, i, ops=("submit", "submit", "sleep", "shutdown", "result", "cancel"), tail=(10.0,), shutdown_p=0.3)
            # blocking throttle with count 0 and a sync base run user code under the gate: outside this property's scope (C04/C07)
            for lay in d["layers"]:
                if lay[0] == "throttle":
                    lay[1]["block"] = False
        yield d


def gen_racing_shutdowns(rng, i):
    """two or three threads call shutdown() on the same executor at the same virtual instant (work may be outstanding, a submit may
    be in flight): exactly one of them shuts the wrapped executor down, whatever the interleaving"""
    kind = rng.choice(["map", "flat_map", "retry", "poll", "throttle", "timeout", "cancel_on_shutdown"])
    lay = sc.gen_layer(rng, kind)
    if kind == "throttle":
        lay[1]["block"] = False
    t0 = rng.choice([0.0, 0.5, 1.0, 2.0])
    wt = rng.choice([True, False])       # the same arguments from every caller: whoever wins, the delegate must see these
    clients = [[["submit", "k0", [[["sleep", rng.choice([0.0, 1.0, 3.0])], ["ret", 1]]]], ["sleep", t0], ["shutdown", wt]],
               [["sleep", t0], ["shutdown", wt]]]
    if rng.random() < 0.4:
        clients.append([["sleep", t0], ["shutdown", wt]])
    if rng.random() < 0.4:
        clients.append([["sleep", t0], ["submit", "k1", [[["ret", 2]]]]])
    d = dict(kind="stack", idx=i, base=rng.choice(["simpool1", "simpool2", "simsync"]), layers=[lay], clients=clients, tail=15.0,
             seed=rng.randrange(1 << 30), family="racing-shutdowns")
    from props.common import schedule_modes
    d.update(schedule_modes(rng))
    return d


def run_one(desc):
    s, ctx, out = sc.run_stack(desc, props=("C11", "C04"))
    hits = list(out.get("C11", []))
    if desc.get("family") == "racing-shutdowns":
        # the property's "worker has exited when shutdown(wait=True) returns" is about the call that performs the shutdown; a second
        # caller arriving while the first is still joining returns at once (ShutdownHelper says "already shut down") - by design,
        # and the property's single shutdown caller never sees it
        hits = [h for h in hits if h["sig"] != "C11/worker-alive-after-shutdown"]
    blocks, verd = [], []
    if desc.get("replay_model") == "shutdown":
        if s.end_reason == "limit":
            verd.append("INCONCLUSIVE 0 yield limit")
        else:
            try:
                blocks.append(proj.project_worker(s.log, desc))
            except proj.ProjError as e:
                verd.append("DIVERGE 0 [projection] %s" % e)
    nsd = sum(1 for e in s.log if e[1] == "call" and e[2] == "shutdown")
    return {"hits": hits, "blocks": blocks, "verdicts": verd, "schedule": list(s.chooser.record),
            "fingerprint": fingerprint(desc, s) if nsd > 1 else None,
            "stats": {"shutdown_calls": nsd, "submits_refused": sum(1 for e in s.log if e[1] == "raise" and e[2] == "submit"),
                      "delegate_shutdowns": sum(1 for e in s.log if e[1] == "dshutdown"),
                      "layers_%d" % len(desc["layers"]): 1,
                      "kind_%s" % (desc["layers"][0][0] if desc["layers"] else "none"): 1},
            "sample": {"desc": {k: desc[k] for k in ("base", "layers", "clients")}, "log_len": len(s.log)} if desc.get("idx", 1) == 0 else None}


def extended_search(seed, tier, broken):
    from run import run_scenarios
    for extra in range(1, 4 if tier == "quick" else 10):
        descs = list(gen_scenarios(seed + 1000 * extra, "quick"))
        for r in run_scenarios("props.C11", descs, budget_s=100):
            for h in r.get("hits", []):
                return {"sig": h["sig"], "detail": h.get("detail"), "desc": r["desc"], "schedule": r.get("schedule")}
    return None
