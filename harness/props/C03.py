"""C03 - No future is lost: once its underlying work is finished, the future finishes.

Lean: Model/WakeProto.lean (the worker wake-up protocol shared by the four worker loops) + Props/C03.lean; instances:
C07_no_idle_capacity (throttle), C08_prompt (poll), C09_sleep_invariant / C09_at_deadline (timeout),
C11_worker_not_stuck (shutdown), C03_cancelled_delegate_ends (MapFuture family), C03_retry_no_lost_future_partial.
Tie: RetryExecutor executions replayed through BOTH the Retry model and the WakeProto model (event set/clear/wait with the
exact time-out, idle jumps); random stacks of every layer type with the lost-future / livelock monitors in virtual time;
combinators whose inputs are cancelled by someone else."""
import random

from props.common import run, fingerprint, sched_kwargs, schedule_modes, hit, core, wrapfut
from props import stackcommon as sc
from props import C05
from proj import retry as rproj
from world.sim import SimFuture, EXC, outcome

ID = "C03"
LEAN_MODULES = ["MoreExec.Props.C03", "MoreExec.Props.C05"]
THEOREMS = [
    "MoreExec.WakeProto.C03_sleep_invariant",
    "MoreExec.WakeProto.C03_no_overshoot",
    "MoreExec.Retry.C03_retry_no_lost_future",
    "MoreExec.Retry.C03_retry_no_lost_future_quiescent",
    "MoreExec.Retry.C03_mark_pays",
    "MoreExec.MapFut.C03_cancelled_delegate_ends",
    "MoreExec.Throttle.C07_no_idle_capacity",
    "MoreExec.Poll.C08_prompt",
    "MoreExec.Timeout.C09_sleep_invariant",
    "MoreExec.Timeout.C09_at_deadline",
    "MoreExec.Shutdown.C11_worker_not_stuck",
    "MoreExec.Retry.C05_next_job_spec",
]
KERNELS = ["K2", "K3", "K4"]
BUDGET = {"quick": 150, "thorough": 1500}
ASSUMPTIONS = [
    "liveness is stated as safety: a worker asleep on a clear event with no producer mid-way has nothing it should be doing, and "
    "virtual time never passes a due time while it sleeps; that the worker then runs is the scheduler's fairness (not modelled)",
    "the retry no-lost-future theorem is unconditional; that an owed `_me_delegate_cancelled()` is eventually paid is scheduler "
    "fairness plus C03_mark_pays (it is enabled as soon as the future's lock is free, and makes the future terminal)",
    "static configuration (the property excepts dynamic throttle counts)",
]
RULE = ("one third: single-layer RetryExecutor programs replayed through the Retry model and the wake-up protocol model (every "
        "event.wait time-out compared with the model's earliest due time); one third: random stacks of 0-3 layers of every type, no "
        "shutdown, every callable and poll eventually finishing, monitor: pending at quiescence / yield-limit livelock; one third: "
        "f_map / f_flat_map / f_zip / f_or / f_and / f_nocancel / f_proxy / f_timeout over inputs that are cancelled by someone else; "
        "distinct = distinct (program, schedule) hash")


WAKE_SIGS = {
    "throttle": ("C07/idle-capacity", "C07/blocked-with-room"),
    "poll": ("C08/late-poll", "C08/late-poll-notify"),
    "timeout": ("C09/late:attempt-after-deadline", "C09/late:idle-jump-passes-deadline", "C09/missed", "C09/stuck:"),
}


def gen_scenarios(seed, tier):
    rng = random.Random(seed * 15487469 + 3)
    n = 2400 if tier == "quick" else 40000
    gen5 = C05.gen_scenarios(seed + 77, tier)
    from props import C07, C08, C09
    others = {"throttle": C07.gen_scenarios(seed + 78, tier), "poll": C08.gen_scenarios(seed + 79, tier),
              "timeout": C09.gen_scenarios(seed + 80, tier)}
    # micro-scenarios: one derived future, its input cancelled by someone else while a client cancels the derived future itself
    # (two threads, a few dozen yield points: cheap, so many schedules - window ("hold") ones for two thirds of them)
    rng2 = random.Random(seed * 7368787 + 33)
    for i in range(n // 2):
        d = gen_foreign(rng2, 500000 + i)
        d.update(form=rng2.choice(["map", "flat_map", "timeout", "map"]), how=rng2.choice(["cancel", "cancel", "cancel", "ok", "err"]),
                 racing_cancel=True, mode=rng2.choice(["hold", "hold", "bnd", "random"]), p_switch=rng2.choice([0.0, 0.05, 0.3]),
                 trace_lines=True)
        yield d
    for i in range(n):
        # the other three worker loops: the single-layer scenarios of C07 / C08 / C09 with their "a sleeping worker has nothing to
        # do / time never passes a due time" monitors and their replays (clause: no lost wake-up in ANY worker loop)
        for kind in ("throttle", "poll", "timeout"):
            if i % 4 == 1:
                try:
                    d = dict(next(others[kind]))
                except StopIteration:
                    continue
                d["c03_wake"] = kind
                d["family"] = "wake-" + kind
                yield d
        m = i % 3
        if m == 0:
            d = next(gen5)
            d = dict(d)
            d["idx"] = i
            if d["base"] == "simsync":
                d["base"] = "simpool1"
            d["family"] = "retry-wake"
            yield d
        elif m == 1:
            d = sc.gen_stack(rng, i, ops=("submit", "cancel", "result", "addcb", "sleep"), tail=(60.0,), shutdown_p=0.0)
            for lay in d["layers"]:
                if lay[0] == "throttle":
                    lay[1]["block"] = False
                    if isinstance(lay[1].get("count"), list):
                        lay[1]["count"] = [c for c in lay[1]["count"] if c not in (0, "raise")] or [1]
                    if lay[1].get("count") == 0:
                        lay[1]["count"] = 1
                if lay[0] == "poll":
                    lay[1]["poll_script"] = [x for x in lay[1]["poll_script"] if x != "none"] or ["yield"]
            if d["base"] == "simsync":
                for ops in d["clients"]:
                    for op in ops:
                        if op[0] == "addcb" and op[2] == "submit":
                            op[2] = "plain"
            # nested retry layers multiply attempts and back-offs: keep the whole schedule well inside the observation window
            nretry = sum(1 for lay in d["layers"] if lay[0] == "retry")
            if nretry >= 2:
                for lay in d["layers"]:
                    if lay[0] == "retry":
                        if lay[1].get("custom"):
                            lay[1]["policy_script"] = lay[1]["policy_script"][:1] + ["stop"]
                        else:
                            lay[1]["max_attempts"] = min(lay[1].get("max_attempts", 3), 2)
                d["tail"] = 120.0
            d["family"] = "stack"
            yield d
        else:
            yield gen_foreign(rng, i)


def gen_foreign(rng, i):
    d = dict(kind="foreign", idx=i, family="foreign", form=rng.choice(["map", "flat_map", "zip", "or", "and", "nocancel", "proxy", "timeout", "sequence"]),
             how=rng.choice(["cancel", "cancel", "ok", "err"]), second=rng.choice(["cancel", "ok", "never"]),
             racing_cancel=rng.random() < 0.5, seed=rng.randrange(1 << 30))
    d.update(schedule_modes(rng))
    if d["racing_cancel"] and rng.random() < 0.5:
        d.update(mode="hold", p_switch=rng.choice([0.0, 0.02, 0.1]), trace_lines=True)
    return d


def run_foreign(desc):
    from concurrent.futures import Future
    from more_executors.futures import f_map, f_flat_map, f_zip, f_or, f_and, f_nocancel, f_proxy, f_timeout, f_sequence, f_return
    wrapfut.install()
    st = {}

    def body(s, w):
        a, b = SimFuture(), SimFuture()
        form = desc["form"]
        if form == "map":
            out = f_map(a, lambda x: x)
        elif form == "flat_map":
            out = f_flat_map(a, lambda x: f_return(x))
        elif form == "zip":
            out = f_zip(a, b)
        elif form == "or":
            out = f_or(a, b)
        elif form == "and":
            out = f_and(a, b)
        elif form == "nocancel":
            out = f_nocancel(a)
        elif form == "proxy":
            out = f_proxy(a)
        elif form == "timeout":
            out = f_timeout(a, 50.0)
        else:
            out = f_sequence([a, b])
        st["out"] = out
        two = form in ("zip", "or", "and", "sequence")

        def fin(f, how, v):
            s.yield_point("complete")
            if how == "cancel":
                if Future.cancel(f):
                    f.set_running_or_notify_cancel()
            elif how == "ok":
                if f.set_running_or_notify_cancel():
                    f.set_result(v)
            elif how == "err":
                if f.set_running_or_notify_cancel():
                    f.set_exception(EXC["E1"]("x"))
        ts = [s.spawn(lambda: fin(a, desc["how"], 1), name="ca")]
        if two:
            ts.append(s.spawn(lambda: fin(b, desc["second"], 0 if desc["form"] == "and" else 2), name="cb"))
        if desc.get("racing_cancel"):
            # a client cancels the derived future while its input is being cancelled / completed by someone else: whatever
            # cancel() answers, the derived future must not be left pending once its input is terminal
            def client_cancel():
                s.yield_point("api")
                st["cancel_result"] = out.cancel()
            ts.append(s.spawn(client_cancel, name="cc"))
        for ct in ts:
            if ct.state != "done":
                s.block(lambda ct=ct: ct.state == "done", None, ("cjoin", ct.tid))
        s.sleep(5.0)
        st["final"] = ("pending",) if not Future.done(out) else ("done",)
        st["two"] = two
    s, w = run(body, **sched_kwargs(desc))
    hits = []
    if "final" in st:
        # expected to be terminal: single-input forms always; two-input forms when both finished, or when the decision is forced
        how, second, form = desc["how"], desc["second"], desc["form"]
        must = True
        if st["two"] and second == "never":
            if form in ("zip", "sequence"):
                must = how in ("cancel", "err")
            elif form == "or":
                must = how == "ok"          # a truthy first input decides f_or
            elif form == "and":
                must = how in ("cancel", "err")
        if must and st["final"][0] == "pending":
            hits.append(hit("C03/lost-future:f_%s" % form, "f_%s output still pending after its input(s) finished (%s%s)"
                            % (form, how, ("/" + second) if st["two"] else "")))
    return {"hits": hits, "blocks": [], "verdicts": [], "schedule": list(s.chooser.record), "fingerprint": fingerprint(desc, s),
            "stats": {"foreign_scenarios": 1, "foreign_%s" % desc["form"]: 1}, "sample": None}


def run_wake(desc):
    from props import C07, C08, C09
    kind = desc["c03_wake"]
    mod = {"throttle": C07, "poll": C08, "timeout": C09}[kind]
    r = mod.run_one(desc)
    keep = []
    for h in r.get("hits", []):
        if any(h["sig"].startswith(p) for p in WAKE_SIGS[kind]):
            keep.append(hit("C03/worker-asleep-with-work:%s:%s" % (kind, h["sig"].split("/", 1)[1]), h.get("detail")))
    r["hits"] = keep
    r["stats"] = {"family_wake-%s" % kind: 1}
    r["sample"] = None
    return r


def run_one(desc):
    fam = desc.get("family")
    if fam == "foreign":
        return run_foreign(desc)
    if desc.get("c03_wake"):
        return run_wake(desc)
    s, ctx, out = sc.run_stack(desc, props=("C03", "C18"))
    hits = list(out.get("C03", []))
    hits += [h for h in out.get("C18", []) if h["sig"].startswith("C18/thread-died")]
    blocks, verd = [], []
    if fam == "retry-wake":
        hits += [h for h in C05.monitors(s, ctx, desc) if h["sig"] in ("C05/late-retry", "C05/not-resolved")]
        if s.end_reason == "limit":
            verd.append("INCONCLUSIVE 0 yield limit")
        else:
            try:
                blocks.append(rproj.project(s.log, desc, wake=True))
                blocks.append(rproj.project(s.log, desc))
            except rproj.ProjError as e:
                verd.append("DIVERGE 0 [projection] %s" % e)
    return {"hits": hits, "blocks": blocks, "verdicts": verd, "schedule": list(s.chooser.record),
            "fingerprint": fingerprint(desc, s),
            "stats": {"family_%s" % fam: 1, "idle_jumps": sum(1 for e in s.log if e[1] == "idle_jump"),
                      "event_waits": sum(1 for e in s.log if e[1] == "wait"),
                      "futures": len(ctx.futs), "layers_%d" % len(desc["layers"]): 1},
            "sample": {"desc": {k: desc[k] for k in ("base", "layers", "clients")}, "log_len": len(s.log)} if desc.get("idx", 1) == 0 else None}


def extended_search(seed, tier, broken):
    from run import run_scenarios
    for extra in range(1, 4 if tier == "quick" else 10):
        descs = list(gen_scenarios(seed + 1000 * extra, "quick"))
        for r in run_scenarios("props.C03", descs, budget_s=100):
            for h in r.get("hits", []):
                return {"sig": h["sig"], "detail": h.get("detail"), "desc": r["desc"], "schedule": r.get("schedule")}
    return None
