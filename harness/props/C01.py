"""C01 - Composed executors deliver each callable's own outcome, exactly once.

Lean: Model/Stack.lean is the reference semantics `eval` ("sequential evaluation of the same layers", any depth, any
order; the retry layer calls the regenerated kernel K1), Props/C01.lean proves over it, by induction on the layer list:
a callable exception delivered at the top is the very object raised by one of this submission's own invocations, every
other exception comes from a user function of one of the stack's own layers, the callable runs at least once and exactly
once without a retry layer, throttle / timeout / cancel-on-shutdown layers are transparent.

Tie: random stacks of depth 0-6 in random order over pooled and inline delegates, several concurrent submissions with
distinct scripts, run under the deterministic scheduler; for every submission the real future's outcome (value, or the
ORIGIN of the exception object: which invocation of which function created it) and the number of invocations of the
callable are compared with `eval` evaluated by the Lean driver on the same layers and script.  Independent monitors:
every invocation received exactly the submitted positional and keyword arguments; no value or exception of another
submission is delivered; no future is cancelled or left pending."""
import random

import leanval
from props.common import fingerprint, hit
from props import stackcommon as sc

ID = "C01"
LEAN_MODULES = ["MoreExec.Props.C01"]
THEOREMS = [
    "MoreExec.Stack.C01_exception_is_own",
    "MoreExec.Stack.C01_invoked",
    "MoreExec.Stack.C01_exactly_once_without_retry",
    "MoreExec.Stack.C01_transparent_layers",
    "MoreExec.Stack.C01_retry_delivers_declined_attempt",
    "MoreExec.Stack.C01_retry_continues",
    "MoreExec.Stack.eval_good",
    "MoreExec.Retry.shouldRetry_spec",
]
KERNELS = ["K1"]
BUDGET = {"quick": 170, "thorough": 1500}
ASSUMPTIONS = [
    "`Stack.eval` is a sequential reference semantics, not a model of the threads: that the concurrent stack computes the same "
    "function is established by the differential runs (sampled stacks x schedules), not by a theorem; the per-layer concurrent "
    "models (C02, C05, C07, C08, C10) carry the per-layer theorems",
    "scenario scope: no client cancels, no shutdown before completion, timeouts that cannot fire, user functions with a fixed "
    "behaviour per layer, poll functions that eventually yield for every descriptor; arguments are compared as logged values",
    "exception identity is observed as object identity in the Python process (harness names objects by id while they are alive)",
]
RULE = ("random stacks (depth 0-6, any order of map / flat_map / retry / poll / throttle / timeout / cancel_on_shutdown) x 1-3 client "
        "threads x 1-4 submissions each with their own outcome script x schedule; distinct = distinct (program, schedule) hash; "
        "non-trivial = at least one layer and one submission resolved")

CLS = {"E0": 0, "E1": 1, "E2": 2, "BE": 3}


def gen_c01_layer(rng, kind):
    if kind == "map":
        fn = rng.random() < 0.85
        return ["map", {"fn": fn, "errfn": rng.random() < 0.45,
                        "script": [[rng.choice([["retarg"], ["retarg"], ["retarg"], ["raise", "E1"]])]],
                        "escript": [[rng.choice([["reraise"], ["ret", 77], ["ret", -5], ["raise", "E2"]])]]}]
    if kind == "flat_map":
        lay = ["flat_map", {"script": [[rng.choice([["retarg"], ["retarg"], ["retarg"], ["raise", "E1"]])]]}]
        if rng.random() < 0.4:
            # an error function (it returns a future, which is flattened), and a mapping function that reports its failure as an
            # already failed future rather than by raising
            lay[1].update(errfn=True, escript=[[rng.choice([["reraise"], ["ret", 77], ["raise", "E2"]])]], fail_as_future=rng.random() < 0.6)
        return lay
    if kind == "retry":
        if rng.random() < 0.35:
            ps = [rng.choice(["retry:1.0", "retry:0.0", "retry:2.0", "stop", "raise", "retry:raise"]) for _ in range(rng.randint(1, 3))] + ["stop"]
            return ["retry", {"custom": True, "policy_script": ps}]
        return ["retry", {"max_attempts": rng.choice([1, 2, 3, 4]), "sleep": rng.choice([0.0, 1.0, 1.0, 2.0]),
                          "exponent": rng.choice([1.0, 2.0, 3.0]), "max_sleep": rng.choice([120, 3.0]),
                          "exception_base": rng.choice([["E0"], ["E0"], ["E0", "E2"], ["E1"], ["E2"]])}]
    if kind == "poll":
        pre = [rng.choice(["none", 1.0, "none"]) for _ in range(rng.randint(0, 2))]
        return ["poll", {"poll_script": pre + [rng.choice(["yield", "yield", "yield", "err"])], "interval": rng.choice([1.0, 5.0]),
                         "cancel_fn": rng.random() < 0.3, "cancel_script": [[["ret", True]]]}]
    if kind == "throttle":
        lay = sc.gen_layer(rng, "throttle")
        return lay
    if kind == "timeout":
        return ["timeout", {"timeout": 5000.0}]
    return ["cancel_on_shutdown", {}]


def gen_scenarios(seed, tier):
    rng = random.Random(seed * 15485863 + 1)
    n = 9000 if tier == "quick" else 120000
    kinds = ["map", "map", "flat_map", "retry", "retry", "poll", "throttle", "timeout", "cancel_on_shutdown"]
    for i in range(n):
        if i % 15 == 14:
            yield gen_poll_raise(rng, i)
            continue
        depth = rng.choice([0, 1, 2, 2, 3, 3, 4, 4, 5, 6])
        layers = []
        nretry = npoll = 0
        while len(layers) < depth:
            k = rng.choice(kinds)
            if k == "retry":
                if nretry >= 2:
                    continue
                nretry += 1
            if k == "poll":
                if npoll >= 2:
                    continue
                npoll += 1
            layers.append(gen_c01_layer(rng, k))
        if nretry >= 2:
            for lay in layers:
                if lay[0] == "retry":
                    if lay[1].get("custom"):
                        lay[1]["policy_script"] = lay[1]["policy_script"][:2] + ["stop"]
                    else:
                        lay[1]["max_attempts"] = min(lay[1]["max_attempts"], 3)
        base = rng.choice(["simsync", "simpool1", "simpool2", "simpool2", "libsync"])
        # known finding (C04/deadlock:retry-over-blocking-throttle): a retry layer above a BLOCKING throttle can deadlock under queue
        # pressure; that shape is explored and reported by C04's check, not here
        seen_block = False
        for lay in layers:
            if lay[0] == "throttle" and lay[1].get("block"):
                seen_block = True
            if lay[0] == "retry" and seen_block:
                for l2 in layers:
                    if l2[0] == "throttle":
                        l2[1]["block"] = False
                break
        nc = rng.choice([1, 2, 2, 3])
        clients = []
        kidx = 0
        for c in range(nc):
            ops = []
            mine = []
            for _ in range(rng.randint(1, 4 if depth < 5 else 3)):
                r = rng.random()
                if r < 0.7 or not mine:
                    key = "k%d" % kidx
                    nent = rng.randint(1, 4 if nretry else 2)
                    script = []
                    for j in range(nent):
                        beh = []
                        if rng.random() < 0.4:
                            beh.append(["sleep", rng.choice([0.5, 1.0, 2.0])])
                        if rng.random() < (0.75 if j == nent - 1 else 0.3):
                            beh.append(["ret", 1000 * (kidx + 1) + j])
                        else:
                            # over a pool also an outcome that is a BaseException but not an Exception (the callable only: user
                            # functions of the layers raising such a thing is outside every guard of the library, by design)
                            beh.append(["raise", rng.choice(["E0", "E0", "E1", "E2"] + (["BE"] if str(base).startswith("simpool") else []))])
                        script.append(beh)
                    kw = {"tag": "t%d" % kidx} if rng.random() < 0.3 else {}
                    ops.append(["submit", key, script, kw])
                    mine.append(key)
                    kidx += 1
                elif r < 0.85:
                    ops.append(["addcb", rng.choice(mine), "plain"])
                else:
                    ops.append(["sleep", rng.choice([0.5, 1.0, 2.0])])
            for key in mine:
                ops.append(["result", key, None])
            clients.append(ops)
        if any(st == ["raise", "BE"] for ops in clients for op in ops if op[0] == "submit" for beh in op[2] for st in beh):
            # an error function that re-raises what it is given would itself raise a BaseException: user code outside every guard
            for lay in layers:
                if lay[0] in ("map", "flat_map"):
                    lay[1]["errfn"] = False
        d = dict(kind="stack", idx=i, base=base, layers=layers, clients=clients,
                 tail=1.0, seed=rng.randrange(1 << 30), max_yields=200000)
        d.update(sc.schedule_modes(rng))
        yield d


def enc_layers(layers):
    """desc layers are innermost first; the oracle wants outermost first"""
    out = []
    for li, (kind, p) in enumerate(layers):
        if kind == "map":
            fn = "ident"
            if p.get("fn", True) and p["script"][0][0][0] == "raise":
                fn = "raise"
            ef = "none"
            if p.get("errfn"):
                st = p["escript"][0][0]
                ef = {"reraise": "reraise", "raise": "raise"}.get(st[0]) or str(st[1])
            out.append("map:%d:%s:%s" % (li, fn, ef))
        elif kind == "flat_map":
            ef = "none"
            if p.get("errfn"):
                st = p["escript"][0][0]
                ef = {"reraise": "reraise", "raise": "raise"}.get(st[0]) or str(st[1])
            out.append("fmap:%d:%s:%s" % (li, "raise" if p["script"][0][0][0] == "raise" else "ident", ef))
        elif kind == "retry":
            if p.get("custom"):
                st = []
                for e in p["policy_script"]:
                    st.append("r" if (e.startswith("retry") and e != "retry:raise") else ("x" if e in ("raise", "retry:raise") else "s"))
                out.append("retrys:%s" % ",".join(st))
            else:
                out.append("retryx:%d:%s" % (p["max_attempts"], ",".join(str(CLS[b]) for b in p["exception_base"])))
        elif kind == "poll":
            out.append("poll:%d:%s" % (li, "f" if p["poll_script"][-1] == "err" else "y"))
        elif kind == "throttle":
            out.append("thr")
        elif kind == "timeout":
            out.append("tmo")
        else:
            out.append("cos")
    return list(reversed(out))


def enc_script(script):
    out = []
    for beh in script:
        last = beh[-1]
        out.append("r%d" % last[1] if last[0] == "ret" else "e%d" % CLS[last[1]])
    return out


def show_val(v):
    if isinstance(v, tuple) and len(v) == 2 and v[0] == "polled":
        return "P(%s)" % show_val(v[1])
    if isinstance(v, bool) or not isinstance(v, int):
        return "?%r" % (v,)
    return str(v)


def origins(s):
    """exception name -> origin string, from the FIRST event that mentions the object being raised / yielded"""
    org = {}
    for e in s.log:
        if e[1] == "uraise":
            name, idx, xn = e[2], e[3], e[4]
            if xn in org:
                continue
            cls = xn.split(":")[0]
            if name.startswith("mapfn") and name[5:].isdigit():
                org[xn] = "mapfn:%s" % name[5:]
            elif name.startswith("fmapfn"):
                org[xn] = "mapfn:%s" % name[6:]
            elif name.startswith("errfn"):
                org[xn] = "errfn:%s" % name[5:]
            elif name.startswith("k") and name[1:].isdigit():
                org[xn] = "callable:%d:%d|%s" % (idx, CLS.get(cls, 9), name)
            else:
                org[xn] = "other:%s" % name
        elif e[1] == "pollerr":
            org.setdefault(e[4], "pollerr:%s" % e[2])
    return org


def gen_poll_raise(rng, i):
    """a poll function that RAISES on some invocations while further submissions are still on their way to the polling stage: the
    exception belongs to the futures that invocation was shown; a future registered while it ran is shown to the next invocation and
    gets its own outcome (no reference evaluation here: which invocation sees which future is up to the schedule - the direct
    monitor decides)"""
    from props.common import schedule_modes
    nfail = rng.randint(1, 3)
    lay = ["poll", {"poll_script": [rng.choice(["raise", "raise", "none"]) for _ in range(nfail)] + ["yield"],
                    "interval": rng.choice([0.5, 1.0]), "cancel_fn": False}]
    layers = [lay]
    if rng.random() < 0.4:
        layers.append(["map", {"fn": True, "errfn": False, "script": [[["retarg"]]], "escript": [[["reraise"]]]}])
    clients = []
    k = 0
    for c in range(rng.choice([2, 2, 3])):
        ops = []
        for _ in range(rng.randint(1, 3)):
            ops.append(["submit", "k%d" % k, [[["sleep", rng.choice([0.0, 0.0, 0.5, 1.0, 1.5])], ["ret", 1000 + k]]]])
            k += 1
            if rng.random() < 0.4:
                ops.append(["sleep", rng.choice([0.5, 1.0])])
        clients.append(ops)
    d = dict(kind="stack", idx=i, base=rng.choice(["simpool2", "simpool2", "simsync"]), layers=layers, clients=clients, tail=30.0,
             seed=rng.randrange(1 << 30), family="poll-raise")
    d.update(schedule_modes(rng))
    d["trace_lines"] = True
    return d


def run_one(desc):
    if desc.get("family") in ("chain", "zip-race"):
        return _chain_as_own(desc)
    if desc.get("family") == "poll-raise":
        from monitors import generic
        s, ctx, out = sc.run_stack(desc, props=("C03",))
        hits = generic.mon_poll_fault_attribution(s, ctx, desc, "C01")
        done = bool(ctx.completed)
        return {"hits": hits, "blocks": [], "verdicts": ["OK 1 1"] if done and not hits else [], "schedule": list(s.chooser.record),
                "fingerprint": fingerprint(desc, s) if done else None,
                "stats": {"family_poll_raise": 1, "poll_raises": sum(1 for e in s.log if e[1] == "pollraise")}, "sample": None}
    s, ctx, out = sc.run_stack(desc, props=("C03",))
    hits = []
    stats = {"depth_%d" % len(desc["layers"]): 1}
    for k, _p in desc["layers"]:
        stats["layer_" + k] = stats.get("layer_" + k, 0) + 1
    # every state change of a library future in the stack must have been made under that future's own lock (the locking protocol
    # of Model/MeFuture.lean, on which "a callback registered while the future completes is not lost" rests)
    from props.common import protocol_verdicts
    verdicts = list(protocol_verdicts(s))
    sample = None
    if s.end_reason == "limit" or not ctx.completed:
        hits += [h for h in out.get("C03", []) if h["sig"] == "C03/livelock"]
        stats["incomplete"] = 1
        if s.end_reason == "idle" and not ctx.completed:
            waiting = [e[3] for e in s.log if e[1] == "call" and e[2] == "result"]
            hits.append(hit("C01/outcome-dropped", "every thread is parked for ever and a client is still waiting in result() "
                            "(futures waited for: %r): a submission's outcome was never delivered; layers %r, base %s; parked: %r"
                            % (sorted(set(waiting))[-4:], enc_layers(desc["layers"]), desc["base"], s.parked()[:6])))
        if not hits:
            verdicts.append("INCONCLUSIVE 0 scenario did not complete: %s" % s.end_reason)
        return {"hits": hits, "blocks": [], "verdicts": verdicts, "schedule": list(s.chooser.record), "fingerprint": None, "stats": stats, "sample": None}
    def vname(v):
        return "%s:%s" % (type(v).__name__, s.name_of(v, "x")) if isinstance(v, BaseException) else s.name_of(v, "f")
    org = origins(s)
    lay = enc_layers(desc["layers"])
    lines, subs = [], []
    for ops in desc["clients"]:
        for op in ops:
            if op[0] != "submit":
                continue
            key, script, kw = op[1], op[2], (op[3] if len(op) > 3 else {})
            f = ctx.futs.get(key)
            if f is None:
                res = [r for (tid, o, k2, r) in ctx.api if o == "submit" and k2 == key]
                hits.append(hit("C01/submit-raised", "submit(%s) raised %r" % (key, res[0][1] if res else None)))
                continue
            nm = vname(f)
            info = ctx.info[nm]
            fn = info["fn"]
            # arguments: exactly the submitted positional and keyword arguments, at every invocation
            for (idx, args, kwargs, tid, t) in fn.calls:
                if tuple(args) != (key,) or dict(kwargs) != dict(kw):
                    hits.append(hit("C01/arguments", "invocation %d of the callable of %s received args=%r kwargs=%r, submitted (%r,) %r; layers %r"
                                    % (idx, key, args, kwargs, key, kw, lay)))
            if not f.done():
                hits.append(hit("C01/pending", "future of %s still pending although result() returned; layers %r" % (key, lay)))
                continue
            if f.cancelled():
                hits.append(hit("C01/cancelled", "future of %s is cancelled although nobody cancelled it; layers %r" % (key, lay)))
                continue
            e = f.exception()
            if e is not None:
                xn = vname(e)
                o = org.get(xn, "unknown:%s" % xn)
                if o.startswith("callable:"):
                    o, owner = o.split("|")
                    if owner != key:
                        hits.append(hit("C01/foreign-exception", "future of %s failed with the exception raised by the callable of %s; layers %r" % (key, owner, lay)))
                got = "err %s %d" % (o, fn.count)
            else:
                v = f.result()
                base = v
                while isinstance(base, tuple) and len(base) == 2 and base[0] == "polled":
                    base = base[1]
                if isinstance(base, int) and base >= 1000 and base // 1000 != int(key[1:]) + 1:
                    hits.append(hit("C01/foreign-result", "future of %s resolved with %r, a value returned by the callable of k%d; layers %r"
                                    % (key, v, base // 1000 - 1, lay)))
                got = "ok %s %d" % (show_val(v), fn.count)
            lines.append("stack.eval %s | %s" % (" ".join(lay), " ".join(enc_script(script))))
            subs.append((key, got))
            stats["submissions"] = stats.get("submissions", 0) + 1
            stats["outcome_" + got.split()[0] + ("_" + got.split()[1].split(":")[0] if got.startswith("err") else "")] = \
                stats.get("outcome_" + got.split()[0] + ("_" + got.split()[1].split(":")[0] if got.startswith("err") else ""), 0) + 1
            if fn.count > 1:
                stats["reinvoked"] = stats.get("reinvoked", 0) + 1
    if lines:
        ans = leanval.validate_blocks([["S oracle"] + lines + ["."]])[0]
        if not ans.startswith("ORACLE "):
            verdicts.append("INCONCLUSIVE 0 oracle answered %r" % ans[:200])
        else:
            exp = ans[len("ORACLE "):].split(";")
            bad = 0
            for (key, got), want, line in zip(subs, exp, lines):
                if got != want:
                    bad += 1
                    kind = "count" if got.rsplit(" ", 1)[0] == want.rsplit(" ", 1)[0] else ("identity" if got.split()[0] == want.split()[0] == "err" else "outcome")
                    hits.append(hit("C01/differs-from-sequential:%s" % kind,
                                    "submission %s: the stack delivered (%s) [outcome, invocations]; sequential evaluation of the same layers "
                                    "gives (%s); oracle line: %s" % (key, got, want, line)))
            verdicts.append("OK %d 1 stack.eval agreed on %d submissions" % (len(lines), len(lines) - bad) if not bad
                            else "INCONCLUSIVE 0 see monitor hits")
            if desc.get("idx", 1) == 0:
                sample = {"desc": {k: desc[k] for k in ("base", "layers", "clients")}, "oracle": lines[:2], "observed": [g for _, g in subs[:2]]}
    nontrivial = bool(desc["layers"]) and bool(lines)
    return {"hits": hits, "blocks": [], "verdicts": verdicts, "schedule": list(s.chooser.record),
            "fingerprint": fingerprint(desc, s) if nontrivial else None, "stats": stats, "sample": sample}


def _chain_as_own(desc):
    """a two-stage chain / zip-output scenario of C13 (callback registration racing the completion), reported under this property"""
    from props import C13
    r = C13.run_zip_race(desc) if desc.get("family") == "zip-race" else C13.run_chain(desc)
    for h in r["hits"]:
        h["sig"] = h["sig"].replace("C13/", "C01/", 1)
    r["verdicts"] = []
    return r


def extended_search(seed, tier, broken):
    from run import run_scenarios
    from props import C13
    h = C13.pair_race_search(90 if tier == "quick" else 600)
    if h is not None:
        h = dict(h)
        h["sig"] = h["sig"].replace("C13/", "C01/", 1)
        return h
    for extra in range(1, 4 if tier == "quick" else 10):
        descs = list(gen_scenarios(seed + 1000 * extra, "quick"))
        for r in run_scenarios("props.C01", descs, budget_s=120):
            for h in r.get("hits", []):
                return {"sig": h["sig"], "detail": h.get("detail"), "desc": r["desc"], "schedule": r.get("schedule")}
    return None
