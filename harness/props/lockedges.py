"""Lock-order correspondence (C04): classify the lock instances of a run into the lock classes of Model/LockOrder.lean and
evaluate the model's `allowed` on every observed (held -> acquired) edge."""
import leanval


def classify(tag, ctx, desc):
    """tag = (file, function, class of self at the creation site, id of the owning executor or None) -> (depth, kind, role)"""
    if tag is None:
        return None
    fn, func, cls, owner = tag
    n = len(desc["layers"])
    ids = {id(e): k for k, e in enumerate(ctx.execs)}     # 0 = base, n = outermost
    if cls == "ShutdownHelper":
        role = "gate"
    elif fn == "common.py":
        role = "fut"
    elif cls == "AtomicInt":
        role = "counter"
    elif fn == "event.py":
        role = "registry"
    elif fn.startswith("futures"):
        role = "comb"
    else:
        role = "exec"
    if owner in ids:
        li = ids[owner]
        depth = n - li
        kind = "sync" if li == 0 else desc["layers"][li - 1][0]
    else:
        depth = n + 1
        kind = "other"
    return (depth, kind, role)


def check_edges(edge_sets):
    """edge_sets: iterable of ((d,k,r),(d,k,r)).  Returns list of edges the model does not allow."""
    edges = sorted(set(e for e in edge_sets if e[0] is not None and e[1] is not None))
    if not edges:
        return []
    lines = ["lockorder.allowed %d %s %s %d %s %s" % (a + b) for (a, b) in edges]
    out = leanval.validate_blocks([["S oracle"] + lines + ["."]])[0]
    res = out[len("ORACLE "):].split(";")
    return [e for e, r in zip(edges, res) if r != "true"]
