"""C08 - Poll: one poll at a time, exact descriptor set, first yield wins, prompt polls, cancel function.

Lean: Model/Poll.lean + Props/C08.lean.  Tie: histories of the real PollExecutor under dsched replayed through the
model's step function (hand-written model: replay correspondence); direct monitors on the same runs."""
import random

from props.common import fingerprint, hit
from props import stackcommon as sc
from proj import poll as proj

ID = "C08"
LEAN_MODULES = ["MoreExec.Props.C08"]
THEOREMS = [
    "MoreExec.Poll.C08_descriptor_set_exact",
    "MoreExec.Poll.C08_single_poll",
    "MoreExec.Poll.C08_first_yield_wins",
    "MoreExec.Poll.C08_outcome_unique",
    "MoreExec.Poll.C08_raise_fails_shown",
    "MoreExec.Poll.C08_raise_step",
    "MoreExec.Poll.C08_prompt",
    "MoreExec.Poll.C08_cancel_fn_argument",
    "MoreExec.Poll.C08_cancel_fn_veto",
    "MoreExec.Poll.C08_source_facts",
]
KERNELS = ["K17"]
BUDGET = {"quick": 150, "thorough": 1500}
ASSUMPTIONS = [
    "AP1: `_poll_descriptors` is rebound/appended only under `PollExecutor._lock`; each outermost acquisition is one section "
    "(the unlocked read in `_run_cancel_fn` sees one of the rebound lists: list reads are atomic in CPython)",
    "a PollFuture is cancelled before registration only when `delegate.cancel()` succeeded (then the delegate never registers)",
    "the poll function is user code: it may yield for any subset of the descriptors it was given, in any order",
    "the delegate obeys the delegate contract DC (SimPool/SimSync)",
]
RULE = ("seeded single-layer PollExecutor programs (1-4 polled futures; delegates finishing/failing at various virtual times; "
        "poll-function scripts yield / yield_exception / nothing / return interval / raise; optional cancel function answering "
        "True/False/raising; cancel() and notify() from client threads) x random/PCT/boundary-biased line-level schedules; "
        "distinct = distinct (program, schedule) hash; non-trivial = the poll function was called with at least one descriptor")


def gen_scenarios(seed, tier):
    rng = random.Random(seed * 32452843 + 8)
    n = 2000 if tier == "quick" else 40000
    for i in range(n):
        d = sc.gen_stack(rng, i, kinds=["poll"], max_layers=1, ops=("submit", "cancel", "sleep", "result", "addcb"),
                         bases=("simpool1", "simpool2", "simpool2", "simsync"), tail=(40.0,), shutdown_p=0.0)
        d["layers"] = [sc.gen_layer(rng, "poll")]
        # unique delegate results, so that descriptors identify their future
        u = 0
        for ops in d["clients"]:
            for op in ops:
                if op[0] == "submit":
                    for beh in op[2]:
                        if beh[-1][0] == "ret":
                            beh[-1] = ["ret", 1000 + u]
                            u += 1
        if i % 9 == 8:
            d = gen_cancel_vs_resolve(rng, i, d)
        if rng.random() < 0.3:
            # a notify() somewhere
            c = rng.randrange(len(d["clients"]))
            d["clients"][c].insert(rng.randint(0, len(d["clients"][c])), ["notify"])
        yield d


def gen_cancel_vs_resolve(rng, i, d):
    """several futures in the polling stage; at one virtual instant the poll function resolves the OLDEST one (its resolving call
    deregisters it) while a client cancels a younger one: the cancel function must be consulted for the younger one - with ITS
    delegate result - whatever the deregistration does to the list meanwhile"""
    d = dict(d)
    n = rng.choice([2, 3, 3])
    t = rng.choice([2.0, 3.0])
    lay = ["poll", {"poll_script": [["at", t, "yield1"] for _ in range(14)] + ["yield"], "interval": 1.0, "cancel_fn": True,
                    "cancel_script": [[["ret", rng.choice([False, False, True])]]]}]
    c0 = [["submit", "k%d" % j, [[["ret", 1000 + j]]]] for j in range(n)]
    victim = "k%d" % rng.randrange(1, n)
    clients = [c0, [["sleep", t], ["cancel", victim]]]
    if rng.random() < 0.3:
        clients.append([["sleep", t], ["cancel", "k%d" % rng.randrange(1, n)]])
    d.update(layers=[lay], clients=clients, base=rng.choice(["simpool2", "simsync"]), tail=20.0, family="cancel-vs-resolve")
    if rng.random() < 0.5:
        d.update(mode="hold", p_switch=rng.choice([0.0, 0.02, 0.1]), trace_lines=True)
    else:
        d["trace_lines"] = True
    return d


def monitors(s, ctx, desc):
    hits = []
    p = desc["layers"][0][1]
    worker = None
    for e in s.log:
        if e[1] == "spawn" and str(e[3]).startswith("PollExecutor"):
            worker = e[2]
            break
    # 1. never concurrently
    pf = ctx.poll._poll_fn if getattr(ctx, "poll", None) is not None else None
    if pf is not None and pf.max_active > 1:
        hits.append(hit("C08/concurrent-poll", "the poll function was active %d times at once" % pf.max_active))
    if pf is not None:
        tids = set(c[3] for c in pf.calls)
        if len(tids) > 1:
            hits.append(hit("C08/poll-on-several-threads", "poll function called from threads %r" % sorted(tids)))
    # 2. descriptor sets: reconstruct eligibility from observable events
    #    eligible(f) from the return of the delegate's completing call (dcompleted, success) until the resolving call of f returns
    dres = {}          # delegate name -> result repr
    dkey = {}
    fut_of_key = {}
    for e in s.log:
        if e[1] == "dsubmit":
            dkey[e[3]] = e[4]
        elif e[1] == "ret" and e[2] == "submit":
            fut_of_key[e[4]] = e[3]
    must = {}          # key -> result: registration certainly complete (completing call AND the subscription have returned)
    may = {}           # key -> result: registration may have happened (completing call begun and subscription begun)
    gone_sure = set()  # key: resolving call returned
    gone_may = set()   # key: a resolving call has begun
    key_of_f = {v: k for k, v in fut_of_key.items()}
    X = proj.ctor_objects(s.log, "L0")[0]
    expect_snap = 0
    need, allowed = [], []
    attached = set()   # delegate futures on which the library's add_done_callback has returned
    attaching = set()
    ok_res = {}        # delegate name -> result (success only), from the start of its completing call
    completed = set()
    resolver = {}
    must_idx = {}        # key -> log index from which the future is certainly registered for polling
    for i, e in enumerate(s.log):
        t, k = e[0], e[1]
        if k == "daddcb>" and e[2] in dkey:
            attaching.add(e[2])
            if e[2] in ok_res:
                may[dkey[e[2]]] = ok_res[e[2]]
        elif k == "daddcb<" and e[2] in dkey:
            attached.add(e[2])
            if e[2] in completed and e[2] in ok_res:
                must[dkey[e[2]]] = ok_res[e[2]]
                must_idx.setdefault(dkey[e[2]], i)
        elif k == "dcomplete" and e[2] in dkey and str(e[3]).startswith("ok:"):
            ok_res[e[2]] = e[3][3:]
            if e[2] in attaching:
                may[dkey[e[2]]] = e[3][3:]
        elif k == "dcompleted" and e[2] in dkey:
            completed.add(e[2])
            if e[2] in attached and e[2] in ok_res:
                must[dkey[e[2]]] = ok_res[e[2]]
                must_idx.setdefault(dkey[e[2]], i)
        elif k in ("fset>", "fcancel>") and e[2] in key_of_f:
            gone_may.add(key_of_f[e[2]])
        elif k == "fset<" and e[2] in key_of_f:
            # a yield is the resolving call only if it won: a future that ends cancelled was resolved by a cancel(), whose
            # return (fcancel<) is what counts
            fin = ctx.final.get(e[2])
            if fin is not None and fin[0] in ("ok", "err"):
                gone_sure.add(key_of_f[e[2]])
        elif k == "fstate" and e[3] == "cancel" and e[2] in key_of_f:
            resolver[e[2]] = t          # the cancel() that performs the state change is the RESOLVING call
        elif k == "fcancel<" and e[2] in key_of_f:
            # a cancel() that returns True on a future somebody else has just cancelled (and who is still on his way to the
            # deregistration inside HIS cancel call) is not the resolving call the property speaks of
            if e[3] is True and resolver.get(e[2], t) == t:
                gone_sure.add(key_of_f[e[2]])
        elif k in ("tstart", "clear") and t == worker:
            expect_snap = 1
        elif k == "acq" and t == worker and e[2] == X and expect_snap == 1:
            # the poll round begins: `_run_poll_fn` commits to its argument in this section
            need = sorted(must[kk] for kk in must if kk not in gone_may)
            expect_snap = 2
        elif k == "rel" and t == worker and e[2] == X and expect_snap == 2:
            allowed = sorted(may[kk] for kk in may if kk not in gone_sure)
            expect_snap = 0
        elif k == "pollfn" and t == worker:
            shown = e[3]           # vname of the list of results
            items = [x for x in shown.strip("[]").split(",") if x != ""]
            # every certainly-eligible future is shown ...
            pool = list(items)
            for r in need:
                if r in pool:
                    pool.remove(r)
                else:
                    hits.append(hit("C08/descriptor-missing", "poll call %d was given %s but a future whose delegate returned %s "
                                    "is eligible (log %d)" % (e[2], shown, r, i)))
                    break
            # ... and nothing is shown that is not (possibly) eligible, nor twice
            pool = list(allowed)
            for r in items:
                if r in pool:
                    pool.remove(r)
                else:
                    hits.append(hit("C08/descriptor-extra", "poll call %d was given %s; %s is duplicated or belongs to a future "
                                    "not in the polling stage (log %d)" % (e[2], shown, r, i)))
                    break
    # 3. first yield wins: the scripted poll function yields ('polled', result) / pollerr#i; compare with final outcomes
    if ctx.completed and pf is not None:
        first = {}
        script = p.get("poll_script", ["yield"])
        for (i, results, now, tid) in pf.calls:
            ent = script[min(i, len(script) - 1)]
            for r in results:
                if ent in ("yield", "err", "raise") and r not in first:
                    first[r] = (ent, i)
        for fname, inf in ctx.info.items():
            fin = ctx.final.get(fname)
            if fin is None or fin[0] in ("pending", "cancelled"):
                continue
            last = inf["script"][-1][-1]
            if last[0] != "ret":
                continue
            r = last[1]
            if r in first and fin[0] == "ok":
                if first[r][0] != "yield" or fin[1] != ("polled", r):
                    hits.append(hit("C08/not-first-yield", "%s finished ok:%r but the first yield for it was %r" % (inf["key"], fin[1], first[r])))
            elif r in first and fin[0] == "err":
                want = {"err": "E1", "raise": "E2"}.get(first[r][0])
                if want is None or type(fin[1]).__name__ != want:
                    # several futures may share a result value; only flag when no entry explains it
                    pass
    # 3b. a raising poll function fails exactly the futures it was shown
    if ctx.completed and pf is not None:
        shown_by_call = {c[0]: [str(r) for r in c[1]] for c in pf.calls}
        for fname, inf in ctx.info.items():
            fin = ctx.final.get(fname)
            if fin is None or fin[0] != "err" or type(fin[1]).__name__ != "E2":
                continue
            msg = str(fin[1].args[0]) if fin[1].args else ""
            if not msg.startswith("poll#"):
                continue
            ci = int(msg[5:])
            last = inf["script"][-1][-1]
            if last[0] == "ret" and str(last[1]) not in shown_by_call.get(ci, []):
                hits.append(hit("C08/failed-not-shown", "%s was failed by the exception of poll call %d, which was shown %r (its result is %r)"
                                % (inf["key"], ci, shown_by_call.get(ci), last[1])))
    # 4. cancel function: only with a delegate result, veto honoured
    cf_calls = [e for e in s.log if e[1] == "ucall" and str(e[2]).startswith("cancelfn")]
    for e in cf_calls:
        arg = e[4]
        if not any(("[%s]" % v) == arg for v in may.values()):
            hits.append(hit("C08/cancel-fn-argument", "cancel function called with %s, which is no delegate result" % arg))
    # veto: a cancel() during which the cancel function answered False / raised must return False
    cur = {}
    for e in s.log:
        t, k = e[0], e[1]
        if k == "call" and e[2] == "cancel":
            cur[t] = {"veto": False}
        elif k == "uret" and str(e[2]).startswith("cancelfn") and t in cur and e[4] != "True":
            cur[t]["veto"] = True
        elif k == "uraise" and str(e[2]).startswith("cancelfn") and t in cur:
            cur[t]["veto"] = True
        elif k == "ret" and e[2] == "cancel" and t in cur:
            if cur[t]["veto"] and e[4] is True:
                hits.append(hit("C08/veto-ignored", "cancel() returned True although the cancel function vetoed"))
            cur.pop(t)
    # a cancel() that RESOLVES a future which was registered for polling before the call began has found its descriptor (only the
    # resolving call deregisters it) and therefore consulted the cancel function - on the calling thread, during the call
    if p.get("cancel_fn"):
        curc = {}
        for i, e in enumerate(s.log):
            t, k = e[0], e[1]
            if k == "call" and e[2] == "cancel" and e[3] in key_of_f:
                kk = key_of_f[e[3]]
                curc[t] = {"f": e[3], "reg": must_idx.get(kk, len(s.log)) < i, "asked": False, "won": False, "i": i}
            elif k == "ucall" and str(e[2]).startswith("cancelfn") and t in curc:
                curc[t]["asked"] = True
            elif k == "fstate" and e[3] == "cancel" and t in curc and e[2] == curc[t]["f"]:
                curc[t]["won"] = True
            elif k in ("ret", "raise") and e[2] == "cancel" and t in curc:
                c = curc.pop(t)
                if k == "ret" and e[4] is True and c["reg"] and c["won"] and not c["asked"]:
                    hits.append(hit("C08/cancel-fn-bypassed", "cancel() of %s (log %d) resolved a future that was in the polling stage and returned "
                                    "True without consulting the cancel function" % (c["f"], c["i"])))
                    break
    # 5. prompt: no idle jump while the poll thread sleeps on its event and an eligible future has not been shown / a notify is pending
    shown_keys = set()
    pending_notify = False
    wparked = False
    for i, e in enumerate(s.log):
        t, k = e[0], e[1]
        if k == "park" and t == worker:
            wparked = e[2] == "event"
        elif k == "woke" and t == worker:
            wparked = False
        elif k == "ret" and e[2] == "notify":
            pending_notify = True
        elif k == "pollfn" and t == worker:
            pending_notify = False
            shown_keys = set(kk for kk in must)     # approximation refreshed at each call
        elif k == "idle_jump" and wparked:
            newly = [kk for kk in must if kk not in shown_keys and kk not in gone_may]
            # (must / gone_may are final sets here; use event-time reconstruction below instead)
    hits += prompt_monitor(s, worker, dkey, key_of_f)
    return hits


def prompt_monitor(s, worker, dkey, key_of_f):
    hits = []
    eligible = {}      # key -> log index of the return of the completing call
    shown = set()
    gone = set()
    notify_at = None
    wparked = False
    for i, e in enumerate(s.log):
        t, k = e[0], e[1]
        if k == "dcompleted" and e[2] in dkey:
            # success only
            eligible.setdefault(dkey[e[2]], i)
        elif k == "dcomplete" and e[2] in dkey and not str(e[3]).startswith("ok:"):
            gone.add(dkey[e[2]])
        elif k in ("fset>", "fcancel>") and e[2] in key_of_f:
            gone.add(key_of_f[e[2]])
        elif k == "call" and e[2] == "notify":
            notify_at = i
        elif k == "pollfn" and t == worker:
            shown |= set(eligible)
            notify_at = None
        elif k == "park" and t == worker:
            wparked = e[2] == "event"
        elif k == "woke" and t == worker:
            wparked = False
        elif k == "idle_jump" and wparked:
            late = [kk for kk in eligible if kk not in shown and kk not in gone]
            if late:
                hits.append(hit("C08/late-poll", "time passes (to t=%s) with the poll thread asleep although %r became eligible and has "
                                "not been polled (log %d)" % (e[2], late, i)))
                break
            if notify_at is not None:
                hits.append(hit("C08/late-poll-notify", "time passes (to t=%s) with the poll thread asleep after notify() (log %d)" % (e[2], i)))
                break
    return hits


def run_one(desc):
    s, ctx, out = sc.run_stack(desc, props=("C18",))
    hits = monitors(s, ctx, desc)
    hits += [h for h in out.get("C18", []) if h["sig"].startswith("C18/thread-died")]
    blocks, verd = [], []
    if s.end_reason == "limit":
        verd.append("INCONCLUSIVE 0 yield limit")
    else:
        try:
            blocks.append(proj.project(s.log, desc))
        except proj.ProjError as e:
            verd.append("DIVERGE 0 [projection] %s" % e)
    npoll = sum(1 for e in s.log if e[1] == "pollfn" and e[3] != "[]")
    return {"hits": hits, "blocks": blocks, "verdicts": verd, "schedule": list(s.chooser.record),
            "fingerprint": fingerprint(desc, s) if npoll else None,
            "stats": {"poll_calls": sum(1 for e in s.log if e[1] == "pollfn"), "poll_calls_nonempty": npoll,
                      "poll_raises": sum(1 for e in s.log if e[1] == "pollraise"),
                      "cancel_fn_calls": sum(1 for e in s.log if e[1] == "ucall" and str(e[2]).startswith("cancelfn")),
                      "cancel_calls": sum(1 for e in s.log if e[1] == "call" and e[2] == "cancel"),
                      "notify_calls": sum(1 for e in s.log if e[1] == "call" and e[2] == "notify")},
            "sample": {"desc": {k: desc[k] for k in ("base", "layers", "clients")}, "log_len": len(s.log)} if desc.get("idx", 1) == 0 else None}


def extended_search(seed, tier, broken):
    from run import run_scenarios
    for extra in range(1, 4 if tier == "quick" else 10):
        descs = list(gen_scenarios(seed + 1000 * extra, "quick"))
        for r in run_scenarios("props.C08", descs, budget_s=100):
            for h in r.get("hits", []):
                return {"sig": h["sig"], "detail": h.get("detail"), "desc": r["desc"], "schedule": r.get("schedule")}
    return None
