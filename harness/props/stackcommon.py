"""Generic stack scenarios shared by the cross-cutting properties (C01-C04, C06, C11, C18)."""
import random

from props.common import run, fingerprint, sched_kwargs, schedule_modes, hit, core, wrapfut
from scen import stack
from monitors import generic

EXCS = ["E0", "E1", "E2"]


def gen_script(rng, max_attempts=3, sleepy=True):
    n = rng.randint(1, max_attempts)
    out = []
    for i in range(n):
        beh = []
        if sleepy and rng.random() < 0.5:
            beh.append(["sleep", rng.choice([0.5, 1.0, 1.0, 2.0, 3.0])])
        r = rng.random()
        if i == n - 1 and r < 0.7:
            beh.append(["ret", rng.randrange(100)])
        elif r < 0.5:
            beh.append(["raise", rng.choice(EXCS)])
        else:
            beh.append(["ret", rng.randrange(100)])
        out.append(beh)
    return out


def gen_layer(rng, kind):
    if kind == "map":
        return ["map", {"fn": rng.random() < 0.8, "errfn": rng.random() < 0.3,
                        "script": [[rng.choice([["retarg"], ["retarg"], ["raise", "E1"]])]],
                        "escript": [[rng.choice([["reraise"], ["ret", 77], ["raise", "E2"]])]]}]
    if kind == "flat_map":
        return ["flat_map", {"script": [[rng.choice([["retarg"], ["retarg"], ["raise", "E1"]])]]}]
    if kind == "retry":
        if rng.random() < 0.3:
            ps = [rng.choice(["retry:1.0", "retry:0.0", "retry:2.0", "stop", "stop", "raise", "retry:raise"]) for _ in range(rng.randint(1, 3))] + ["stop"]
            return ["retry", {"custom": True, "policy_script": ps}]
        return ["retry", {"max_attempts": rng.choice([1, 2, 3, 4]), "sleep": rng.choice([0.0, 1.0, 1.0, 2.0]),
                          "exponent": rng.choice([1.0, 2.0, 2.0, 3.0]), "max_sleep": rng.choice([120, 3.0]),
                          "exception_base": rng.choice([["E0"], ["E0"], ["E0", "E2"], ["E1"]])}]
    if kind == "poll":
        return ["poll", {"poll_script": [rng.choice(["yield", "yield", "none", 1.0, "raise", "err"]) for _ in range(rng.randint(1, 3))] + ["yield"],
                         "interval": rng.choice([1.0, 5.0]), "cancel_fn": rng.random() < 0.4,
                         "cancel_script": [[rng.choice([["ret", True], ["ret", False], ["raise", "E2"]])]]}]
    if kind == "throttle":
        r = rng.random()
        if r < 0.6:
            cnt = rng.choice([1, 1, 2, 3])
        elif r < 0.7:
            cnt = None
        else:
            cnt = [rng.choice([1, 2, None, 0])] + [rng.choice([1, 2, None, "raise", 0]) for _ in range(rng.randint(0, 2))] + [rng.choice([1, 2])]
        block = rng.random() < 0.2
        if block and isinstance(cnt, list):
            cnt = [c for c in cnt if c != 0] or [1]     # count 0 in blocking mode blocks submit() for ever, by definition
            if cnt[0] == "raise":
                cnt = [1] + cnt
        return ["throttle", {"count": cnt, "block": block}]
    if kind == "timeout":
        return ["timeout", {"timeout": rng.choice([1.0, 2.0, 3.0, 10.0])}]
    return ["cancel_on_shutdown", {}]


def gen_stack(rng, idx, kinds=None, max_layers=3, ops=("submit", "cancel", "result", "addcb", "shutdown", "sleep"),
              bases=("simsync", "simpool1", "simpool2", "simpool2"), nclients=(1, 2, 2, 3), tail=(30.0,), shutdown_p=0.08):
    kinds = kinds or stack.LAYER_KINDS
    nl = rng.randint(0 if len(kinds) > 1 else 1, max_layers)
    layers = [gen_layer(rng, rng.choice(kinds)) for _ in range(nl)]
    has_retry = any(l[0] == "retry" for l in layers)
    keys = 0
    clients = []
    nc = rng.choice(list(nclients))
    shutter = rng.randrange(nc)      # (single-threaded) shutdown: only one client thread ever calls shutdown()
    for c in range(nc):
        o = []
        for _ in range(rng.randint(1, 4)):
            r = rng.random()
            if r < 0.5 or keys == 0:
                o.append(["submit", "k%d" % keys, gen_script(rng, 4 if has_retry else 1)])
                keys += 1
            elif r < 0.65 and "cancel" in ops:
                o.append(["cancel", "k%d" % rng.randrange(keys)])
            elif r < 0.75 and "result" in ops:
                o.append(["result", "k%d" % rng.randrange(keys), rng.choice([None, 0.5, 2.0])])
            elif r < 0.87 and "addcb" in ops:
                o.append(["addcb", "k%d" % rng.randrange(keys), rng.choice(["plain", "plain", "raise", "submit"])])
            elif r < 0.87 + shutdown_p and "shutdown" in ops and c == shutter:
                o.append(["shutdown", rng.choice([True, True, False])])
            else:
                o.append(["sleep", rng.choice([0.5, 1.0, 2.0])])
        clients.append(o)
    d = dict(kind="stack", idx=idx, base=rng.choice(list(bases)), layers=layers, clients=clients, tail=rng.choice(list(tail)),
             seed=rng.randrange(1 << 30))
    d.update(schedule_modes(rng))
    return d


MONITORS = {
    "C02": [generic.mon_c02],
    "C03": [generic.mon_c03],
    "C04": [generic.mon_c04],
    "C06": [generic.mon_c06],
    "C11": [generic.mon_c11, generic.mon_c11_stuck, generic.mon_c11_slept],
    "C18": [generic.mon_c18, generic.mon_poll_fault_attribution],
}


def run_stack(desc, props=None):
    """Run one stack scenario; returns (s, ctx, hits_by_property)."""
    wrapfut.install()
    from world import wrappol
    wrappol.install()
    ctx = stack.Ctx()
    kw = sched_kwargs(desc)
    kw["max_yields"] = desc.get("max_yields", 120000)
    s, w = run(stack.body_for(desc, ctx), **kw)
    if s.end_reason == "limit" and (desc.get("mode") == "pct" or desc.get("p_switch", 0.2) < 0.15) and not desc.get("replay"):
        # an unfair schedule can starve the thread a spinning waiter depends on: confirm with a fair random schedule
        ctx = stack.Ctx()
        kw2 = dict(kw)
        kw2.update(mode="random", p_switch=0.5)
        s, w = run(stack.body_for(desc, ctx), **kw2)
    out = {}
    for pid, mons in MONITORS.items():
        if props is not None and pid not in props:
            continue
        hs = []
        for m in mons:
            try:
                hs.extend(m(s, ctx, desc))
            except Exception as e:  # monitor bug: report as harness error, never as a violation
                hs.append(hit("harness/monitor-error:%s" % m.__name__, "%s: %s" % (type(e).__name__, e)))
        out[pid] = hs
    if s.end_reason == "limit":
        out.setdefault("C03", []).append(hit("C03/livelock", "scenario hit the yield limit (spinning without progress?)"))
    return s, ctx, out
