"""C09 - Timeouts fire exactly once, never early, and at the deadline.

Lean: MoreExec/Model/Timeout.lean (+ regenerated kernel K3), theorems in MoreExec/Props/C09.lean.
Tie: K3 regenerated from timeout.py; trace correspondence of the real TimeoutExecutor under dsched."""
import random

from props.common import run, fingerprint, sched_kwargs, schedule_modes, hit, core, wrapfut
from world.sim import SimPool, SimSync, vname, outcome, oname
from proj import timeout as ptimeout
from proj.common import TICKS

ID = "C09"
LEAN_MODULES = ["MoreExec.Props.C09"]
THEOREMS = [
    "MoreExec.Timeout.C09_never_early",
    "MoreExec.Timeout.C09_exactly_once",
    "MoreExec.Timeout.C09_at_deadline",
    "MoreExec.Timeout.C09_sleep_invariant",
    "MoreExec.Timeout.C09_outcome_kept",
    "MoreExec.Timeout.C09_overdue_not_done",
    "MoreExec.Timeout.K3_partition_spec",
    "MoreExec.Timeout.K3_overdue_strict",
    "MoreExec.Timeout.K3_model_agrees",
]
KERNELS = ["K3"]
BUDGET = {"quick": 120, "thorough": 1200}
TICK = 1.0 / TICKS
ASSUMPTIONS = [
    "futures handed out by TimeoutExecutor are abstracted to (done, linked, hasCb) bits in this model; their full protocol is C02",
    "virtual clock: time advances only by idle jumps and zero-wait ticks; OS scheduling latency is not modelled",
    "executor kept referenced for the whole scenario (collection is C12)",
]
RULE = ("seeded client programs (1-3 threads: submit with default/per-call timeouts, cancel, sleep, shutdown) over SimPool/SimSync, "
        "callables sleeping virtual time; schedules: random/PCT with line-level pre-emption; distinct = distinct (program, schedule) hash; "
        "non-trivial = the timeout thread issued at least one wait and one future was submitted")


def gen_scenarios(seed, tier):
    rng = random.Random(seed * 7919 + 9)
    n = 2400 if tier == "quick" else 40000
    for i in range(n):
        yield gen_one(rng, i)
    # directed family `slow-veto` (own PRNG, appended so that the main stream is unchanged): an overdue job whose cancel() takes
    # (virtual) time inside the delegate and then REFUSES, and a second job whose deadline falls after that attempt has ended;
    # nothing else wakes the thread in between, so the sleep computed after the attempt must be measured from a fresh clock reading
    rng2 = random.Random(seed * 7129 + 5)
    for j in range(40 if tier == "quick" else 600):
        ta = rng2.choice([0.5, 1.0, 1.0, 2.0])
        delay = rng2.choice([1.0, 2.0, 2.0, 3.0])
        tb = ta + delay + rng2.choice([0.5, 1.0, 2.0])
        ops = [("submit", "k0", ta, [("sleep", 30.0), ("ret", 0)]), ("submit", "k1", tb, [("sleep", 30.0), ("ret", 1)])]
        if rng2.random() < 0.3:
            ops.append(("submit", "k2", tb + delay + rng2.choice([0.5, 1.5]), [("sleep", 30.0), ("ret", 2)]))   # after k1's slow attempt has ended
        d = dict(kind="timeout", family="slow-veto", idx=n + j, delegate="pool3", default_timeout=rng2.choice([20.0, 25.0]),
                 clients=[ops], tail=tb + 2 * delay + 8.0, slow_cancel=delay, seed=rng2.randrange(1 << 30))
        d.update(schedule_modes(rng2))
        yield d


def gen_one(rng, i):
    nclients = rng.choice([1, 1, 2, 2, 3])
    keys = 0
    clients = []
    for c in range(nclients):
        ops = []
        for _ in range(rng.randint(1, 4)):
            r = rng.random()
            if r < 0.55:
                dur = rng.choice([0, 0.5, 1.0, 1.0, 2.0, 3.0, 4.0, 6.0])
                beh = [("sleep", dur)] if dur else []
                beh.append(rng.choice([("ret", keys), ("ret", keys), ("raise", "E0")]))
                T = rng.choice([None, None, 1.0, 2.0, 2.0, 3.0, 0.5, 0.0])
                ops.append(("submit", "k%d" % keys, T, beh))
                keys += 1
            elif r < 0.7 and keys:
                ops.append(("cancel", "k%d" % rng.randrange(keys)))
            elif r < 0.9:
                ops.append(("sleep", rng.choice([0.5, 1.0, 1.0, 2.0, 3.0])))
            elif r < 0.95:
                ops.append(("shutdown", rng.choice([True, False])))
            else:
                ops.append(("result", "k%d" % rng.randrange(max(keys, 1)), rng.choice([0.5, 1.0, None])))
        clients.append(ops)
    d = dict(kind="timeout", idx=i, delegate=rng.choice(["pool1", "pool2", "pool2", "pool3", "sync"]),
             default_timeout=rng.choice([1.0, 2.0, 2.0, 3.0]), clients=clients, tail=rng.choice([0.0, 8.0, 8.0]),
             seed=rng.randrange(1 << 30))
    d.update(schedule_modes(rng))
    return d


class Ctx(object):
    pass


def body_for(desc, ctx):
    from more_executors.timeout import TimeoutExecutor

    def body(s, w):
        dl = desc["delegate"]
        delegate = SimSync() if dl == "sync" else SimPool(int(dl[4:]))
        if desc.get("slow_cancel"):
            pool_submit = delegate.submit

            def slow_submit(fn, *a, **k):
                f = pool_submit(fn, *a, **k)
                plain_cancel = f.cancel

                def cancel():
                    r = plain_cancel()
                    if not r:
                        s.sleep(desc["slow_cancel"])       # a refusing cancel hook that takes its time (user code below the layer)
                    return r
                f.cancel = cancel
                return f
            delegate.submit = slow_submit
        ex = TimeoutExecutor(delegate, desc["default_timeout"])
        ctx.ex = ex
        ctx.futs = {}
        ctx.info = {}
        ctx.shutdown_called = [None]

        def do_shutdown(wait):
            s.yield_point("api")
            s.ev("call", "shutdown", wait)
            if ctx.shutdown_called[0] is None:
                ctx.shutdown_called[0] = s.now
            ex.shutdown(wait)
            s.ev("ret", "shutdown")

        def client(ops):
            def go():
                for op in ops:
                    if op[0] == "submit":
                        _, key, T, beh = op
                        fn = w.fn(key, [list(map(tuple, beh))])
                        Teff = desc["default_timeout"] if T is None else T
                        s.yield_point("api")
                        s.ev("call", "submit", Teff)
                        t_call = s.now
                        try:
                            f = ex.submit(fn) if T is None else ex.submit_timeout(T, fn)
                        except RuntimeError as e:
                            s.ev("raise", "submit", type(e).__name__, str(e)[:50])
                            continue
                        nm = vname(f)
                        s.ev("ret", "submit", nm)
                        ctx.futs[key] = f
                        ctx.info[nm] = dict(key=key, T=Teff, t_call=t_call, t_ret=s.now, beh=beh)
                    elif op[0] == "cancel":
                        f = ctx.futs.get(op[1])
                        if f is None:
                            continue
                        s.yield_point("api")
                        s.ev("call", "cancel", vname(f))
                        r = f.cancel()
                        s.ev("ret", "cancel", vname(f), r)
                    elif op[0] == "sleep":
                        s.sleep(op[1])
                    elif op[0] == "result":
                        f = ctx.futs.get(op[1])
                        if f is None:
                            continue
                        try:
                            f.result(op[2])
                        except core.Abort:
                            raise
                        except BaseException:
                            pass
                    elif op[0] == "shutdown":
                        do_shutdown(op[1])
            return go

        cts = [s.spawn(client(ops), name="c%d" % i) for i, ops in enumerate(desc["clients"])]
        for ct in cts:
            if ct.state != "done":
                s.block(lambda ct=ct: ct.state == "done", None, ("cjoin", ct.tid))
        if desc.get("tail"):
            s.sleep(desc["tail"])
        ctx.t_end = s.now
        ctx.final = {vname(f): oname(outcome(f)) for f in ctx.futs.values()}
        do_shutdown(True)
        delegate.shutdown(True)
    return body


def monitors(s, ctx, desc):
    hits = []
    log = s.log
    worker = None
    for e in log:
        if e[1] == "spawn" and str(e[3]).startswith("TimeoutExecutor"):
            worker = e[2]
    now = 0.0
    info = getattr(ctx, "info", {})
    attempts = {}      # fname -> [times]
    done_at = {}       # fname -> time it became done
    shut_at = None
    open_set = {}      # tid -> stack of fnames in fset/fcancel
    for e in log:
        t, k = e[0], e[1]
        if k in ("idle_jump", "tick"):
            new = e[2]
            if k == "idle_jump":
                for nm, inf in info.items():
                    dl = inf["t_ret"] + inf["T"]
                    if nm not in done_at and nm not in attempts and (shut_at is None) and new > dl + 4 * TICK and inf["t_ret"] <= now:
                        hits.append(hit("C09/late:idle-jump-passes-deadline",
                                        "idle jump %r -> %r passes deadline %r of pending %s" % (now, new, dl, nm)))
            now = new
        elif k == "fcancel>":
            if t == worker:
                attempts.setdefault(e[2], []).append(now)
        elif k == "fcancel<":
            if e[3] is True and e[2] not in done_at:
                done_at[e[2]] = now
        elif k == "fset<":
            if e[2] not in done_at:
                done_at[e[2]] = now
        elif k == "call" and e[2] == "shutdown" and shut_at is None:
            shut_at = now
        elif k == "tdied":
            hits.append(hit("C09/worker-died:%s" % e[2], "thread %d died: %s at %s" % (t, e[2], e[3])))
    for nm, ts in attempts.items():
        inf = info.get(nm)
        if inf is None:
            continue
        if len(ts) > 1:
            hits.append(hit("C09/twice", "%s received %d cancel attempts from the timeout thread at %r" % (nm, len(ts), ts)))
        if ts[0] < inf["t_call"] + inf["T"]:
            hits.append(hit("C09/early", "%s cancelled at %r before deadline %r" % (nm, ts[0], inf["t_call"] + inf["T"])))
        if ts[0] > inf["t_ret"] + inf["T"] + 4 * TICK:
            hits.append(hit("C09/late:attempt-after-deadline", "%s cancel attempt at %r, deadline %r" % (nm, ts[0], inf["t_ret"] + inf["T"])))
    t_end = getattr(ctx, "t_end", None)
    if s.end_reason == "done" and t_end is not None:
        for nm, inf in info.items():
            dl = inf["t_ret"] + inf["T"]
            d_at = done_at.get(nm)
            still_pending_after = (d_at is None or d_at > dl + 4 * TICK)
            alive_until = shut_at if shut_at is not None else t_end
            if still_pending_after and alive_until > dl + 4 * TICK and t_end > dl + 4 * TICK and nm not in attempts:
                hits.append(hit("C09/missed", "%s not done at deadline %r yet never received a cancel attempt (end %r)" % (nm, dl, t_end)))
            # outcome kept
            fin = getattr(ctx, "final", {}).get(nm)
            if fin is not None and d_at is not None and d_at < inf["t_call"] + inf["T"] and nm not in attempts:
                pass
    if s.end_reason not in ("done",):
        hits.append(hit("C09/stuck:%s" % s.end_reason, "scenario ended with %s; parked: %r" % (s.end_reason, s.parked())))
    for p in (getattr(s, "errors", []) or []):
        hits.append(hit("harness", p))
    return hits


def run_one(desc):
    wrapfut.install()
    ctx = Ctx()
    s, w = run(body_for(desc, ctx), **sched_kwargs(desc))
    hits = monitors(s, ctx, desc)
    nwait = sum(1 for e in s.log if e[1] == "wait")
    nsub = len(getattr(ctx, "info", {}))
    stats = {"yields": s.nyields, "switches": s.nswitch, "submits": nsub, "worker_waits": nwait,
             "cancel_attempts": sum(1 for e in s.log if e[1] == "fcancel>"),
             "idle_jumps": sum(1 for e in s.log if e[1] == "idle_jump"), "ticks": sum(1 for e in s.log if e[1] == "tick"),
             "end_" + str(s.end_reason): 1, "mode_" + desc.get("mode", "random") + ("_lines" if desc.get("trace_lines", True) else "_prims"): 1}
    block = ptimeout.project(s.log)
    if desc.get("family") == "slow-veto":
        # monitors only: in Model/Timeout a cancel attempt takes no time, so the candidate-set validator has no run for these logs
        stats["family_slow_veto"] = 1
    r = {"hits": hits, "blocks": [] if desc.get("family") == "slow-veto" else [block], "stats": stats, "schedule": list(s.chooser.record),
         "fingerprint": fingerprint(desc, s) if (nwait and nsub) else None}
    if desc.get("idx", 1) == 0:
        r["sample"] = {"desc": desc, "log_head": [" ".join(map(str, e)) for e in s.log if e[1] != "q"][:40]}
    return r


def extra_checks(seed, tier):
    import kdiff
    return kdiff.k3_diff(seed, 300 if tier == "quick" else 5000)


def extended_search(seed, tier, broken):
    """More seeds, monitors only."""
    rng = random.Random(seed * 104729 + 17)
    for i in range(1500):
        d = gen_one(rng, 100000 + i)
        r = run_one(d)
        for h in r["hits"]:
            h = dict(h)
            h["desc"] = d
            h["schedule"] = r["schedule"]
            return h
    return None
