"""C19 - bind / flat_bind chains are equivalent to the executor chain; names propagate.

Lean: Model/Bind.lean over the wiring constants K9 regenerated from wrap.py / executors.py / bind.py; Props/C19.lean.
Tie: K9 regenerated + differential (D): paired programs (bind form / submit form) for random with_* chains before
and after bind, callables of several kinds; outcomes, invocation counts and the names of created threads/layers
are compared."""
import functools
import random

from props.common import run, fingerprint, sched_kwargs, schedule_modes, hit, core, wrapfut
from world.sim import SimPool, SimSync, EXC, outcome

ID = "C19"
LEAN_MODULES = ["MoreExec.Props.C19"]
THEOREMS = [
    "MoreExec.Bind.C19_wiring",
    "MoreExec.Bind.C19_bind_commutes",
    "MoreExec.Bind.C19_bind_commutes_shape",
    "MoreExec.Bind.C19_flat_bind",
    "MoreExec.Bind.C19_name_inherited",
]
KERNELS = ["K9"]
BUDGET = {"quick": 120, "thorough": 900}
ASSUMPTIONS = [
    "equal executor stacks give equal outcomes and invocation counts (C01)",
    "K9 is extracted by pattern matching on the source of wrap.py / executors.py / bind.py",
]
RULE = ("random with_* chains (map, flat_map, retry, timeout, throttle, cancel_on_shutdown, poll; explicit/implicit names) applied before "
        "and/or after bind / flat_bind x callable kinds (function, partial, callable object, bound callable of another executor, future-returning) x outcome scripts; the "
        "bind form and the submit form are run side by side; distinct = distinct (chain, callable, script); non-trivial = both futures terminal")

LAYERS = ["map", "flat_map", "retry", "timeout", "throttle", "cancel_on_shutdown"]


def gen_scenarios(seed, tier):
    rng = random.Random(seed * 5003 + 19)
    n = 600 if tier == "quick" else 12000
    for i in range(n):
        def chain(k):
            out = []
            for _ in range(k):
                out.append((rng.choice(LAYERS), rng.choice([None, None, None, "given%d" % rng.randrange(3)])))
            return out
        d = dict(idx=i, base=rng.choice(["sync", "pool"]), base_name=rng.choice(["bn", "bn", None]),
                 before=chain(rng.choice([0, 0, 1, 2])), after=chain(rng.choice([0, 1, 1, 2, 3])),
                 flat=rng.random() < 0.3, callable=rng.choice(["function", "partial", "partial-kw", "object", "bound"]),
                 script=[rng.choice(["ok", "ok", "err"]) for _ in range(4)], seed=rng.randrange(1 << 30))
        if d["flat"] and d["callable"] != "bound" and rng.random() < 0.4:
            # the callable hands back a future that is ALREADY CANCELLED (or one that is cancelled on some attempts): both forms must
            # end cancelled - not "failed with CancelledError" - or agree on whatever the layers above make of it
            d["script"] = [rng.choice(["canc", "canc", "ok", "err"]) for _ in range(4)]
        d.update(schedule_modes(rng))
        d["trace_lines"] = rng.random() < 0.3
        yield d


class Ctx(object):
    pass


def apply_layer(target, layer, name):
    kw = {} if name is None else {"name": name}
    if layer == "map":
        return target.with_map(lambda x: ("m", x), **kw)
    if layer == "flat_map":
        from more_executors.futures import f_return
        return target.with_flat_map(lambda x: f_return(("fm", x)), **kw)
    if layer == "retry":
        return target.with_retry(max_attempts=3, sleep=1.0, exponent=1.0, **kw)
    if layer == "timeout":
        return target.with_timeout(60.0, **kw)
    if layer == "throttle":
        return target.with_throttle(2, **kw)
    if layer == "cancel_on_shutdown":
        return target.with_cancel_on_shutdown(**kw)
    raise ValueError(layer)


class CallObj(object):
    def __init__(self, f):
        self.f = f

    def __call__(self, *a, **k):
        return self.f(*a, **k)


def canon(v):
    """results may contain Future objects (a bound callable of another executor returns one): compare them by outcome"""
    from concurrent.futures import Future
    if isinstance(v, Future):
        o = outcome(v) if v.done() else ("pending", None)
        return ("<future>", o[0], canon(o[1]) if o[0] == "ok" else (type(o[1]).__name__, str(o[1])) if o[0] == "err" else None)
    if isinstance(v, tuple):
        return tuple(canon(x) for x in v)
    return v


def body_for(desc, ctx):
    from more_executors import Executors
    from more_executors.futures import f_return, f_return_error, f_return_cancelled

    def body(s, w):
        ctx.results = {}
        ctx.calls = {}
        ctx.names = {}
        for form in ("bind", "submit"):
            calls = []
            script = list(desc["script"])

            def raw(x, _calls=calls, _script=script):
                i = len(_calls)
                _calls.append(x)
                oc = _script[min(i, len(_script) - 1)]
                if desc["flat"] and desc["callable"] != "bound":
                    if oc == "ok":
                        return f_return(("v", x))
                    if oc == "canc":
                        return f_return_cancelled()
                    return f_return_error(EXC["E0"]("a%d" % i))
                if oc == "ok":
                    return ("v", x)
                raise EXC["E0"]("a%d" % i)
            if desc["callable"] == "partial":
                fn = functools.partial(lambda pad, x: raw(x), 0)
            elif desc["callable"] == "partial-kw":
                # a partial carrying a keyword that the call overrides: the call's value wins, as for the plain partial
                fn = functools.partial(lambda x, tag="default": raw((x, tag)), tag="from-partial")
            elif desc["callable"] == "object":
                fn = CallObj(raw)
            elif desc["callable"] == "bound":
                # a callable object that is itself a bound callable of ANOTHER executor: it returns that executor's future
                fn = Executors.sync(name="inner").bind(raw)
            else:
                fn = raw
            kw = {} if desc["base_name"] is None else {"name": desc["base_name"]}
            base = SimSync() if desc["base"] == "sync" else None
            if base is None:
                base0 = Executors.sync(**kw)
            else:
                base0 = Executors.sync(**kw)
            ex = base0
            mark = len(s.log)
            for (layer, nm) in desc["before"]:
                ex = apply_layer(ex, layer, nm)
            if form == "bind":
                target = ex.flat_bind(fn) if desc["flat"] else ex.bind(fn)
                for (layer, nm) in desc["after"]:
                    target = apply_layer(target, layer, nm)
                fut = target(7, tag="from-call") if desc["callable"] == "partial-kw" else target(7)
                top = None
            else:
                if desc["flat"]:
                    ex = ex.with_flat_map(lambda f: f)
                for (layer, nm) in desc["after"]:
                    ex = apply_layer(ex, layer, nm)
                fut = ex.submit(fn, 7, tag="from-call") if desc["callable"] == "partial-kw" else ex.submit(fn, 7)
                top = ex
            if not fut.done():
                s.block(lambda: fut.done(), s.now + 500.0, ("waitout",))
            o = outcome(fut)
            ctx.results[form] = (o[0], repr(canon(o[1])) if o[0] == "ok" else
                                 ((type(o[1]).__name__, str(o[1]) if isinstance(o[1], EXC["E0"]) else "") if o[0] == "err" else None))
            ctx.calls[form] = list(calls)
            ctx.names[form] = [e[3] for e in s.log[mark:] if e[1] == "spawn"]
        ctx.completed = True
    return body


def expected_thread_names(desc):
    """thread names the property requires: <Class>-<name> with the inherited or explicit name"""
    cls = {"retry": "RetryExecutor", "timeout": "TimeoutExecutor", "throttle": "ThrottleExecutor"}
    cur = desc["base_name"] or "default"
    out = []
    chain = list(desc["before"]) + ([("flat_map", None)] if desc["flat"] else []) + list(desc["after"])
    for (layer, nm) in chain:
        if nm is not None:
            cur = nm
        if layer in cls:
            out.append("%s-%s" % (cls[layer], cur))
    return out


def run_one(desc):
    wrapfut.install()
    ctx = Ctx()
    s, w = run(body_for(desc, ctx), **sched_kwargs(desc))
    hits = []
    if s.end_reason != "done" and not getattr(ctx, "completed", False):
        hits.append(hit("C19/stuck:%s" % s.end_reason, "scenario ended with %s; parked %r" % (s.end_reason, s.parked())))
    r1, r2 = ctx.results.get("bind"), ctx.results.get("submit")
    ok = r1 is not None and r2 is not None
    if ok:
        if r1 != r2:
            hits.append(hit("C19/bind-differs:outcome", "bind form gave %r, executor form gave %r (before=%r after=%r flat=%r)"
                            % (r1, r2, desc["before"], desc["after"], desc["flat"])))
        if ctx.calls["bind"] != ctx.calls["submit"]:
            hits.append(hit("C19/bind-differs:invocations", "bind form invoked fn %d times, executor form %d times"
                            % (len(ctx.calls["bind"]), len(ctx.calls["submit"]))))
        want = expected_thread_names(desc)
        for form in ("bind", "submit"):
            got = ctx.names[form]
            if got != want:
                hits.append(hit("C19/name-not-inherited:%s-form" % form, "threads created %r, expected %r (base name %r, before=%r after=%r)"
                                % (got, want, desc["base_name"], desc["before"], desc["after"])))
    r = {"hits": hits, "blocks": [], "verdicts": ["OK 1 1"] if ok and not hits else [], "stats": {"yields": s.nyields, "flat_%s" % desc["flat"]: 1},
         "schedule": list(s.chooser.record), "fingerprint": fingerprint(desc, s) if ok else None}
    if desc.get("idx") == 0:
        r["sample"] = {"desc": desc, "results": ctx.results}
    return r


def extended_search(seed, tier, broken):
    for d in gen_scenarios(seed + 1, "quick"):
        r = run_one(d)
        for h in r["hits"]:
            h = dict(h)
            h["desc"] = d
            h["schedule"] = r["schedule"]
            return h
    return None
