"""C02 - Every returned future obeys the concurrent.futures.Future protocol.

Lean: Model/MeFuture.lean + Props/C02.lean.  Tie: per-future histories (add_done_callback / cancel / set_* sections under the
future's lock, callback invocations) of every library future class, from real executions under dsched, replayed through the
model's step function; direct protocol monitors (callbacks exactly once, cancel results, outcome stability, waiters)."""
import random

from props.common import run, fingerprint, sched_kwargs, schedule_modes, hit, core, wrapfut
from props import stackcommon as sc
from proj import mefuture as proj
from world.sim import SimFuture, EXC, vname, outcome

ID = "C02"
LEAN_MODULES = ["MoreExec.Props.C02", "MoreExec.Props.C02Code"]
THEOREMS = [
    "MoreExec.MeFuture.C02_callback_exactly_once",
    "MoreExec.MeFuture.C02_outcome_stable",
    "MoreExec.MeFuture.C02_cancel_true_sticks",
    "MoreExec.MeFuture.C02_cancel_false_when_finished",
    "MoreExec.MeFuture.C02_waiters_released",
    "MoreExec.MeFuture.C02_cancel_sections_under_lock",
    "MoreExec.MeFuture.C02_code_add",
    "MoreExec.MeFuture.C02_code_cancel",
    "MoreExec.MeFuture.C02_code_set",
    "MoreExec.MeFuture.C02_code_poll_set",
    "MoreExec.MeFuture.C02_code_delegate_cancelled",
    "MoreExec.MeFuture.C02_code_callback_pass",
    "MoreExec.MeFuture.C02_code_cancel_whole",
    "MoreExec.MeFuture.C02_code_set_whole",
    "MoreExec.MeFuture.C02_code_add_whole",
    "MoreExec.MeFuture.C02_code_no_overrides",
]
KERNELS = ["K2", "K16"]
BUDGET = {"quick": 150, "thorough": 1500}
ASSUMPTIONS = [
    "the CONTENT of every lock section of the protocol methods (_Future.add_done_callback / cancel / _me_delegate_cancelled, the set_* of "
    "_OutputFuture / MapFuture / PollFuture / RetryFuture) and the callback pass are regenerated from the source (K16) and proved to be the "
    "model's actions from any state; that each `with self._me_lock:` block is atomic with respect to the others is the lock's guarantee "
    "(the interleaving of sections is what the model's theorems quantify over, and what the replay validates)",
    "AF1: a method of the stdlib Future is atomic (it holds Future._condition throughout)",
    "AF2: `_me_done_callbacks` is appended to only under `_me_lock` and only while the future is not done; the state change of set_* / "
    "cancel happens under `_me_lock` (both validated by the replay: an append after completion or a second callback pass is not a "
    "run of the model)",
    "callbacks are identified by registration; library-internal callbacks are not part of the alphabet",
    "`result()` / `exception()` waiters are released by the stdlib condition variable on every state change (stdlib, trusted); "
    "`wait()` / `as_completed()` waiters need CANCELLED_AND_NOTIFIED, which is what the `notified` ghost tracks",
]
RULE = ("single-layer executors of every future class (map, flat_map, retry, poll, throttle, timeout) with 2-3 client threads issuing "
        "submit / cancel / add_done_callback (plain, raising, re-submitting) / result(timeout) / concurrent.futures.wait / as_completed "
        "racing with completion by value, exception or cancellation; plus f_zip / f_or / f_and / f_sequence outputs cancelled through "
        "an input or directly while a thread blocks in wait(); line-level random/PCT/boundary-biased schedules; distinct = distinct "
        "(program, schedule) hash; non-trivial = at least one callback ran or one cancel() returned")

KINDS = ["map", "flat_map", "retry", "poll", "throttle", "timeout"]


def gen_scenarios(seed, tier):
    rng = random.Random(seed * 86028121 + 2)
    n = 2400 if tier == "quick" else 40000
    for i in range(n):
        if i % 6 == 5:
            yield gen_comb(rng, i)
            continue
        if i % 8 == 3:
            yield gen_two_completions(rng, i)
            continue
        if i % 16 == 7:
            yield gen_refused_then_foreign(rng, i)
            continue
        kind = KINDS[i % 5] if i % 6 < 5 else "map"
        if i % 12 == 11:
            kind = "timeout"
        d = sc.gen_stack(rng, i, kinds=[kind], max_layers=1, ops=("submit", "cancel", "addcb", "addcb", "result", "sleep"),
                         bases=("simpool1", "simpool2", "simpool2", "simsync"), tail=(30.0,), shutdown_p=0.0, nclients=(2, 2, 3))
        lay = sc.gen_layer(rng, kind)
        if kind == "throttle":
            lay[1]["block"] = False
        d["layers"] = [lay]
        # some waits through concurrent.futures.wait / as_completed
        for ops in d["clients"]:
            if rng.random() < 0.4:
                keys = [op[1] for cl in d["clients"] for op in cl if op[0] == "submit"]
                if keys:
                    ops.insert(rng.randint(0, len(ops)), ["cfwait", rng.choice(keys), rng.choice([1.0, 5.0, 20.0]), rng.choice(["wait", "as_completed"])])
        if d["base"] == "simsync":
            # a nested submit from a callback running inside submit() would self-deadlock on the gate (C04's subject)
            for ops in d["clients"]:
                for op in ops:
                    if op[0] == "addcb" and op[2] == "submit":
                        op[2] = "plain"
        yield d


def gen_two_completions(rng, i):
    """two completion sources reach one future at the same virtual instant - a client's cancel() and the resolution coming from
    below (the delegate finishing, the poll function yielding) - while the future has several slow done-callbacks: the loser's
    set_* / cancel arrives on a future whose callbacks are being invoked by the winner"""
    kind = rng.choice(["poll", "poll", "map", "timeout", "throttle", "retry", "flat_map"])
    lay = sc.gen_layer(rng, kind)
    if kind == "poll":
        lay = ["poll", {"poll_script": [["at", 0.5, rng.choice(["yield", "yield", "err"])]], "interval": 0.5, "cancel_fn": rng.random() < 0.3,
                        "cancel_script": [[["ret", True]]]}]
        script = [[["ret", 7]]]
        releaser = [["sleep", 0.5]]
    else:
        if kind == "throttle":
            lay[1].update(block=False, count=rng.choice([1, 2, None]))
        if kind == "retry":
            lay = ["retry", {"max_attempts": 1, "sleep": 1.0, "exponent": 1.0, "max_sleep": 3.0, "exception_base": ["E0"]}]
        if kind == "timeout":
            lay = ["timeout", {"timeout": 10.0}]
        script = [[["waitev", "g0"], rng.choice([["ret", 7], ["raise", "E1"]])]]
        releaser = [["sleep", 0.5], ["setev", "g0"]]
    c0 = [["submit", "k0", script]]
    for _ in range(rng.randint(2, 3)):
        c0.append(["addcb", "k0", rng.choice(["slow", "slow", "plain"])])
    c0 += [["sleep", 0.5], ["cancel", "k0"], ["addcb", "k0", "plain"]]
    c1 = releaser + [["result", "k0", 5.0]]
    clients = [c0, c1]
    if rng.random() < 0.4:
        clients.append([["sleep", 0.5], ["cancel", "k0"], ["addcb", "k0", "slow"]])
    d = dict(kind="stack", idx=i, base=rng.choice(["simpool1", "simpool2"]), layers=[lay], clients=clients, tail=20.0,
             seed=rng.randrange(1 << 30), family="two-completions")
    d.update(schedule_modes(rng))
    if rng.random() < 0.5:
        d.update(mode="hold", p_switch=rng.choice([0.0, 0.02, 0.1]), trace_lines=True)
    return d


def gen_comb(rng, i):
    n = rng.choice([2, 2, 3])
    d = dict(kind="comb", idx=i, op=rng.choice(["zip", "or", "and", "sequence"]), n=n,
             outcomes=[rng.choice(["ok", "ok", "err", "cancel", "never"]) for _ in range(n)],
             cancel_out=rng.random() < 0.4, waiter=rng.choice(["wait", "as_completed", "result"]), timeout=rng.choice([3.0, 10.0]),
             ncb=rng.randint(0, 2), seed=rng.randrange(1 << 30))
    d.update(schedule_modes(rng))
    return d


def run_comb(desc):
    import concurrent.futures as cf
    from concurrent.futures import Future
    from more_executors.futures import f_zip, f_or, f_and, f_sequence
    wrapfut.install()
    st = {}

    def body(s, w):
        ins = [SimFuture() for _ in range(desc["n"])]
        op = {"zip": lambda: f_zip(*ins), "or": lambda: f_or(*ins), "and": lambda: f_and(*ins), "sequence": lambda: f_sequence(ins)}[desc["op"]]
        out = op()
        st["out"] = out
        st["cb"] = []
        for c in range(desc["ncb"]):
            out.add_done_callback(lambda f, c=c: st["cb"].append((c, f.done())))

        def completer():
            for j, oc in enumerate(desc["outcomes"]):
                s.yield_point("complete")
                if oc == "ok":
                    if ins[j].set_running_or_notify_cancel():
                        ins[j].set_result(j + 1)
                elif oc == "err":
                    if ins[j].set_running_or_notify_cancel():
                        ins[j].set_exception(EXC["E1"]("in%d" % j))
                elif oc == "cancel":
                    if Future.cancel(ins[j]):
                        ins[j].set_running_or_notify_cancel()

        def waiter():
            s.yield_point("api")
            s.ev("call", "cfwait", desc["waiter"], desc["timeout"])
            t0 = s.now
            if desc["waiter"] == "wait":
                dn, nd = cf.wait([out], timeout=desc["timeout"])
                rel = out in dn
            elif desc["waiter"] == "as_completed":
                try:
                    rel = bool(list(cf.as_completed([out], timeout=desc["timeout"])))
                except cf.TimeoutError:
                    rel = False
            else:
                try:
                    out.result(desc["timeout"])
                    rel = True
                except cf.TimeoutError:
                    rel = False
                except BaseException:
                    rel = True
            st["released"] = rel
            st["waited"] = s.now - t0
            st["done_at_return"] = out.done()
            s.ev("ret", "cfwait", rel, out.done())

        def canceller():
            s.yield_point("api")
            st["cancel_ret"] = out.cancel()

        ts = [s.spawn(waiter, name="waiter"), s.spawn(completer, name="comp")]
        if desc["cancel_out"]:
            ts.append(s.spawn(canceller, name="canceller"))
        for ct in ts:
            if ct.state != "done":
                s.block(lambda ct=ct: ct.state == "done", None, ("cjoin", ct.tid))
        st["final"] = outcome(out)
    s, w = run(body, **sched_kwargs(desc))
    hits = []
    if "released" in st:
        if st["done_at_return"] and not st["released"]:
            hits.append(hit("C02/wait-not-released:%s" % desc["op"], "f_%s output is %s but %s() did not release its caller within %.1fs"
                            % (desc["op"], st.get("final", ("?",))[0], desc["waiter"], desc["timeout"])))
        elif st["released"] and st["waited"] > 1e-6 and st.get("final", ("pending",))[0] != "pending":
            # released, but only by the time-out?  completion happens at virtual time 0: any wait > 0 means a missed wake-up
            hits.append(hit("C02/wait-released-late:%s" % desc["op"], "%s() on the f_%s output returned only after %.1fs"
                            % (desc["waiter"], desc["op"], st["waited"])))
    elif s.end_reason == "idle":
        hits.append(hit("C02/waiter-stuck:%s" % desc["op"], "thread blocked in %s() on the f_%s output for ever" % (desc["waiter"], desc["op"])))
    if "final" in st and st["final"][0] != "pending":
        seen = [c for (c, d) in st["cb"]]
        if sorted(seen) != list(range(desc["ncb"])):
            hits.append(hit("C02/callback-count:%s" % desc["op"], "callbacks run %r, registered %d" % (seen, desc["ncb"])))
        if any(not d for (_c, d) in st["cb"]):
            hits.append(hit("C02/callback-before-done:%s" % desc["op"], "a callback of the f_%s output ran while it was not done" % desc["op"]))
    if st.get("cancel_ret") is True and st.get("final", ("cancelled",))[0] != "cancelled":
        hits.append(hit("C02/cancel-true-not-cancelled:%s" % desc["op"], "cancel() on the f_%s output returned True but it ended %s" % (desc["op"], st["final"][0])))
    return {"hits": hits, "blocks": [], "verdicts": [], "schedule": list(s.chooser.record),
            "fingerprint": fingerprint(desc, s), "stats": {"comb_scenarios": 1, "comb_%s" % desc["op"]: 1}, "sample": None}


def cfwait_monitor(s, ctx):
    hits = []
    for (key, fname, released, done, now) in ctx.cfwaits:
        if done and not released:
            hits.append(hit("C02/wait-not-released", "concurrent.futures wait/as_completed on %s (future %s) returned without it although it is done" % (key, fname)))
    return hits


def gen_refused_then_foreign(rng, i):
    """a two-step history on one future, no race needed: the user's cancel() is REFUSED by the work underneath (the poll layer's
    cancel function says no), and later that work is cancelled by somebody else (the cancel-on-shutdown layer in between sweeps it,
    and now the cancel function says yes): the future above must end cancelled - release result()/wait() callers, run its callbacks -
    exactly as if the refused cancel() had never been attempted"""
    top = rng.choice(["map", "map", "flat_map", "timeout", "retry", "throttle"])
    lay = sc.gen_layer(rng, top)
    if top == "throttle":
        lay[1].update(block=False, count=rng.choice([1, 2, None]))
    if top == "retry":
        lay = ["retry", {"max_attempts": 2, "sleep": 1.0, "exponent": 1.0, "max_sleep": 3.0, "exception_base": ["E0"]}]
    if top == "timeout":
        lay = ["timeout", {"timeout": 50.0}]
    if top in ("map", "flat_map"):
        lay = [top, {"fn": True, "errfn": False, "script": [[["retarg"]]], "escript": [[["reraise"]]]}]
    poll = ["poll", {"poll_script": ["none"], "interval": 5.0, "cancel_fn": True, "cancel_script": [[["ret", False]], [["ret", True]]]}]
    layers = [poll, ["cancel_on_shutdown", {}], lay]
    c0 = [["submit", "k0", [[["ret", 7]]]], ["addcb", "k0", "plain"], ["sleep", 1.0], ["cancel", "k0"]]
    if rng.random() < 0.5:
        c0.append(["addcb", "k0", "plain"])
    c0 += [["sleep", 1.0], ["shutdown", False], ["sleep", 1.0], ["addcb", "k0", "plain"]]
    clients = [c0]
    if rng.random() < 0.5:
        clients.append([["sleep", 3.0], ["cfwait", "k0", 5.0, rng.choice(["wait", "as_completed"])]])
    d = dict(kind="stack", idx=i, base=rng.choice(["simpool1", "simpool2", "simsync"]), layers=layers, clients=clients, tail=10.0,
             seed=rng.randrange(1 << 30), family="refused-then-foreign")
    d.update(schedule_modes(rng))
    return d


def run_one(desc):
    if desc.get("family") in ("chain", "zip-race"):
        return _chain_as_own(desc)
    if desc.get("kind") == "comb":
        return run_comb(desc)
    s, ctx, out = sc.run_stack(desc, props=("C02", "C18"))
    hits = list(out.get("C02", [])) + cfwait_monitor(s, ctx)
    if desc.get("family") == "refused-then-foreign" and ctx.completed:
        f = ctx.futs.get("k0")
        swept = any(e[1] == "fcancel<" and e[3] is True and len(e) > 2 for e in s.log)
        if f is not None and swept and not f.done():
            hits.append(hit("C02/pending-after-foreign-cancel", "the work under future k0 was cancelled by the shutdown sweep (after the user's "
                            "own cancel() had been refused) but the future is still pending: result()/wait() callers are never released and its "
                            "callbacks never run; layers %r" % [l[0] for l in desc["layers"]]))
    hits += [h for h in out.get("C18", []) if h["sig"].startswith("C18/escaped")]
    blocks, verd = [], []
    if s.end_reason == "limit":
        verd.append("INCONCLUSIVE 0 yield limit")
    elif desc.get("family") == "refused-then-foreign":
        # (three layers: the per-future projection is written for single-layer programs; this family is decided by its monitors)
        if ctx.completed and not hits:
            verd.append("OK 1 1")
    else:
        try:
            blocks = proj.project_all(s.log, desc)
        except proj.ProjError as e:
            verd.append("DIVERGE 0 [projection] %s" % e)
    ncb = len(ctx.cb_runs)
    return {"hits": hits, "blocks": blocks, "verdicts": verd, "schedule": list(s.chooser.record),
            "fingerprint": fingerprint(desc, s) if (ncb or any(a[1] == "cancel" for a in ctx.api)) else None,
            "stats": {"callback_runs": ncb, "callbacks_registered": len(ctx.cbs),
                      "cancel_calls": sum(1 for a in ctx.api if a[1] == "cancel"),
                      "cfwaits": len(ctx.cfwaits), "kind_%s" % desc["layers"][0][0]: 1},
            "sample": {"desc": {k: desc[k] for k in ("base", "layers", "clients")}, "log_len": len(s.log)} if desc.get("idx", 1) == 0 else None}


def _chain_as_own(desc):
    """a two-stage chain / zip-output scenario of C13 (callback registration racing the completion), reported under this property"""
    from props import C13
    r = C13.run_zip_race(desc) if desc.get("family") == "zip-race" else C13.run_chain(desc)
    for h in r["hits"]:
        h["sig"] = h["sig"].replace("C13/", "C02/", 1)
    r["verdicts"] = []
    return r


def extended_search(seed, tier, broken):
    from run import run_scenarios
    from props import C13
    h = C13.pair_race_search(90 if tier == "quick" else 600)
    if h is not None:
        h = dict(h)
        h["sig"] = h["sig"].replace("C13/", "C02/", 1)
        return h
    for extra in range(1, 4 if tier == "quick" else 10):
        descs = list(gen_scenarios(seed + 1000 * extra, "quick"))
        for r in run_scenarios("props.C02", descs, budget_s=100):
            for h in r.get("hits", []):
                return {"sig": h["sig"], "detail": h.get("detail"), "desc": r["desc"], "schedule": r.get("schedule")}
    return None
