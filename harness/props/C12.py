"""C12 - Worker threads and references are reclaimed; pending futures keep working.

Lean: Model/Lifecycle.lean + Props/C12.lean; K14 (weakref wiring of every worker executor, loop shape, reference clearing)
regenerated from the source and decided.  Tie (partial by nature: CPython's reference counting / GC / atexit are trusted):
real executors are created with a single user reference, given pending work, and then dropped / shut down / sent the
interpreter-exit hook at arbitrary points of the worker loop under dsched; observed: thread termination, completion of the
pending futures, and weakref liveness of callables, arguments, results and futures after an explicit gc.collect()."""
import gc
import os
import random
import weakref

from props.common import run, fingerprint, sched_kwargs, schedule_modes, hit, core, wrapfut
from world.sim import SimPool, EXC

ID = "C12"
LEAN_MODULES = ["MoreExec.Props.C12", "MoreExec.Props.C11", "MoreExec.Props.C08"]
THEOREMS = [
    "MoreExec.Lifecycle.C12_pending_keeps_alive",
    "MoreExec.Lifecycle.C12_worker_not_stuck",
    "MoreExec.Lifecycle.C12_worker_exits",
    "MoreExec.Lifecycle.C12_collected_not_in_iteration",
    "MoreExec.Lifecycle.C12_source_facts",
    "MoreExec.Shutdown.C11_join_means_exited",
    "MoreExec.Poll.C08_source_facts",
]
KERNELS = ["K14", "K10", "K17"]
BUDGET = {"quick": 150, "thorough": 1500}
ASSUMPTIONS = [
    "CPython reference counting, the cycle collector and atexit are trusted; the model represents them as counts and a `collect` action",
    "user functions do not reference the executor (as the property requires)",
    "the Lifecycle model is not replayed action by action (reference counts are not observable): its tie is K14 plus the end-to-end "
    "observations of the scenarios",
]
RULE = ("for each worker executor kind (retry / poll / throttle / timeout): one user reference, 0-3 pending submissions of various "
        "durations, futures kept or dropped by the user, then one trigger (drop the last reference + gc.collect(), shutdown(wait=False), "
        "or the interpreter-exit hook) at a random virtual time, i.e. at an arbitrary point of the worker's loop under line-level "
        "schedules; observed after 100 virtual seconds: worker thread exited, pending futures completed with their callables' results, "
        "executor collected; plus a reference-release probe (weakrefs to a callable object, its argument, its result and the future "
        "must die after the future is done and the user dropped them, while the executor lives on)")

KINDS = ["retry", "poll", "throttle", "timeout"]


def gen_scenarios(seed, tier):
    rng = random.Random(seed * 179424673 + 12)
    n = 2000 if tier == "quick" else 40000
    for i in range(n):
        d = dict(idx=i, kind=KINDS[i % 4], trigger=rng.choice(["drop", "drop", "shutdown", "exit", "release"]),
                 nsub=rng.choice([0, 1, 2, 3]), durs=[rng.choice([0, 0.5, 1.0, 2.0, 3.0]) for _ in range(3)],
                 when=rng.choice([0, 0, 0.5, 1.0, 1.0, 2.0, 2.5, 5.0]), keep=rng.random() < 0.6, seed=rng.randrange(1 << 30),
                 tmo=rng.choice([50.0, 1.0, 1.0, 2.0]), cancel_one=rng.random() < 0.5)
        d.update(schedule_modes(rng))
        # a future cancelled by its user just before the trigger (with 3 submissions over a throttle of 2 / a busy pool it is still
        # QUEUED in the library) and kept by the user: a done future must not keep its executor - and with it the worker - alive
        d["cancel_before"] = rng.random() < 0.35
        if d["cancel_before"] and rng.random() < 0.6:
            d.update(nsub=3, keep=True, durs=[rng.choice([1.0, 2.0, 3.0]) for _ in range(3)], when=rng.choice([0, 0, 0.5]))
        if i % 10 == 4:
            # the trigger falls on the very instant at which a time-out fires: the timeout thread is busy cancelling overdue jobs (or
            # about to go back to sleep) when the last reference goes / shutdown() / the exit hook sets its wake-up event
            # (the callables outlive the observation: no later completion can wake the thread a second time and mask a lost wake-up)
            d.update(kind="timeout", tmo=1.0, when=1.0, nsub=rng.choice([1, 2, 3]), durs=[500.0, 500.0, 500.0],
                     trigger=rng.choice(["shutdown", "exit"]), cancel_before=False)
            if rng.random() < 0.6:
                d.update(mode="hold", p_switch=rng.choice([0.0, 0.02, 0.1]), trace_lines=True)
        if i % 10 == 2:
            # a poll future cancelled at the very instant its delegate finishes and it is being registered for polling: however the
            # cancel and the registration interleave, the done future (and the delegate's result in its descriptor) is not retained
            dur = rng.choice([0.5, 1.0, 2.0])
            d.update(kind="poll", trigger="release", cancel_one=True, nsub=1, durs=[dur, dur, dur], when=dur, cancel_before=False, keep=True)
            if rng.random() < 0.6:
                d.update(mode="hold", p_switch=rng.choice([0.0, 0.02, 0.1]), trace_lines=True)
        if i % 10 == 9:
            # the retry executor asleep in a long back-off for a failed attempt: cancel-and-drop, or drop everything, in the middle of it
            d.update(kind="retry", trigger=rng.choice(["backoff-cancel", "backoff-drop"]), nsub=rng.choice([1, 2]),
                     when=rng.choice([0.5, 1.0, 2.0, 5.0]), durs=[rng.choice([0, 0.25]) for _ in range(3)])
        yield d


class Blob(object):
    """something weakref-able for callables' arguments and results"""

    def __init__(self, tag):
        self.tag = tag


TMO = [50.0]


def make(kind, pool, w):
    from more_executors.retry import RetryExecutor
    from more_executors.poll import PollExecutor
    from more_executors.throttle import ThrottleExecutor
    from more_executors.timeout import TimeoutExecutor
    if kind == "retry-backoff":
        return RetryExecutor(pool, max_attempts=3, sleep=30.0, max_sleep=30.0, name="LC")
    if kind == "retry":
        return RetryExecutor(pool, max_attempts=2, sleep=1.0, name="LC")
    if kind == "poll":
        def pf(ds):
            for d in ds:
                d.yield_result(d.result)
        return PollExecutor(pool, pf, default_interval=1.0, name="LC")
    if kind == "throttle":
        return ThrottleExecutor(pool, count=2, name="LC")
    return TimeoutExecutor(pool, TMO[0], name="LC")


def run_one(desc):
    wrapfut.install()
    st = {}

    def body(s, w):
        from more_executors._impl import event as evmod
        pool = SimPool(2, retain=False)
        TMO[0] = desc.get("tmo", 50.0)
        backoff = desc["trigger"].startswith("backoff")
        ex = make("retry-backoff" if backoff else desc["kind"], pool, w)
        st["wref"] = weakref.ref(ex)
        worker = None
        for e in s.log:
            if e[1] == "spawn" and "LC" in str(e[3]):
                worker = e[2]
        st["worker"] = worker

        class Work(object):
            def __init__(self, k, d):
                self.k, self.d = k, d

            def __call__(self, arg):
                self.calls = getattr(self, "calls", 0) + 1
                st["calls"] = st.get("calls", 0) + 1
                if self.d:
                    s.sleep(self.d)
                if backoff and self.calls == 1:
                    # (a user-defined class: instances of built-in exception classes cannot be weakly referenced, so the scheduler's
                    # object-naming table would keep them - and through their traceback this frame's callable and argument - alive)
                    raise EXC["E0"]("first attempt fails")
                return Blob(("res", self.k))
        futs = []
        refs = {}
        for k in range(desc["nsub"]):
            fn = Work(k, desc["durs"][k])
            arg = Blob(("arg", k))
            f = ex.submit(fn, arg)
            futs.append(f)
            refs[k] = [weakref.ref(fn), weakref.ref(arg), weakref.ref(f)]
            del fn, arg, f
        st["nf"] = len(futs)
        results = {}
        for k, f in enumerate(futs):
            f.add_done_callback(lambda fut, k=k: results.__setitem__(k, ("cancelled",) if fut.cancelled() else
                                                                         (("err",) if fut.exception() else ("ok", fut.result().tag))))
        f = None          # the loop variable above must not keep the last future alive
        if not desc["keep"]:
            futs = None
        if desc["when"]:
            s.sleep(desc["when"])
        trig = desc["trigger"]
        if backoff:
            # the first attempts have failed (durations <= 0.25 s) and the jobs wait for their retry, due at about t = 30 s
            calls_before = st.get("calls", 0)
            if trig == "backoff-cancel":
                st["cancel_results"] = [f.cancel() for f in futs] if futs else None
                futs = None
                results.clear()
                gc.collect()
                st["retained"] = []
                for k, (rfn, rarg, rf) in refs.items():
                    for nm, r in (("callable", rfn), ("argument", rarg), ("future", rf)):
                        if r() is not None:
                            st["retained"].append(nm)
                st["kept"] = desc["keep"]
                if os.environ.get("VERIF_DEBUG_REFS") and st["retained"]:
                    import types
                    for k, (rfn, rarg, rf) in refs.items():
                        o = rfn()
                        seen = set()
                        frontier = [o]
                        for depth in range(8):
                            nxt = []
                            for x in frontier:
                                for r in gc.get_referrers(x):
                                    if id(r) in seen or r is frontier or r is nxt:
                                        continue
                                    seen.add(id(r))
                                    if isinstance(r, (types.FrameType, types.TracebackType, list, tuple, dict)) or isinstance(r, BaseException):
                                        nxt.append(r)
                                        if isinstance(r, (BaseException, dict)):
                                            print(depth, "via", type(r).__name__, str(r)[:150])
                                    else:
                                        print(depth, "HOLDER", type(r), str(r)[:200])
                            frontier = nxt
                        break
                s.sleep(5.0)
                ex.shutdown(wait=True)
                pool.shutdown(True)
                st["completed"] = True
                return
            futs = None
            results.clear()
            del ex
            gc.collect()
            s.sleep(5.0)        # well inside the back-off
            gc.collect()
            st["exited"] = any(e[0] == worker and e[1] in ("texit", "tdied") for e in s.log)
            st["collected"] = st["wref"]() is None
            s.sleep(60.0)
            st["calls_after"] = st.get("calls", 0) - calls_before
            st["completed"] = True
            pool.shutdown(True)
            return
        if trig == "release" and desc.get("cancel_one") and futs:
            # a cancel while the attempt may be in flight: whatever it returns, nothing of that submission may be retained
            futs[-1].cancel()
        if desc.get("cancel_before") and futs and trig in ("drop", "shutdown", "exit"):
            st["cancel_before"] = futs[-1].cancel()
        if trig == "drop":
            del ex
            gc.collect()
        elif trig == "shutdown":
            ex.shutdown(wait=False)
            del ex
            gc.collect()
        elif trig == "exit":
            evmod.GLOBAL_HANDLER.on_exiting()
        elif trig == "release":
            # wait for everything to finish, drop our references, collect: the library must not retain anything
            s.sleep(60.0)
            futs = None
            results_copy = dict(results)
            results.clear()
            gc.collect()
            st["retained"] = []
            for k, (rfn, rarg, rf) in refs.items():
                if rfn() is not None:
                    st["retained"].append("callable")
                if rarg() is not None:
                    st["retained"].append("argument")
                if rf() is not None:
                    st["retained"].append("future")
            st["results"] = results_copy
            st["alive_executor"] = st["wref"]() is not None
            ex.shutdown(wait=True)
            pool.shutdown(True)
            st["completed"] = True
            return
        s.sleep(100.0)
        gc.collect()
        st["results"] = dict(results)
        st["exited"] = any(e[0] == worker and e[1] in ("texit", "tdied") for e in s.log)
        st["collected"] = st["wref"]() is None
        st["completed"] = True
        if trig == "exit":
            try:
                ex.shutdown(wait=False)
            except Exception:
                pass
        pool.shutdown(True)
    gc_was = gc.isenabled()
    gc.disable()
    try:
        s, w = run(body, **sched_kwargs(desc))
    finally:
        if gc_was:
            gc.enable()
    hits = []
    kind, trig = desc["kind"], desc["trigger"]
    if st.get("completed") and trig == "backoff-cancel":
        if st.get("kept") and st.get("cancel_results") and all(r is True for r in st["cancel_results"]) and st["retained"]:
            hits.append(hit("C12/retained-during-backoff:%s" % "+".join(sorted(set(st["retained"]))),
                            "retry executor alive and asleep in a back-off: after cancel() = True of the queued futures and the user "
                            "dropping them, gc.collect() left %r reachable" % sorted(set(st["retained"]))))
    elif st.get("completed") and trig == "backoff-drop":
        if not st["exited"] or not st["collected"]:
            hits.append(hit("C12/worker-alive:retry:backoff-drop", "5 virtual seconds after the user dropped the retry executor and its futures "
                            "in the middle of a 30 s back-off: worker exited=%s, executor collected=%s" % (st["exited"], st["collected"])))
        if st.get("calls_after"):
            hits.append(hit("C12/ran-after-drop:retry", "the callable was invoked %d more time(s) after executor and futures had been dropped "
                            "(nobody can observe the result)" % st["calls_after"]))
    elif st.get("completed"):
        if trig == "release":
            if st["retained"]:
                hits.append(hit("C12/retained:%s:%s" % (kind, "+".join(sorted(set(st["retained"])))),
                                "%s executor still alive; after the futures were done and the user dropped them, gc.collect() left %r reachable"
                                % (kind, sorted(set(st["retained"])))))
        else:
            if not st["exited"]:
                hits.append(hit("C12/worker-alive:%s:%s" % (kind, trig), "%s worker thread still alive 100 virtual seconds after %s "
                                "(nsub=%d, when=%s)" % (kind, trig, desc["nsub"], desc["when"])))
            if trig in ("drop",):
                want = {k: ("ok", ("res", k)) for k in range(st["nf"])}
                if st.get("cancel_before") is True:
                    want[st["nf"] - 1] = ("cancelled",)
                # a pending future the user still holds must be completed; futures the user dropped as well are garbage together
                # with their executor (nobody can observe them) and may legitimately never run
                if desc["kind"] == "timeout" and desc.get("tmo", 50.0) < 10:
                    # a time-out cancels a callable only if the pool has not started it yet: both endings are legitimate here
                    for k in range(st["nf"]):
                        if st["results"].get(k) == ("cancelled",) and desc["durs"][k] >= desc["tmo"] - 1e-9:
                            st["results"][k] = want[k]
                    for k in list(st["results"]):
                        if st["results"][k] == ("cancelled",):
                            st["results"][k] = want.get(k)
                if desc["keep"] and st["results"] != want:
                    hits.append(hit("C12/pending-future-lost:%s" % kind, "after the user dropped the %s executor its pending futures ended %r, expected %r"
                                    % (kind, st["results"], want)))
                if not st["collected"]:
                    hits.append(hit("C12/executor-not-collected:%s" % kind, "the %s executor object is still reachable after the last user reference "
                                    "was dropped and all its futures finished" % kind))
    elif s.end_reason == "idle":
        hits.append(hit("C12/stuck:%s:%s" % (kind, trig), "scenario did not finish: %r" % (s.parked(),)))
    return {"hits": hits, "blocks": [], "verdicts": [], "schedule": list(s.chooser.record), "fingerprint": fingerprint(desc, s),
            "stats": {"trigger_%s" % trig: 1, "kind_%s" % kind: 1, "worker_exited": 1 if st.get("exited") else 0,
                      "collected": 1 if st.get("collected") else 0},
            "sample": {"desc": desc, "results": repr(st.get("results"))[:200]} if desc.get("idx", 1) == 0 else None}


def extended_search(seed, tier, broken):
    from run import run_scenarios
    for extra in range(1, 4 if tier == "quick" else 10):
        descs = list(gen_scenarios(seed + 1000 * extra, "quick"))
        for r in run_scenarios("props.C12", descs, budget_s=100):
            for h in r.get("hits", []):
                return {"sig": h["sig"], "detail": h.get("detail"), "desc": r["desc"], "schedule": r.get("schedule")}
    return None
