"""C15 - f_zip / f_sequence / f_traverse keep positions and propagate the first failure.

Lean: MoreExec/Model/Zipper.lean over kernel K6 (regenerated from futures/zip.py); theorems in Props/C15.lean.
Tie: K6 regenerated + differential; histories of the real code (order of Zipper.handle_done critical sections)
replayed through the Lean model and compared (values by identity)."""
import itertools
import random
from concurrent.futures import Future

from props.common import run, fingerprint, sched_kwargs, schedule_modes, hit, core, wrapfut
from world.sim import SimFuture, EXC, vname, outcome, oname
import leanval

ID = "C15"
LEAN_MODULES = ["MoreExec.Props.C15"]
THEOREMS = [
    "MoreExec.Zipper.C15_positions",
    "MoreExec.Zipper.C15_first_failure_exception",
    "MoreExec.Zipper.C15_first_failure_cancelled",
    "MoreExec.Zipper.C15_success_step",
    "MoreExec.Zipper.C15_traverse_calls",
    "MoreExec.Zipper.C15_source_facts",
]
KERNELS = ["K6"]
BUDGET = {"quick": 120, "thorough": 1200}
ASSUMPTIONS = [
    "exception objects are truthy (S18 excluded from the theorems' hypotheses)",
    "f_sequence/f_traverse = f_map(f_zip(...), list): the map step is covered by C13's model",
]
RULE = ("seeded inputs (0-6, one large case; pending SimFutures completed by 1-3 threads, already finished, repeated futures) x "
        "outcomes x schedules, forms f_zip / f_sequence / f_traverse (scripted fn, raising at position k); the order of "
        "Zipper.handle_done critical sections is read from the log and run through the Lean model; distinct = distinct "
        "(program, schedule) hash; non-trivial = at least two critical sections")


def gen_scenarios(seed, tier):
    rng = random.Random(seed * 7727 + 15)
    n = 1500 if tier == "quick" else 30000
    for i in range(n):
        yield gen_one(rng, i)
    yield dict(kind="zip", idx=-1, inputs=[("sim", ("ok",))] * (300 if tier == "quick" else 5000), slots=None, completers=None,
               cancel_out=False, seed=seed, mode="random", p_switch=0.01, trace_lines=False, big=True, max_yields=2000000)


def gen_one(rng, i):
    n = rng.choice([0, 1, 2, 2, 3, 3, 4, 5, 6])
    futs = []
    for j in range(n):
        r = rng.random()
        oc = ("ok",) if r < 0.7 else ("err", rng.choice(["E0", "E1"])) if r < 0.85 else ("cancel",) if r < 0.93 else ("never",)
        form = rng.choice(["sim", "sim", "sim", "done"])
        if oc[0] == "never":
            form = "sim"
        futs.append((form, oc))
    # slots: which underlying future sits at each position (duplicates allowed)
    slots = list(range(n))
    if n >= 2 and rng.random() < 0.25:
        a, b = rng.sample(range(n), 2)
        slots[a] = slots[b]
    nthreads = rng.choice([1, 2, 3])
    used = sorted(set(slots))
    order = [j for j in used if futs[j][0] != "done" and futs[j][1][0] != "never"]
    rng.shuffle(order)
    kind = rng.choice(["zip", "zip", "sequence", "traverse"])
    d = dict(kind=kind, idx=i, inputs=futs, slots=slots, completers=[order[k::nthreads] for k in range(nthreads)],
             cancel_out=rng.random() < 0.12, raise_at=(rng.randrange(n + 1) if (kind == "traverse" and rng.random() < 0.3) else None),
             seed=rng.randrange(1 << 30))
    d.update(schedule_modes(rng))
    return d


class Ctx(object):
    pass


_wrapped = False


def wrap_handle_done():
    global _wrapped
    if _wrapped:
        return
    from more_executors._impl.futures.zip import Zipper
    orig = Zipper.handle_done

    def handle_done(self, index, f):
        s = core.ACTIVE
        if s is not None and not s.aborting:
            s.ev("zhd>", index)
        try:
            return orig(self, index, f)
        finally:
            if s is not None and not s.aborting:
                s.ev("zhd<", index)
    Zipper.handle_done = handle_done
    _wrapped = True


class Val(object):
    """result values compared by identity"""
    def __init__(self, j):
        self.j = j

    def __repr__(self):
        return "V%d" % self.j


def body_for(desc, ctx):
    from more_executors.futures import f_zip, f_sequence, f_traverse, f_return, f_return_error, f_return_cancelled

    def body(s, w):
        futs = []
        ctx.vals = {}
        ctx.exc = {}
        slots = desc["slots"] if desc["slots"] is not None else list(range(len(desc["inputs"])))
        for j, (form, oc) in enumerate(desc["inputs"]):
            if form == "done":
                if oc[0] == "ok":
                    ctx.vals[j] = Val(j)
                    f = f_return(ctx.vals[j])
                elif oc[0] == "err":
                    ctx.exc[j] = EXC[oc[1]]("in%d" % j)
                    f = f_return_error(ctx.exc[j])
                else:
                    f = f_return_cancelled()
            else:
                f = SimFuture()
            futs.append(f)
        ctx.futs = futs
        ctx.positions = [futs[k] for k in slots]
        ctx.slots = slots
        s.ev("call", "f_op")
        ctx.fn_calls = []
        try:
            if desc["kind"] == "zip":
                out = f_zip(*ctx.positions)
            elif desc["kind"] == "sequence":
                out = f_sequence(list(ctx.positions))
            else:
                ra = desc.get("raise_at")
                ctx.raise_exc = EXC["E2"]("fn")

                def fn(x):
                    ctx.fn_calls.append(x)
                    if ra is not None and x == ra:
                        raise ctx.raise_exc
                    return ctx.positions[x]
                out = f_traverse(fn, range(len(ctx.positions)))
        except core.Abort:
            raise
        except BaseException as e:
            s.ev("raise", "f_op", type(e).__name__, str(e)[:50])
            ctx.raised = e
            return
        s.ev("ret", "f_op", vname(out))
        ctx.out = out
        completers = desc["completers"]
        if completers is None:
            idxs = list(range(len(futs)))
            random.Random(desc["seed"]).shuffle(idxs)
            completers = [idxs[0::2], idxs[1::2]]

        def completer(idxs):
            def go():
                for j in idxs:
                    f = futs[j]
                    oc = desc["inputs"][j][1]
                    s.yield_point("complete")
                    s.ev("complete", j, oc[0])
                    if oc[0] == "ok":
                        if f.set_running_or_notify_cancel():
                            ctx.vals[j] = Val(j)
                            f.set_result(ctx.vals[j])
                    elif oc[0] == "err":
                        if f.set_running_or_notify_cancel():
                            ctx.exc[j] = EXC[oc[1]]("in%d" % j)
                            f.set_exception(ctx.exc[j])
                    elif oc[0] == "cancel":
                        if Future.cancel(f):
                            f.set_running_or_notify_cancel()
            return go

        cts = [s.spawn(completer(idxs), name="comp%d" % k) for k, idxs in enumerate(completers) if idxs]
        if desc.get("cancel_out"):
            def canceller():
                s.yield_point("api")
                r = out.cancel()
                s.ev("ret", "cancel_out", r)
                ctx.cancel_out_result = r
            cts.append(s.spawn(canceller, name="canceller"))
        for ct in cts:
            if ct.state != "done":
                s.block(lambda ct=ct: ct.state == "done", None, ("cjoin", ct.tid))
        ctx.final = outcome(out)
        ctx.in_final = [outcome(f) for f in futs]
        ctx.names = {s.name_of(f, "f"): j for j, f in enumerate(futs)}
    return body


def analyse(s, ctx, desc):
    hits = []
    if getattr(ctx, "raised", None) is not None:
        hits.append(hit("C15/raised:%s" % type(ctx.raised).__name__, "f_%s raised %r" % (desc["kind"], ctx.raised)))
        return hits, None, None
    if not hasattr(ctx, "out"):
        return hits, None, None
    n = len(ctx.positions)
    raised_in_fn = desc["kind"] == "traverse" and desc.get("raise_at") is not None and desc["raise_at"] < n
    if desc["kind"] == "traverse":
        want_calls = list(range(n)) if not raised_in_fn else list(range(desc["raise_at"] + 1))
        if ctx.fn_calls != want_calls:
            hits.append(hit("C15/traverse-calls", "fn called with %r, expected %r" % (ctx.fn_calls, want_calls)))
        if raised_in_fn:
            if not (ctx.final[0] == "err" and ctx.final[1] is ctx.raise_exc):
                hits.append(hit("C15/traverse-raise-lost", "fn raised at %d but output is %s" % (desc["raise_at"], ctx.final[0])))
            return hits, None, None
    if n == 0:
        fin = ctx.final
        ok = fin[0] == "ok" and len(fin[1]) == 0 and isinstance(fin[1], tuple if desc["kind"] == "zip" else list)
        if not ok:
            hits.append(hit("C15/empty", "empty input gave %r" % (fin,)))
        return hits, None, None
    lock = None
    inside = False
    for e in s.log:
        if e[1] == "call" and e[2] == "f_op":
            inside = True
        elif e[1] == "ret" and e[2] == "f_op":
            inside = False
        elif e[1] == "locknew" and inside and lock is None and e[2].startswith("L"):
            lock = e[2]
    cur = {}
    sections = []
    cancels = set()
    for e in s.log:
        t, k = e[0], e[1]
        if k == "zhd>":
            cur.setdefault(t, []).append(e[2])
        elif k == "zhd<":
            if cur.get(t):
                cur[t].pop()
        elif k == "acq" and e[2] == lock and cur.get(t):
            sections.append(cur[t][-1])
        elif k == "dcancel>" and e[2] in ctx.names:
            cancels.add(ctx.names[e[2]])
        elif k == "tdied":
            hits.append(hit("C15/thread-died:%s" % e[2], "thread %d died with %s at %s" % (t, e[2], e[3])))
        elif k == "log" and e[3] in ("ERROR", "CRITICAL"):
            hits.append(hit("C15/logged-error:%s" % e[5], "logger %s: %s (%s)" % (e[2], e[4], e[5])))
    parts = []
    for idx in sections:
        j = ctx.slots[idx]
        o = ctx.in_final[j]
        if o[0] == "cancelled":
            parts.append("%d %d 1 - 0 0" % (idx, j))
        elif o[0] == "err":
            parts.append("%d %d 0 %d 0 0" % (idx, j, 500 + j))
        else:
            parts.append("%d %d 0 - %d 1" % (idx, j, 100 + j))
    line = "k6.run %d %s" % (n, " ".join(parts))
    return hits, line, dict(sections=sections, cancels=cancels)


def direct_monitor(desc, ctx, exp):
    """The property itself, checked on the real run without the Lean model: positions, first failure."""
    hits = []
    fin = ctx.final
    if getattr(ctx, "cancel_out_result", None) is True:
        return hits
    n = len(ctx.positions)
    secs = exp["sections"]
    finals = [ctx.in_final[ctx.slots[i]] for i in range(n)]
    first_fail = None
    for idx in secs:
        if finals[idx][0] in ("err", "cancelled"):
            first_fail = idx
            break
    all_handled = sorted(set(secs)) == list(range(n))
    want_type = tuple if desc["kind"] == "zip" else list
    if fin[0] == "ok":
        ok = isinstance(fin[1], want_type) and len(fin[1]) == n and first_fail is None
        if ok:
            for pos in range(n):
                if not (finals[pos][0] == "ok" and fin[1][pos] is finals[pos][1]):
                    ok = False
        if not ok:
            hits.append(hit("C15/wrong-positions", "output %r does not hold the inputs' results in input order (sections %r)" % (fin[1], secs)))
    elif fin[0] == "err":
        if first_fail is None or finals[first_fail][0] != "err" or fin[1] is not finals[first_fail][1]:
            hits.append(hit("C15/wrong-failure", "output failed with %r but the first failure observed is input %r" % (fin[1], first_fail)))
    elif fin[0] == "cancelled":
        if first_fail is None or finals[first_fail][0] != "cancelled":
            hits.append(hit("C15/wrong-failure", "output cancelled but the first failure observed is %r" % (first_fail,)))
    else:
        if first_fail is not None or (all_handled and n > 0):
            hits.append(hit("C15/lost", "output still pending although %s" % ("input %d failed" % first_fail if first_fail is not None else "every input finished")))
    return hits


def compare(desc, ctx, exp, lean):
    hits = []
    fin = ctx.final
    client_cancelled = getattr(ctx, "cancel_out_result", None) is True
    if client_cancelled:
        pend = [j for j in set(ctx.slots) if desc["inputs"][j][0] == "sim" and ctx.in_final[j][0] == "pending"]
        missing = [j for j in pend if j not in exp["cancels"]]
        if missing:
            hits.append(hit("C15/output-cancel-not-forwarded", "output cancelled but inputs %r never received cancel()" % missing))
        return hits
    if lean.startswith("tuple:"):
        ids = lean[6:].split(",")
        want_type = tuple if desc["kind"] == "zip" else list
        ok = fin[0] == "ok" and isinstance(fin[1], want_type) and len(fin[1]) == len(ids)
        if ok:
            for pos, (got, iid) in enumerate(zip(fin[1], ids)):
                j = int(iid) - 100
                if not (j == ctx.slots[pos] and got is ctx.vals.get(j)):
                    ok = False
        if not ok:
            hits.append(hit("C15/wrong-positions", "sections %r: output %r, Lean model says results of inputs %r in that order"
                            % (exp["sections"], fin, [int(x) - 100 for x in ids])))
    elif lean.startswith("err:"):
        j = int(lean[4:]) - 500
        if not (fin[0] == "err" and fin[1] is ctx.exc.get(j)):
            hits.append(hit("C15/wrong-failure", "sections %r: output %s, Lean model says exception of input %d" % (exp["sections"], fin[0], j)))
    elif lean == "cancelled":
        if fin[0] != "cancelled":
            hits.append(hit("C15/wrong-failure", "sections %r: output %s, Lean model says cancelled" % (exp["sections"], fin[0])))
    elif lean == "pending":
        if fin[0] != "pending":
            hits.append(hit("C15/resolved-early", "output is %s although the model is undecided after %r" % (fin[0], exp["sections"])))
    return hits


def run_one(desc):
    wrapfut.install()
    wrap_handle_done()
    ctx = Ctx()
    s, w = run(body_for(desc, ctx), **sched_kwargs(desc))
    hits, line, exp = analyse(s, ctx, desc)
    if s.end_reason != "done":
        hits.append(hit("C15/stuck:%s" % s.end_reason, "scenario ended with %s; parked %r" % (s.end_reason, s.parked())))
    validated = 0
    divs = []
    if line is not None:
        out = leanval.validate_blocks([["S oracle", line, "."]])[0]
        hits.extend(direct_monitor(desc, ctx, exp))
        divs = [h for h in compare(desc, ctx, exp, out[len("ORACLE "):])]
        hits.extend(h for h in divs if h["sig"] == "C15/output-cancel-not-forwarded")
        divs = [h for h in divs if h["sig"] != "C15/output-cancel-not-forwarded"]
        validated = 1
    nsec = len(exp["sections"]) if exp else 0
    r = {"hits": hits, "blocks": [], "stats": {"sections": nsec, "oracle_runs": validated, "yields": s.nyields,
                                                "kind_" + desc["kind"]: 1, "n_inputs_%d" % min(len(desc["inputs"]), 7): 1},
         "schedule": list(s.chooser.record), "fingerprint": fingerprint(desc, s) if nsec >= 2 else None,
         "verdicts": ([("DIVERGE 1 [%s] real run vs Lean model: %s" % (line, divs[0]["detail"])) if divs else "OK 1 1"] if validated else [])}
    if desc.get("idx") == 0:
        r["sample"] = {"desc": desc, "oracle_line": line, "final": str(getattr(ctx, "final", None))[:80]}
    return r


def extra_checks(seed, tier):
    """Differential of the decision part of Zipper.handle_done against K6 (single steps from random states)."""
    from more_executors._impl.futures.zip import Zipper
    import threading

    class FakeF(object):
        def __init__(self, c, e, v):
            self.c, self.e, self.v = c, e, v

        def cancelled(self):
            return self.c

        def exception(self):
            return self.e

        def result(self):
            return self.v

    class FakeOut(object):
        def __init__(self):
            self.ops = []

        def cancel(self):
            self.ops.append("cancel")

        def set_result(self, v):
            self.ops.append(("result", v))

        def set_exception(self, e):
            self.ops.append(("exc", e))

        def set_exception_info(self, *a):
            raise AttributeError()

    lines, py = [], []
    exc = ValueError("x")
    rng = random.Random(seed)
    for n, done0, c, e in itertools.product([1, 2, 3], [False, True], [False, True], [None, exc]):
        if c and e is not None:
            continue
        for rem in range(1, n + 1):
            idx = rng.randrange(n)
            z = Zipper.__new__(Zipper)
            z.fs = ["F%d" % i for i in range(n)]
            z.out = FakeOut()
            z.done = done0
            z.lock = threading.Lock()
            z.count_remaining = rem
            v = "V"
            z.handle_done(idx, FakeF(c, e, v))
            ops = z.out.ops
            if ops and ops[0] == "cancel":
                r = "cancelled"
            elif ops and ops[0][0] == "exc":
                r = "err:9"
            elif ops and ops[0][0] == "result":
                r = "tuple:" + ",".join(("5" if x == "V" else x) for x in ops[0][1])
            else:
                r = "pending"
            py.append("%s %s %d" % (r, str(bool(z.done)).lower(), z.count_remaining))
            lines.append("k6.step %d %d %d %d 7 %d %s 5 1" % (n, rem, 1 if done0 else 0, idx, 1 if c else 0, "-" if e is None else "9"))
    out = leanval.validate_blocks([["S oracle"] + lines + ["."]])[0]
    lean = out[len("ORACLE "):].split(";")
    broken = []
    for ln, a, b in zip(lines, py, lean):
        if a != b:
            broken.append({"what": "translator differential K6", "detail": "%s: python=%s lean=%s" % (ln, a, b)})
            break
    return {"hits": [], "broken": broken, "stats": {"differential_cases": len(lines)},
            "samples": [{"kernel_case": lines[3], "python": py[3], "lean": lean[3]}],
            "fingerprints": ["k6:%d" % i for i in range(len(lines))]}


def extended_search(seed, tier, broken):
    rng = random.Random(seed * 92821 + 6)
    for i in range(3000):
        d = gen_one(rng, 100000 + i)
        r = run_one(d)
        for h in r["hits"]:
            h = dict(h)
            h["desc"] = d
            h["schedule"] = r["schedule"]
            return h
    return None
