"""C16 - f_apply calls the function once, with every argument in its place.

Lean: MoreExec/Model/Apply.lean (the code's nesting of flat-maps/maps, fn_runner closures) and Props/C16.lean.
Tie: differential (D) against the real f_apply for arities 0..5 x 0..3 keywords, failing/cancelled inputs at every
position, all completion orders from 1-3 threads under the deterministic scheduler."""
import random
from concurrent.futures import Future

from props.common import run, fingerprint, sched_kwargs, schedule_modes, hit, core, wrapfut
from world.sim import SimFuture, EXC, outcome
import leanval

ID = "C16"
LEAN_MODULES = ["MoreExec.Props.C16"]
THEOREMS = [
    "MoreExec.Apply.C16_argument_order",
    "MoreExec.Apply.C16_called_iff_all_ok",
    "MoreExec.Apply.C16_failure_from_input",
    "MoreExec.Apply.callClo_build",
    "MoreExec.Apply.wrapped_all_ok",
    "MoreExec.Apply.C16_source_facts",
]
KERNELS = ["K18"]
BUDGET = {"quick": 120, "thorough": 900}
ASSUMPTIONS = [
    "map / flat_map steps behave as in C13's model (success applies the function, failure propagates)",
    "keyword names are distinct (Python guarantees it)",
    "hand-written model: tied to apply.py by the differential only",
]
RULE = ("arity 0-5 positional x 0-3 keyword x outcome per input (ok / exception / cancelled) x outcome of the function future x "
        "fn returning or raising x completion order over 1-3 threads x schedules; distinct = distinct (program, schedule); "
        "non-trivial = output reached a terminal state")
KWNAMES = ["ka", "kb", "kc"]
# keyword names a user may well choose and an implementation may well use for its own parameters
KWPOOL = ["ka", "kb", "kc", "x", "key", "fn", "f", "future", "args", "kwargs", "self", "result", "value", "out", "timeout", "fs"]


def gen_scenarios(seed, tier):
    rng = random.Random(seed * 4099 + 16)
    n = 1200 if tier == "quick" else 20000
    for i in range(n):
        npos = rng.choice([0, 1, 2, 2, 3, 4, 5])
        nkw = rng.choice([0, 0, 1, 2, 3])

        def oc():
            r = rng.random()
            return "ok" if r < 0.8 else "err" if r < 0.93 else "cancelled"
        inputs = ["ok" if rng.random() < 0.9 else oc()] + [oc() for _ in range(npos + nkw)]
        order = list(range(1 + npos + nkw))
        rng.shuffle(order)
        done_before = [j for j in order if rng.random() < 0.3]
        later = [j for j in order if j not in done_before]
        nth = rng.choice([1, 2, 3])
        kwnames = rng.sample(KWPOOL, nkw) if rng.random() < 0.6 else KWNAMES[:nkw]
        d = dict(kwnames=kwnames, npos=npos, nkw=nkw, inputs=inputs, done_before=done_before, completers=[later[k::nth] for k in range(nth)],
                 fn_raises=rng.random() < 0.15, idx=i, seed=rng.randrange(1 << 30),
                 # failing inputs whose exception OBJECT is falsy (a class defining __bool__ / __len__): "fails with that exception"
                 # holds for them too - f_apply tests `is not None`, never the truth value
                 falsy_exc=rng.random() < 0.25)
        d.update(schedule_modes(rng))
        yield d


class Ctx(object):
    pass


class Obj(object):
    def __init__(self, n):
        self.n = n

    def __repr__(self):
        return "O%d" % self.n


def body_for(desc, ctx):
    from more_executors.futures import f_apply

    def body(s, w):
        npos, nkw = desc["npos"], desc["nkw"]
        n = 1 + npos + nkw
        ctx.vals = [Obj(j) for j in range(n)]
        ctx.excs = [(EXC["FalsyError"] if desc.get("falsy_exc") else EXC["E0"])("in%d" % j) for j in range(n)]
        ctx.calls = []
        ctx.ret = Obj(999)
        ctx.fn_exc = EXC["E2"]("fn")

        def rec(*a, **k):
            ctx.calls.append((a, dict(k)))
            if desc["fn_raises"]:
                raise ctx.fn_exc
            return ctx.ret
        ctx.vals[0] = rec
        futs = [SimFuture() for _ in range(n)]

        def complete(j):
            f = futs[j]
            oc = desc["inputs"][j]
            if oc == "ok":
                if f.set_running_or_notify_cancel():
                    f.set_result(ctx.vals[j])
            elif oc == "err":
                if f.set_running_or_notify_cancel():
                    f.set_exception(ctx.excs[j])
            else:
                if Future.cancel(f):
                    f.set_running_or_notify_cancel()
        for j in desc["done_before"]:
            complete(j)
        names = desc.get("kwnames") or KWNAMES
        kw = {names[i]: futs[1 + npos + i] for i in range(nkw)}
        out = f_apply(futs[0], *futs[1:1 + npos], **kw)
        ctx.out = out

        def completer(idxs):
            def go():
                for j in idxs:
                    s.yield_point("complete")
                    complete(j)
            return go
        cts = [s.spawn(completer(idxs), name="comp%d" % k) for k, idxs in enumerate(desc["completers"]) if idxs]
        for ct in cts:
            if ct.state != "done":
                s.block(lambda ct=ct: ct.state == "done", None, ("cjoin", ct.tid))
        if not out.done():
            s.block(lambda: out.done(), s.now + 1000.0, ("waitout",))
        ctx.final = outcome(out)
    return body


def oracle_line(desc):
    npos, nkw = desc["npos"], desc["nkw"]

    def enc(j):
        oc = desc["inputs"][j]
        return "ok%d" % j if oc == "ok" else "err%d" % j if oc == "err" else "cancelled"
    pos = ",".join(enc(1 + i) for i in range(npos)) or "-"
    kw = ",".join("%d=%s" % (i, enc(1 + npos + i)) for i in range(nkw)) or "-"
    return "k16.apply %s %s %s" % (enc(0), pos, kw)


def run_one(desc):
    wrapfut.install()
    ctx = Ctx()
    s, w = run(body_for(desc, ctx), **sched_kwargs(desc))
    hits, verdicts = [], []
    if s.end_reason != "done":
        hits.append(hit("C16/stuck:%s" % s.end_reason, "scenario ended with %s; parked %r" % (s.end_reason, s.parked())))
    for e in s.log:
        if e[1] == "tdied":
            hits.append(hit("C16/thread-died:%s" % e[2], "thread %d died with %s at %s" % (e[0], e[2], e[3])))
    npos, nkw = desc["npos"], desc["nkw"]
    n = 1 + npos + nkw
    line = oracle_line(desc)
    got = None
    if hasattr(ctx, "final"):
        fin = ctx.final
        all_ok = all(o == "ok" for o in desc["inputs"])
        # ---- direct monitors (the property itself)
        if len(ctx.calls) > 1:
            hits.append(hit("C16/called-twice", "fn called %d times" % len(ctx.calls)))
        if ctx.calls and not all_ok:
            hits.append(hit("C16/called-before-all-resolved", "fn called although inputs are %r" % (desc["inputs"],)))
        if all_ok:
            if len(ctx.calls) != 1:
                hits.append(hit("C16/not-called", "all inputs succeeded but fn was called %d times (output %s)" % (len(ctx.calls), fin[0])))
            else:
                a, k = ctx.calls[0]
                want_a = tuple(ctx.vals[1:1 + npos])
                want_k = {(desc.get("kwnames") or KWNAMES)[i]: ctx.vals[1 + npos + i] for i in range(nkw)}
                if not (len(a) == len(want_a) and all(x is y for x, y in zip(a, want_a))):
                    hits.append(hit("C16/positional-order", "fn got positional %r, expected %r" % (a, want_a)))
                if not (set(k) == set(want_k) and all(k[x] is want_k[x] for x in want_k)):
                    hits.append(hit("C16/keyword-binding", "fn got keywords %r, expected %r" % (k, want_k)))
                if desc["fn_raises"]:
                    if not (fin[0] == "err" and fin[1] is ctx.fn_exc):
                        hits.append(hit("C16/fn-exception-lost", "fn raised but output is %s" % (fin[0],)))
                elif not (fin[0] == "ok" and fin[1] is ctx.ret):
                    hits.append(hit("C16/wrong-result", "output is %r, expected fn's return value" % (fin,)))
        else:
            if fin[0] == "ok" or fin[0] == "pending":
                hits.append(hit("C16/failure-lost", "inputs %r but output is %s" % (desc["inputs"], fin[0])))
            elif fin[0] == "err" and not any(fin[1] is ctx.excs[j] and desc["inputs"][j] == "err" for j in range(n)):
                hits.append(hit("C16/foreign-exception", "output failed with %r which is not a failed input's exception" % (fin[1],)))
        # ---- correspondence with the Lean model
        if fin[0] == "ok" or (fin[0] == "err" and fin[1] is ctx.fn_exc):
            if ctx.calls:
                a, k = ctx.calls[0]
                kn = list(desc.get("kwnames") or KWNAMES)
                idx = {id(v): j for j, v in enumerate(ctx.vals)}
                got = "ok pos=[%s] kw=[%s]" % (", ".join(str(idx.get(id(x), -1)) for x in a),
                                                ", ".join("(%d, %d)" % (kn.index(kk), idx.get(id(k[kk]), -1))
                                                          for kk in sorted(k, key=lambda z: kn.index(z) if z in kn else 99) if kk in kn))
            else:
                got = "ok-without-call"
        elif fin[0] == "err":
            got = "err%d" % next((j for j in range(n) if fin[1] is ctx.excs[j]), -1)
        else:
            got = fin[0]
        out = leanval.validate_blocks([["S oracle", line, "."]])[0]
        lean = out[len("ORACLE "):]
        verdicts.append("OK 1 1" if lean == got else "DIVERGE 1 [%s] real=%s lean=%s" % (line, got, lean))
    r = {"hits": hits, "blocks": [], "verdicts": verdicts, "stats": {"yields": s.nyields, "arity_%d" % (npos + nkw): 1},
         "schedule": list(s.chooser.record), "fingerprint": fingerprint(desc, s) if got is not None else None}
    if desc.get("idx") == 0:
        r["sample"] = {"desc": desc, "oracle_line": line, "observed": got}
    return r


def extended_search(seed, tier, broken):
    for d in gen_scenarios(seed + 1, "quick"):
        r = run_one(d)
        for h in r["hits"]:
            h = dict(h)
            h["desc"] = d
            h["schedule"] = r["schedule"]
            return h
    return None
