"""C06 - Cancel: True means the work never starts; it stops retries; it propagates.

Lean: Props/C06.lean over Model/Retry.lean (retry stops after any cancel scan, terminal is for ever, forwarding to the
attempt's delegate) and Model/Throttle.lean (a queued job removed by cancel is never handed over); forwarding through
map/flat_map/f_or/f_and/f_zip is C13-C15.  Tie: histories of the real RetryExecutor with cancels at arbitrary points
replayed through the model; random stacks of every layer type with the direct cancel monitors."""
import random

from props.common import fingerprint, hit
from props import stackcommon as sc
from proj import retry as proj

ID = "C06"
LEAN_MODULES = ["MoreExec.Props.C06"]
THEOREMS = [
    "MoreExec.Retry.C06_source_protocol",
    "MoreExec.Retry.C06_retry_stops",
    "MoreExec.Retry.C06_terminal_is_forever",
    "MoreExec.Retry.C06_no_submit_when_done",
    "MoreExec.Retry.C06_forwards_to_delegate",
    "MoreExec.Throttle.C06_cancelled_queued_never_handed",
    "MoreExec.BoolOp.C14_output_cancel_fans_out",
    "MoreExec.MapFut.C06_map_cancel_forwards_or_refuses",
]
KERNELS = ["K2", "K4", "K15"]
BUDGET = {"quick": 150, "thorough": 1500}
ASSUMPTIONS = [
    "the retry clause is proved on the section-level Retry model (AR1: `_jobs` mutated only under `_lock`; `cancel()` holds the "
    "future's lock from its scan to its end, which excludes `_submit_now` for that future)",
    "`cancel() = True` implies the callable never starts at the innermost layer by the delegate contract DC3 of SimPool/SimSync "
    "(a real ThreadPoolExecutor gives the same guarantee); the theorems show each layer re-establishes it",
    "forwarding through f_nocancel (no forwarding) is C17's theorem C17_nocancel",
]
RULE = ("half: single-layer RetryExecutor programs with cancel() issued by 1-2 threads at arbitrary points (queued, between "
        "retries, inside `_submit_now`, attempt running, being resolved), replayed through the Lean model; half: random stacks "
        "of 0-3 layers of every type with cancels; direct monitors order delegate.submit and callable starts against the return "
        "of cancel(); distinct = distinct (program, schedule) hash; non-trivial = at least one cancel() call returned")


def gen_scenarios(seed, tier):
    rng = random.Random(seed * 15485863 + 6)
    n = 2400 if tier == "quick" else 40000
    for i in range(n):
        if i % 16 == 9:
            yield gen_resolving_cancel(rng, i)
        elif i % 16 == 1:
            from props.common import schedule_modes
            d = dict(kind="comb-cancel", idx=i, comb=rng.choice(["zip", "zip", "sequence", "and"]), n=rng.choice([2, 3, 4]),
                     pre=rng.choice(["cancelled-first", "cancelled-first", "cancelled-middle", "none"]),
                     then=rng.choice(["cancel-output", "nothing"]), seed=rng.randrange(1 << 30))
            d.update(schedule_modes(rng))
            yield d
        elif i % 8 == 5:
            yield gen_foreign_race(rng, i)
        elif i % 4 == 3:
            yield gen_running_cancel(rng, i)
        elif i % 2 == 0:
            d = sc.gen_stack(rng, i, kinds=["retry"], max_layers=1, ops=("submit", "cancel", "cancel", "sleep", "result"),
                             bases=("simpool1", "simpool2", "simsync"), tail=(60.0,), shutdown_p=0.0)
            d["layers"] = [sc.gen_layer(rng, "retry")]
            d["replay_model"] = "retry"
        else:
            d = sc.gen_stack(rng, i, ops=("submit", "cancel", "cancel", "sleep", "result", "addcb"), tail=(40.0,), shutdown_p=0.0)
        yield d


def gen_foreign_race(rng, i):
    """the attempt's delegate future is still queued in the pool (its only worker is busy with a gated job) when, at the same
    virtual instant, a client cancels the retry future and somebody else cancels the delegate future directly: the delegate's
    done-callback (pop the job, `_me_delegate_cancelled`) races every step of `cancel()`"""
    pol = {"max_attempts": 3, "sleep": rng.choice([0.0, 1.0]), "exponent": 1.0, "max_sleep": 5.0, "exception_base": ["E0"]}
    c0 = [["submit", "kB", [[["waitev", "gB"], ["ret", 0]]]], ["submit", "k0", [[["ret", 1]]]], ["sleep", 0.5], ["cancel", "k0"]]
    if rng.random() < 0.4:
        c0.append(["cancel", "k0"])
    c0 += [["sleep", 1.0], ["setev", "gB"]]
    c1 = [["sleep", 0.5], ["dcancel", "k0"]]
    clients = [c0, c1]
    if rng.random() < 0.3:
        clients.append([["sleep", 0.5], ["cancel", "k0"]])
    d = dict(kind="stack", idx=i, base="simpool1", layers=[["retry", pol]], clients=clients, tail=30.0,
             seed=rng.randrange(1 << 30), replay_model="retry", family="foreign-race")
    from props.common import schedule_modes
    d.update(schedule_modes(rng))
    if rng.random() < 0.5:
        d.update(mode="hold", p_switch=rng.choice([0.0, 0.02, 0.1]), trace_lines=True)
    return d


def gen_resolving_cancel(rng, i):
    """cancel() lands while the future is BEING RESOLVED: its delegate has finished and the flat-map function - which will submit
    further work and return that inner future - is still running (held on a scenario gate).  Nothing can be forwarded to yet, so
    the cancel must be refused (False); answering True would let the inner callable start after a successful cancel."""
    fm = ["flat_map", {"script": [[["waitev", "g0"], ["retarg"]]], "inner_submit": True}]
    layers = [fm]
    if rng.random() < 0.5:
        above = rng.choice(["map", "timeout", "cancel_on_shutdown", "throttle"])
        lay = sc.gen_layer(rng, above)
        if above == "throttle":
            lay[1].update(block=False, count=rng.choice([1, 2, None]))
        if above == "timeout":
            lay = ["timeout", {"timeout": 50.0}]
        if above == "map":
            lay = ["map", {"fn": True, "errfn": False, "script": [[["retarg"]]], "escript": [[["reraise"]]]}]
        layers.append(lay)
    c0 = [["submit", "k0", [[["ret", 1]]]], ["sleep", 0.5], ["cancel", "k0"]]
    if rng.random() < 0.4:
        c0.append(["cancel", "k0"])
    c0 += [["sleep", 0.5], ["setev", "g0"]]
    clients = [c0]
    if rng.random() < 0.3:
        clients.append([["sleep", 0.5], ["cancel", "k0"]])
    d = dict(kind="stack", idx=i, base=rng.choice(["simpool1", "simpool2"]), layers=layers, clients=clients, tail=20.0,
             seed=rng.randrange(1 << 30), family="resolving-cancel")
    from props.common import schedule_modes
    d.update(schedule_modes(rng))
    return d


def gen_running_cancel(rng, i):
    """cancel() lands while the attempt is RUNNING on a pool worker (the delegate's cancel() returns False) and, at the same
    virtual instant, the callable is released and fails: the delegate's done-callback (policy, `_retry`) races with the rest of
    `_cancel`.  The callable blocks on a scenario gate; one client cancels, another opens the gate, both at t = 0.5."""
    n_att = rng.randint(2, 3)
    script = [[["waitev", "g%d" % a], ["raise", "E0"]] for a in range(n_att)]
    if rng.random() < 0.5:
        script[-1][-1] = ["ret", rng.randrange(100)]
    if rng.random() < 0.5:
        pol = {"custom": True, "policy_script": [rng.choice(["retry:0.0", "retry:1.0"]) for _ in range(n_att - 1)] + ["stop"]}
    else:
        pol = {"max_attempts": n_att + rng.choice([0, 1]), "sleep": rng.choice([0.0, 1.0]), "exponent": 1.0, "max_sleep": 5.0,
               "exception_base": ["E0"]}
    canceller = [["submit", "k0", script], ["sleep", 0.5], ["cancel", "k0"]]
    if rng.random() < 0.5:
        canceller.append(["cancel", "k0"])
    canceller.append(["sleep", 1.0])
    canceller += [["setev", "g%d" % a] for a in range(1, n_att)]     # let any later attempt finish as well
    opener = [["sleep", 0.5], ["setev", "g0"]]
    clients = [canceller, opener]
    if rng.random() < 0.3:
        clients.append([["sleep", 0.5], ["cancel", "k0"]])
    d = dict(kind="stack", idx=i, base=rng.choice(["simpool1", "simpool2"]), layers=[["retry", pol]], clients=clients, tail=30.0,
             seed=rng.randrange(1 << 30), replay_model="retry", family="running-cancel")
    from props.common import schedule_modes
    d.update(schedule_modes(rng))
    if rng.random() < 0.6:
        d.update(mode="hold", p_switch=rng.choice([0.0, 0.02, 0.1]), trace_lines=True)
    return d


def run_comb_cancel(desc):
    """a combinator over inputs one of which is ALREADY cancelled when the combinator is built (so the output is cancelled at once),
    or whose output the user cancels: every input that is still pending must be asked to cancel - wherever it stands in the list"""
    from props.common import run, sched_kwargs, wrapfut
    from world.sim import SimFuture
    from concurrent.futures import Future
    wrapfut.install()
    st = {}

    def body(s, w):
        from more_executors.futures import f_zip, f_sequence, f_and
        ins = [SimFuture() for _ in range(desc["n"])]
        pre = None
        if desc["pre"] == "cancelled-first":
            pre = 0
        elif desc["pre"] == "cancelled-middle" and desc["n"] > 2:
            pre = 1
        if pre is not None:
            Future.cancel(ins[pre])
            ins[pre].set_running_or_notify_cancel()
        out = {"zip": lambda: f_zip(*ins), "sequence": lambda: f_sequence(ins), "and": lambda: f_and(*ins)}[desc["comb"]]()
        st["cancel_ret"] = None
        if desc["then"] == "cancel-output" or pre is None:
            s.yield_point("api")
            st["cancel_ret"] = out.cancel()
        st["out_cancelled"] = out.cancelled()
        st["names"] = [s.name_of(f, "f") for f in ins]
        st["pre"] = pre
        st["completed"] = True
    s, w = run(body, **sched_kwargs(desc))
    hits = []
    if st.get("completed") and st["out_cancelled"]:
        asked = set(e[2] for e in s.log if e[1] == "dcancel>")
        missing = [j for j, nm in enumerate(st["names"]) if j != st["pre"] and nm not in asked]
        if missing:
            hits.append(hit("C06/cancel-not-forwarded:combinator-input", "the output of f_%s over %d inputs (input %r already cancelled when it was "
                            "built; out.cancel() -> %r) is cancelled, but the pending inputs at positions %r were never asked to cancel"
                            % (desc["comb"], desc["n"], st["pre"], st["cancel_ret"], missing)))
    return {"hits": hits, "blocks": [], "verdicts": ["OK 1 1"] if st.get("completed") and not hits else [], "schedule": list(s.chooser.record),
            "fingerprint": fingerprint(desc, s) if st.get("completed") else None, "stats": {"family_comb_cancel": 1, "cancel_returned": 1}, "sample": None}


def run_one(desc):
    if desc.get("kind") == "comb-cancel":
        return run_comb_cancel(desc)
    s, ctx, out = sc.run_stack(desc, props=("C06", "C18"))
    hits = list(out.get("C06", []))
    hits += [h for h in out.get("C18", []) if h["sig"].startswith("C18/escaped:cancel")]
    if desc.get("family") == "resolving-cancel":
        first_true = None
        for i, e in enumerate(s.log):
            if e[1] == "ret" and e[2] == "cancel" and e[4] is True and first_true is None:
                first_true = i
            if first_true is not None and e[1] == "ucall" and str(e[2]).startswith("innerwork"):
                hits.append(hit("C06/started-after-cancel-true:flat-mapped-inner", "the callable of the flat-mapped inner future started (log %d) "
                                "after cancel() of the derived future had returned True (log %d); layers %r"
                                % (i, first_true, [l[0] for l in desc["layers"]])))
                break
    blocks, verd = [], []
    if desc.get("replay_model") == "retry":
        if s.end_reason == "limit":
            verd.append("INCONCLUSIVE 0 yield limit")
        else:
            try:
                blocks.append(proj.project(s.log, desc))
            except proj.ProjError as e:
                verd.append("DIVERGE 0 [projection] %s" % e)
    nc = sum(1 for e in s.log if e[1] == "ret" and e[2] == "cancel")
    return {"hits": hits, "blocks": blocks, "verdicts": verd, "schedule": list(s.chooser.record),
            "fingerprint": fingerprint(desc, s) if nc else None,
            "stats": {"cancel_returned": nc,
                      "cancel_true": sum(1 for e in s.log if e[1] == "ret" and e[2] == "cancel" and e[4] is True),
                      "cancel_false": sum(1 for e in s.log if e[1] == "ret" and e[2] == "cancel" and e[4] is False),
                      "delegate_submits": sum(1 for e in s.log if e[1] == "dsubmit"),
                      "layers_%d" % len(desc["layers"]): 1},
            "sample": {"desc": {k: desc[k] for k in ("base", "layers", "clients")}, "log_len": len(s.log)} if desc.get("idx", 1) == 0 else None}


def extended_search(seed, tier, broken):
    from run import run_scenarios
    for extra in range(1, 4 if tier == "quick" else 10):
        descs = list(gen_scenarios(seed + 1000 * extra, "quick"))
        for r in run_scenarios("props.C06", descs, budget_s=100):
            for h in r.get("hits", []):
                return {"sig": h["sig"], "detail": h.get("detail"), "desc": r["desc"], "schedule": r.get("schedule")}
    return None
