"""Projection of a raw dsched log of a single PollExecutor layer onto the action alphabet of Model/Poll.lean.
Primitives by creation order: the RLock created in the constructor = `_lock` (X); the Event = `_poll_event`; the thread
spawned there = poll thread; the RLock created inside a submit() call after the delegate's submit = that PollFuture's
`_me_lock`, which also identifies the future in every later set_*/cancel (they take it first)."""


class ProjError(Exception):
    pass


def ctor_objects(log, layer):
    X = E = worker = None
    inside = False
    for e in log:
        k = e[1]
        if k == "ctor>" and e[2] == layer:
            inside = True
        elif k == "ctor<" and e[2] == layer:
            break
        elif inside and k == "locknew" and e[2].startswith("R") and X is None and (len(e) < 4 or e[3] != "ShutdownHelper"):
            X = e[2]
        elif inside and k == "evnew":
            E = e[2]
        elif inside and k == "spawn":
            worker = e[2]
    if X is None or E is None or worker is None:
        raise ProjError("constructor of %s: lock=%r event=%r worker=%r" % (layer, X, E, worker))
    return X, E, worker


def resnum(txt):
    v = txt.split(":", 1)[1] if ":" in txt else txt
    try:
        return abs(int(v)) % 100000
    except ValueError:
        return sum(ord(c) for c in v) % 100000


def project(log, desc, layer="L0"):
    X, E, worker = ctor_objects(log, layer)
    has_cf = bool(desc["layers"][0][1].get("cancel_fn"))
    out = ["S replay poll %d" % (1 if has_cf else 0)]
    fcancel_ret, fopened = {}, {}
    for i, e in enumerate(log):
        t, k = e[0], e[1]
        if k == "fcancel>":
            fopened.setdefault(t, []).append(i)
        elif k == "fcancel<" and fopened.get(t):
            fcancel_ret[fopened[t].pop()] = e[3]
    flock, dmap, done_ok, is_done = {}, {}, {}, {}
    cur_submit, held, stk = {}, {}, {}
    nf = 0
    parked = False
    mode = "top"
    pollidx = 0

    def top(t):
        s = stk.get(t)
        return s[-1] if s else None

    for i, e in enumerate(log):
        t, k = e[0], e[1]
        if k == "call" and e[2] == "submit":
            cur_submit[t] = {"d": None, "f": None, "depth": len(stk.get(t) or [])}
        elif k in ("ret", "raise") and e[2] == "submit":
            cur_submit.pop(t, None)
        elif k == "dsubmit" and t in cur_submit and cur_submit[t]["d"] is None and len(stk.get(t) or []) == cur_submit[t]["depth"]:
            cur_submit[t]["d"] = e[3]
        elif k == "locknew" and e[2].startswith("R") and t in cur_submit and cur_submit[t]["d"] is not None \
                and cur_submit[t]["f"] is None and len(stk.get(t) or []) == cur_submit[t]["depth"]:
            f = nf
            nf += 1
            cur_submit[t]["f"] = f
            flock[e[2]] = f
            dmap[cur_submit[t]["d"]] = f
        elif k == "dcomplete":
            done_ok[e[2]] = resnum(e[3]) if str(e[3]).startswith("ok:") else None
            if e[2] in dmap:
                stk.setdefault(t, []).append({"kind": "dcb", "nm": e[2], "f": dmap[e[2]], "ok": done_ok[e[2]], "reg": False})
        elif k == "daddcb>" and e[3] and e[2] in dmap:
            stk.setdefault(t, []).append({"kind": "dcb", "nm": e[2], "f": dmap[e[2]], "ok": done_ok.get(e[2]), "reg": False})
        elif k in ("dcompleted", "daddcb<") and top(t) is not None and top(t)["kind"] == "dcb" and top(t)["nm"] == e[2]:
            stk[t].pop()
        elif k == "fset>":
            stk.setdefault(t, []).append({"kind": "set", "f": None, "what": e[3], "nm": e[2]})
        elif k == "fcancel>":
            stk.setdefault(t, []).append({"kind": "cancel", "f": None, "nm": e[2], "ret": fcancel_ret.get(i)})
        elif k == "acq":
            L = e[2]
            held[(t, L)] = held.get((t, L), 0) + 1
            if held[(t, L)] > 1:
                continue
            c = top(t)
            if L in flock and c is not None and c["kind"] in ("set", "cancel") and c["f"] is None:
                f = flock[L]
                c["f"] = f
                c["lock"] = L
                if c["kind"] == "set":
                    if t == worker and mode == "failing":
                        out.append("A failNext")
                    else:
                        out.append("A yieldA %d %s %d" % (f, "val" if c["what"] == "result" else "exc", pollidx))
                    c["won"] = not is_done.get(f, False)
                    is_done[f] = True
                else:
                    c["skip"] = is_done.get(f, False)
            elif L in flock and t == worker and c is None and mode == "failing" and is_done.get(flock[L], False):
                # `yield_exception` on a future that is already done: `set_exception_info` returns at once (no set_exception)
                out.append("A failNext")
            elif L == X:
                if c is not None and c["kind"] == "dcb" and not c["reg"] and c["ok"] is not None:
                    # `_register_poll`: append, clear the delegate link and set the event, all inside the lock.  The unlocked
                    # reader `_run_cancel_fn` (under the future's own lock) can see the descriptor once the delegate link has been
                    # cleared, so `register` is placed at the release of the future's lock inside the section and `setE` at the set
                    c["insec"] = True
                elif c is not None and c["kind"] in ("set", "cancel") and c.get("won") and not c.get("dereg"):
                    c["dereg"] = True
                    out.append("A dereg %d" % c["f"])
                elif t == worker and c is None and mode == "top":
                    out.append("A snapshot")
                    mode = "polling"
        elif k == "rel":
            L = e[2]
            held[(t, L)] = held.get((t, L), 1) - 1
            if held[(t, L)] != 0:
                continue
            c = top(t)
            if c is not None and c["kind"] == "dcb" and c.get("insec") and not c["reg"] and flock.get(L) == c["f"]:
                c["reg"] = True
                out.append("A register %d %d" % (c["f"], c["ok"]))
            if L == X and c is not None and c.get("insec"):
                c["insec"] = False
            if c is not None and c["kind"] == "cancel" and c.get("lock") == L and not c.get("decided"):
                c["decided"] = True
                if c["ret"] is True and not c.get("asked") and not c.get("skip"):
                    out.append("A cancelA %d none" % c["f"])
                    c["won"] = True
                    is_done[c["f"]] = True
        elif k in ("fset<", "fset!"):
            c = top(t)
            if c is not None and c["kind"] == "set" and c["nm"] == e[2]:
                stk[t].pop()
                if c.get("dereg"):
                    out.append("A resolveRet %d" % c["f"])
        elif k == "fcancel<":
            c = top(t)
            if c is not None and c["kind"] == "cancel" and c["nm"] == e[2]:
                stk[t].pop()
                if c.get("dereg"):
                    out.append("A resolveRet %d" % c["f"])
        elif k == "ucall" and str(e[2]).startswith("cancelfn"):
            c = top(t)
            if c is not None and c["kind"] == "cancel" and c["f"] is not None:
                ans = "raise"
                for j in range(i + 1, len(log)):
                    x = log[j]
                    if x[0] == t and x[1] == "uret" and x[2] == e[2]:
                        ans = "true" if x[4] == "True" else "false"
                        break
                    if x[0] == t and x[1] == "uraise" and x[2] == e[2]:
                        break
                c["asked"] = True
                out.append("A cancelA %d %s" % (c["f"], ans))
                if ans == "true":
                    c["won"] = True
                    is_done[c["f"]] = True
        elif k == "pollfn" and t == worker:
            pollidx = e[2]
        elif k == "pollraise" and t == worker:
            out.append("A pollRaise %d" % e[2])
            mode = "failing"
        elif k == "pollfn<" and t == worker:
            if mode == "polling":
                out.append("A pollRet")
                mode = "wait"
        elif k == "set" and e[2] == E:
            c = top(t)
            if c is not None and c.get("insec"):
                if not c["reg"]:
                    c["reg"] = True
                    out.append("A register %d %d" % (c["f"], c["ok"]))
                out.append("A setE")
            else:
                out.append("A notifyA")
                out.append("A setE")
        elif k == "wait" and e[2] == E and t == worker:
            if mode == "failing":
                out.append("A failNext")
            out.append("A waitE")
            parked = not e[4]
            mode = "wait"
        elif k == "woke" and e[2] == E and t == worker:
            out.append("A wake")
            parked = False
        elif k == "clear" and e[2] == E and t == worker:
            if parked:
                out.append("A wake")
                parked = False
            out.append("A clearE")
            mode = "top"
    out.append(".")
    return out
