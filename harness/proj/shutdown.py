"""Projections for the shutdown protocols: a single worker executor (retry / poll / throttle / timeout) onto
Model/Shutdown.lean, and a single CancelOnShutdownExecutor onto Model/CancelOnShutdown.lean.

The gate (`ShutdownHelper._lock`) is identified as the first plain Lock a thread acquires after entering submit() or
shutdown(); the wake-up event and the worker thread by creation in the constructor; CancelOnShutdown's `_lock` as the RLock
created in the constructor."""
RT = "cannot schedule new futures after"


class ProjError(Exception):
    pass


def ctor_objects(log, layer):
    R = E = worker = None
    inside = False
    for e in log:
        k = e[1]
        if k == "ctor>" and e[2] == layer:
            inside = True
        elif k == "ctor<" and e[2] == layer:
            break
        elif inside and k == "locknew" and e[2].startswith("R") and R is None and (len(e) < 4 or e[3] != "ShutdownHelper"):
            R = e[2]
        elif inside and k == "evnew":
            E = e[2]
        elif inside and k == "spawn":
            worker = e[2]
    return R, E, worker


def call_outcomes(log):
    """index of 'call submit' -> 'ret' | exception text"""
    res, opened = {}, {}
    for i, e in enumerate(log):
        t, k = e[0], e[1]
        if k == "call" and e[2] in ("submit", "shutdown"):
            opened.setdefault((t, e[2]), []).append(i)
        elif k in ("ret", "raise") and e[2] in ("submit", "shutdown") and opened.get((t, e[2])):
            res[opened[(t, e[2])].pop()] = "ret" if k == "ret" else "%s:%s" % (e[3], e[4])
    return res


def gate_locks(log):
    return set(e[2] for e in log if e[1] == "locknew" and len(e) > 3 and e[3] == "ShutdownHelper")


def project_worker(log, desc, layer="L0"):
    gates = gate_locks(log)
    _R, E, worker = ctor_objects(log, layer)
    if E is None or worker is None:
        raise ProjError("constructor of %s: event=%r worker=%r" % (layer, E, worker))
    outc = call_outcomes(log)
    out = ["S replay shutdown 1"]
    G = None
    ctx = {}            # tid -> {"kind": submit|shutdown, "entered":, "i":}
    held = {}
    flag = False
    shutter = None
    wexited = False
    parked = False
    TOP = "#TOP#"
    pending_top = None      # index in out of the placeholder
    join_wait = False
    flipping = None
    exit_pending = False

    def place_top(continuing):
        nonlocal pending_top
        if pending_top is None:
            return
        if continuing:
            out[pending_top] = "A wTop"
        else:
            out[pending_top] = None
            out.append("A wTop")
        pending_top = None

    for i, e in enumerate(log):
        t, k = e[0], e[1]
        if k == "tstart" and t == worker:
            out.append(TOP)
            pending_top = len(out) - 1
        elif k == "call" and e[2] in ("submit", "shutdown") and t not in ctx:
            ctx[t] = {"kind": e[2], "entered": False, "i": i, "wait": (e[3] if e[2] == "shutdown" else None), "gated": False}
        elif k in ("ret", "raise") and e[2] in ("submit", "shutdown") and t in ctx and ctx[t]["kind"] == e[2] and outc.get(ctx[t]["i"]) is not None \
                and not ctx[t].get("nested"):
            c = ctx.pop(t)
            if c["kind"] == "shutdown" and shutter == t and k == "ret":
                out.append("A sdRet %d" % t)
                shutter = None
        elif k == "acq" and e[2] in gates:
            held[(t, e[2])] = held.get((t, e[2]), 0) + 1
            c = ctx.get(t)
            if c is not None and not c["gated"] and (G is None or e[2] == G):
                G = e[2]
                c["gated"] = True
                if c["kind"] == "submit":
                    o = outc.get(c["i"], "ret")
                    if o != "ret" and RT in o:
                        out.append("A subRefuse %d" % t)
                    else:
                        out.append("A subEnter %d" % t)
                        c["entered"] = True
                else:
                    # `ShutdownHelper.__call__`: the flag is written inside this section; unlocked readers (the worker's loop
                    # test) race with the write, so the flip is placed at the release and a worker that exits is ordered after it
                    if not flag and flipping is None:
                        flipping = t
                    else:
                        out.append("A sdNoop %d" % t)
        elif k == "rel" and e[2] in gates:
            held[(t, e[2])] = held.get((t, e[2]), 1) - 1
            c = ctx.get(t)
            if e[2] == G and c is not None and c["kind"] == "submit" and c["entered"] and held[(t, e[2])] == 0:
                out.append("A subExit %d" % t)
                c["entered"] = False
            if e[2] == G and flipping == t and c is not None and c["kind"] == "shutdown" and held[(t, e[2])] == 0:
                flag = True
                shutter = t
                flipping = None
                out.append("A sdFlip %d %d" % (t, 1 if c["wait"] else 0))
                if exit_pending:
                    out.append("A wTop")
                    exit_pending = False
        elif k == "set" and e[2] == E:
            if t == shutter and ctx.get(t, {}).get("kind") == "shutdown" and not ctx[t].get("didset"):
                ctx[t]["didset"] = True
                out.append("A sdSet %d" % t)
            else:
                out.append("A setE")
        elif k == "dshutdown" and t == shutter:
            out.append("A sdDelegate %d" % t)
        elif k == "join" and t == shutter and e[2] == worker:
            if wexited:
                out.append("A sdJoined %d" % t)
            else:
                join_wait = True
        elif k == "joined" and t == shutter and e[2] == worker:
            out.append("A sdJoined %d" % t)
            join_wait = False
        elif k == "wait" and e[2] == E and t == worker:
            place_top(True)
            out.append("A wWork")
            out.append("A wWait")
            parked = not e[4]
        elif k == "woke" and e[2] == E and t == worker:
            out.append("A wWake")
            parked = False
        elif k == "clear" and e[2] == E and t == worker:
            if parked:
                out.append("A wWake")
                parked = False
            out.append("A wClear")
            out.append(TOP)
            pending_top = len(out) - 1
        elif k in ("texit", "tdied") and t == worker:
            if flag:
                place_top(False)
            else:
                # the worker saw the flag that the shutdown thread has written but not yet published by releasing the gate
                if pending_top is not None:
                    out[pending_top] = None
                    pending_top = None
                exit_pending = True
            wexited = True
    if pending_top is not None:
        out[pending_top] = None
    return [x for x in out if x is not None] + ["."]


def project_cos(log, desc, layer="L0"):
    gates = gate_locks(log)
    X, _E, _w = ctor_objects(log, layer)
    if X is None:
        raise ProjError("constructor of %s created no RLock" % layer)
    outc = call_outcomes(log)
    out = ["S replay cos"]
    G = None
    ctx, held = {}, {}
    flag = False
    shutter = None
    fid = {}
    nf = 0
    done = set()
    pending_discard = []
    buffered = []
    late = []
    snapping = False
    # the futures the sweeping shutdown really cancels (= its copy of the set)
    swept = set()
    in_sd = {}
    for e in log:
        t, k = e[0], e[1]
        if k == "call" and e[2] == "shutdown":
            in_sd[t] = True
        elif k in ("ret", "raise") and e[2] == "shutdown":
            in_sd.pop(t, None)
        elif k == "dcancel>" and in_sd.get(t):
            swept.add(e[2])
    for i, e in enumerate(log):
        t, k = e[0], e[1]
        if k == "call" and e[2] in ("submit", "shutdown") and t not in ctx:
            ctx[t] = {"kind": e[2], "entered": False, "i": i, "gated": False, "f": None}
        elif k in ("ret", "raise") and e[2] in ("submit", "shutdown") and t in ctx and ctx[t]["kind"] == e[2]:
            c = ctx.pop(t)
            if c["kind"] == "shutdown" and shutter == t and k == "ret":
                out.append("A sdRet %d" % t)
                shutter = None
        elif k == "acq":
            L = e[2]
            held[(t, L)] = held.get((t, L), 0) + 1
            c = ctx.get(t)
            if c is None or held[(t, L)] > 1:
                continue
            if L in gates and not c["gated"] and (G is None or L == G):
                G = L
                c["gated"] = True
                if c["kind"] == "submit":
                    o = outc.get(c["i"], "ret")
                    if o != "ret" and RT in o:
                        out.append("A subRefuse %d" % t)
                    else:
                        out.append("A subEnter %d" % t)
                        c["entered"] = True
                else:
                    if not flag:
                        flag = True
                        shutter = t
                        out.append("A sdFlip %d" % t)
                    else:
                        out.append("A sdNoop %d" % t)
            elif L == X and c["kind"] == "shutdown" and t == shutter:
                # the copy of the set is taken somewhere inside this section while discards (not under the lock) may still
                # land: discards are buffered until the release and ordered by whether the sweep really cancelled the future
                snapping = True
        elif k == "rel":
            L = e[2]
            held[(t, L)] = held.get((t, L), 1) - 1
            c = ctx.get(t)
            if c is None or held[(t, L)] != 0:
                continue
            if L == X and c["kind"] == "shutdown" and t == shutter and snapping:
                snapping = False
                for (f, nm) in list(pending_discard) + buffered:
                    if nm not in swept:
                        out.append("A discard %d" % f)
                out.append("A sdSnap %d" % t)
                for (f, nm) in list(pending_discard) + buffered:
                    if nm in swept:
                        late.append((f, nm))
                # futures of the copy that were already done: their discard follows the copy
                for (f, nm) in late:
                    if (f, nm) in buffered:
                        out.append("A discard %d" % f)
                pending_discard = [x for x in pending_discard if x[1] in swept and x not in buffered]
                buffered = []
                late = []
            elif L == X and c["kind"] == "submit" and c["entered"] and c["f"] is not None and not c.get("added"):
                c["added"] = True
                out.append("A subAdd %d %d" % (t, c["f"]))
                nm = c["nm"]
                if nm in done:
                    out.append("A fdone %d" % c["f"])
                    out.append("A discard %d" % c["f"])
            elif L == G and c["kind"] == "submit" and c["entered"]:
                out.append("A subExit %d" % t)
                c["entered"] = False
        elif k == "dsubmit" and t in ctx and ctx[t]["kind"] == "submit" and ctx[t]["f"] is None:
            fid[e[3]] = nf
            ctx[t]["f"] = nf
            ctx[t]["nm"] = e[3]
            nf += 1
        elif k == "dcomplete" and e[2] in fid:
            done.add(e[2])
            if registered(out, fid[e[2]]):
                out.append("A fdone %d" % fid[e[2]])
                pending_discard.append((fid[e[2]], e[2]))
        elif k == "dcompleted" and e[2] in fid:
            if (fid[e[2]], e[2]) in pending_discard:
                pending_discard.remove((fid[e[2]], e[2]))
                if snapping:
                    buffered.append((fid[e[2]], e[2]))
                else:
                    out.append("A discard %d" % fid[e[2]])
        elif k == "dcancel>" and e[2] in fid:
            if t == shutter and in_shutdown(ctx, t):
                out.append("A sdCancel %d %d" % (t, fid[e[2]]))
            # a successful cancel makes the future done
        elif k == "dcancel<" and e[2] in fid and e[3] is True and e[2] not in done:
            done.add(e[2])
            if registered(out, fid[e[2]]):
                out.append("A fdone %d" % fid[e[2]])
                if snapping:
                    buffered.append((fid[e[2]], e[2]))
                else:
                    out.append("A discard %d" % fid[e[2]])
        elif k == "dshutdown" and t == shutter and in_shutdown(ctx, t):
            out.append("A sdDelegate %d" % t)
    out.append(".")
    return out


def registered(out, f):
    return any(x.startswith("A subAdd ") and x.endswith(" %d" % f) for x in out)


def in_shutdown(ctx, t):
    return t in ctx and ctx[t]["kind"] == "shutdown"
