"""Projection of a raw dsched log of a TimeoutExecutor scenario onto the alphabet of Model/Timeout.lean."""
from .common import ticks, b, BINDING_PARKS


def project(log, executor_name="TimeoutExecutor"):
    worker = None
    ev_name = None
    for e in log:
        if e[1] == "evnew":
            ev_name = e[2]       # the wake-up event is the last Event created before the worker thread
        if e[1] == "spawn" and str(e[3]).startswith(executor_name):
            worker = e[2]
            break
    out = ["S timeout"]
    dmap = {}      # delegate future name -> k
    fmap = {}      # outer future name -> k
    pending_submit = {}  # tid -> k of the dsubmit issued in the current submit call
    in_shutdown = set()
    for e in log:
        t, k = e[0], e[1]
        if k == "q":
            out.append("Q %d" % t)
        elif k == "tstart":
            if t == worker:
                out.append("E %d wstart" % t)
        elif k == "texit":
            if t == worker:
                out.append("E %d texit" % t)
        elif k == "call":
            if e[2] == "submit":
                out.append("E %d callSubmit %s" % (t, ticks(e[3])))
            elif e[2] == "cancel":
                out.append("E %d callCancel %d" % (t, fmap[e[3]]))
            elif e[2] == "shutdown":
                in_shutdown.add(t)
                out.append("E %d callShutdown %s" % (t, b(e[3])))
        elif k == "ret":
            if e[2] == "submit":
                fmap[e[3]] = pending_submit.pop(t)
                out.append("E %d retSubmit %d" % (t, fmap[e[3]]))
            elif e[2] == "cancel":
                out.append("E %d retCancel %d %s" % (t, fmap[e[3]], b(e[4])))
            elif e[2] == "shutdown":
                in_shutdown.discard(t)
                out.append("E %d retShutdown" % t)
        elif k == "raise":
            if e[2] == "submit":
                pending_submit.pop(t, None)
                out.append("E %d raiseSubmit" % t)
        elif k == "dsubmit":
            kk = len(dmap)
            dmap[e[3]] = kk
            pending_submit[t] = kk
            out.append("E %d dsubmit %d" % (t, kk))
        elif k == "dsubmit!":
            out.append("E %d dsubmitRefused" % t)
        elif k == "daddcb>":
            if e[2] in dmap:
                out.append("E %d daddcbIn %d %s" % (t, dmap[e[2]], b(e[3])))
        elif k == "daddcb<":
            if e[2] in dmap:
                out.append("E %d daddcbOut %d" % (t, dmap[e[2]]))
        elif k == "dcancel>":
            if e[2] in dmap:
                out.append("E %d dcancelIn %d" % (t, dmap[e[2]]))
        elif k == "dcancel<":
            if e[2] in dmap:
                out.append("E %d dcancelOut %d %s" % (t, dmap[e[2]], b(e[3])))
        elif k in ("drun", "dskip", "dcomplete", "dcompleted"):
            if e[2] in dmap:
                out.append("E %d %s %d" % (t, k, dmap[e[2]]))
        elif k == "set" and e[2] == ev_name:
            out.append("E %d setE" % t)
        elif k == "clear" and e[2] == ev_name:
            out.append("E %d clearE" % t)
        elif k == "wait" and e[2] == ev_name:
            out.append("E %d waitE %s %s" % (t, ticks(e[3]), b(e[4])))
        elif k == "woke" and e[2] == ev_name:
            out.append("E %d wokeE %s" % (t, b(e[3])))
        elif k == "park":
            if e[2] in BINDING_PARKS:
                out.append("B %d" % t)
            if e[2] == "event" and e[3] == ev_name:
                out.append("E %d parkE %s" % (t, ticks(e[4])))
        elif k == "idle_jump":
            out.append("E 0 idle %s" % ticks(e[2]))
        elif k == "tick":
            out.append("E %d tick %s" % (worker if worker is not None else 0, ticks(e[2])))
        elif k == "dshutdown":
            if t in in_shutdown:
                out.append("E %d dshutdown" % t)
        elif k == "dshutdown<":
            if t in in_shutdown:
                out.append("E %d dshutdownRet" % t)
        elif k == "join":
            if e[2] == worker:
                out.append("E %d join" % t)
        elif k == "joined":
            if e[2] == worker:
                out.append("E %d joined" % t)
    out.append(".")
    return out
