"""Helpers shared by the per-component log projections (raw dsched log -> validator block lines)."""
TICKS = 2 ** 20


def ticks(x):
    if x is None:
        return "None"
    v = x * TICKS
    r = int(round(v))
    if abs(v - r) > 1e-6:
        raise ValueError("time %r is not a whole number of ticks" % (x,))
    return str(r)


def b(x):
    return "True" if x else "False"


BINDING_PARKS = ("event", "cond", "join", "sleep", "qevent", "poolidle", "pooljoin")
