"""Projection of a raw dsched log of a single ThrottleExecutor layer onto the action alphabet of Model/Throttle.lean.

The executor's primitives are identified by creation order inside the constructor call (no private names):
first Lock = `_lock`, the Event = wake-up event, second Lock = AtomicInt.lock; the thread spawned there is the
hand-over thread."""


class ProjError(Exception):
    pass


class Ambiguous(Exception):
    pass


def ctor_objects(log, layer):
    locks, evs, worker = [], [], None
    inside = False
    for e in log:
        k = e[1]
        if k == "ctor>" and e[2] == layer:
            inside = True
        elif k == "ctor<" and e[2] == layer:
            break
        elif inside and k == "locknew" and e[2].startswith("L") and (len(e) < 4 or e[3] != "ShutdownHelper"):
            locks.append(e[2])
        elif inside and k == "evnew":
            evs.append(e[2])
        elif inside and k == "spawn":
            worker = e[2]
    return locks, evs, worker


def optv(v):
    return "None" if v in (None, "None") else str(int(v))


def project(log, desc, layer="L0"):
    locks, evs, worker = ctor_objects(log, layer)
    if len(locks) < 2 or len(evs) != 1 or worker is None:
        raise ProjError("constructor of %s created locks=%r events=%r worker=%r" % (layer, locks, evs, worker))
    L, A, E = locks[0], locks[1], evs[0]
    blocking = bool(desc["layers"][0][1].get("block"))
    sub_phase = {}       # tid -> "block" (inside `_block_until_ready`'s section on the queue lock) | "enq"
    in_cwait = {}
    cnt = desc["layers"][0][1].get("count", 1)
    dynamic = isinstance(cnt, list)
    countfn = "countfn%s" % layer[1:]
    # look-ahead tables
    cancel_ret = {}      # index of 'call cancel' -> result
    dcancel_ret = {}     # index of 'dcancel>' -> result
    open_c, open_d = {}, {}
    for i, e in enumerate(log):
        t, k = e[0], e[1]
        if k == "call" and e[2] == "cancel":
            open_c[t] = i
        elif k in ("ret", "raise") and e[2] == "cancel" and t in open_c:
            cancel_ret[open_c.pop(t)] = (e[4] if k == "ret" else None)
        elif k == "dcancel>":
            open_d.setdefault(t, []).append(i)
        elif k == "dcancel<" and open_d.get(t):
            dcancel_ret[open_d[t].pop()] = e[3]
    c0 = None
    out = []
    key_of = {}          # submission key -> model id
    d_key = {}           # delegate future name -> model id
    f_key = {}           # library future name -> model id
    cur_submit = {}      # tid -> key being submitted
    cur_cancel = {}      # tid -> (future name, result)
    ctx = {}             # tid -> stack of delegate future names whose callbacks are running
    held = {}            # tid -> depth of L
    in_ctor = False
    parked = False
    nenq = 0
    sec = None
    decr_open = {}
    last_seen = None
    read_pos = 0
    ambiguous_from = None
    ambiguous_vals = []
    for i, e in enumerate(log):
        t, k = e[0], e[1]
        if k == "ctor>" and e[2] == layer:
            in_ctor = True
        elif k == "ctor<" and e[2] == layer:
            in_ctor = False
            if not dynamic:
                c0 = cnt
        elif k == "uret" and e[2] == countfn:
            last_seen = e[4]
            if in_ctor:
                c0 = None if e[4] == "None" else int(e[4])
            elif t == worker:
                out.append("A evalW %s" % e[4])
                read_pos = len(out)
                ambiguous_from = i
                ambiguous_vals = [e[4]]
            else:
                out.append("A evalS %s" % e[4])
                if ambiguous_from is not None:
                    ambiguous_vals.append(e[4])
        elif k == "uraise" and e[2] == countfn:
            if in_ctor:
                raise ProjError("count callable raised in the constructor")
            out.append("A %s raise" % ("evalW" if t == worker else "evalS"))
            if t == worker:
                read_pos = len(out)
                ambiguous_from = i
                ambiguous_vals = [last_seen]
        elif k == "call" and e[2] == "submit":
            cur_submit[t] = e[3]
            sub_phase[t] = "block" if blocking else "enq"
        elif k in ("ret", "raise") and e[2] == "submit":
            key = cur_submit.pop(t, None)
            sub_phase.pop(t, None)
            if k == "ret" and key in key_of:
                f_key[e[3]] = key_of[key]
        elif k == "cwait":
            in_cwait[t] = True
        elif k == "call" and e[2] == "cancel":
            cur_cancel[t] = (e[3], cancel_ret.get(i))
        elif k in ("ret", "raise") and e[2] == "cancel":
            cur_cancel.pop(t, None)
        elif k == "acq" and e[2] == L:
            held[t] = held.get(t, 0) + 1
            if held[t] > 1:
                continue
            if t == worker:
                if not dynamic:
                    out.append("A evalW %s" % optv(cnt))
                    out.append("A readW")
                else:
                    # `return self._last_throttle` ran somewhere between the thread's own store and this acquisition: if a
                    # submitter stored a different value in that window the log cannot tell which one was read
                    if len(set(ambiguous_vals)) > 1:
                        raise Ambiguous("`_last_throttle` was changed by a submitter between the hand-over thread's store and its read")
                    out.insert(read_pos, "A readW")
                    ambiguous_from = None
                sec = {"incr": 0, "decrs": []}
            elif t in cur_cancel and not in_submit_section(t, cur_submit):
                fname, r = cur_cancel[t]
                if r is True and fname in f_key:
                    out.append("A cancelQ %d" % f_key[fname])
            elif t in cur_submit and sub_phase.get(t) == "block":
                in_cwait[t] = False      # the blocking protocol is replayed by `project_block` (Model/BlockProto.lean)
            elif t in cur_submit:
                key_of[cur_submit[t]] = nenq
                out.append("A enqueue %d" % nenq)
                nenq += 1
        elif k == "rel" and e[2] == L:
            held[t] = held.get(t, 1) - 1
            if t in cur_submit and sub_phase.get(t) == "block" and held[t] == 0 and not in_cwait.get(t):
                sub_phase[t] = "enq"
            if t == worker and held[t] == 0 and sec is not None:
                # the rest of the loop (the iterations after the last interleaved decrement, and the stop test) as one step;
                # decrements that came after the last increment are placed after it (see DESIGN.md, C07 atomicity)
                out.append("A admitA")
                out.extend(sec["decrs"])
                sec = None
        elif k == "acq" and e[2] == A:
            if held.get(worker, 0) > 0 and t == worker:
                # incr inside the admission loop
                if sec["decrs"]:
                    out.append("A admitPart %d" % sec["incr"])
                    out.extend(sec["decrs"])
                    sec["incr"] = 0
                    sec["decrs"] = []
                sec["incr"] += 1
                continue
            decr_open[t] = True
        elif k == "rel" and e[2] == A and decr_open.get(t):
            # `self.value -= 1` runs between the acquisition and this release and nothing can be scheduled between the
            # write and the release, so the release is where the decrement becomes visible to the unlocked reader
            decr_open[t] = False
            st = ctx.get(t) or []
            if not st:
                raise ProjError("decrement outside any delegate completion (log %d)" % i)
            if sec is not None:
                sec["decrs"].append("A decr %d" % d_key[st[-1]])
            else:
                out.append("A decr %d" % d_key[st[-1]])
        elif k == "dsubmit" and e[2] != "?" and t == worker:
            key = e[4]
            if key not in key_of:
                raise ProjError("hand-over of unknown key %r" % (key,))
            d_key[e[3]] = key_of[key]
            out.append("A handOver %d" % key_of[key])
        elif k == "dcomplete" and e[2] in d_key:
            out.append("A ddone %d" % d_key[e[2]])
            ctx.setdefault(t, []).append(e[2])
        elif k == "dcompleted" and e[2] in d_key:
            if ctx.get(t) and ctx[t][-1] == e[2]:
                ctx[t].pop()
        elif k == "dcancel>" and e[2] in d_key:
            if dcancel_ret.get(i) is True:
                out.append("A ddone %d" % d_key[e[2]])
            ctx.setdefault(t, []).append(e[2])
        elif k == "dcancel<" and e[2] in d_key:
            if ctx.get(t) and ctx[t][-1] == e[2]:
                ctx[t].pop()
        elif k == "daddcb>" and e[2] in d_key:
            ctx.setdefault(t, []).append(e[2])
        elif k == "daddcb<" and e[2] in d_key:
            if ctx.get(t) and ctx[t][-1] == e[2]:
                ctx[t].pop()
        elif k == "set" and e[2] == E:
            out.append("A setE")
        elif k == "wait" and e[2] == E and t == worker:
            out.append("A handDone")
            out.append("A waitE")
            parked = not e[4]
        elif k == "tick" and parked and False:
            pass
        elif k == "woke" and e[2] == E and t == worker:
            out.append("A wake")
            parked = False
        elif k == "clear" and e[2] == E and t == worker:
            if parked:
                # wait(timeout <= 0) on a clear event returns without a 'woke'
                out.append("A wake")
                parked = False
            out.append("A clearE")
    return ["S replay throttle %s" % optv(c0)] + out + ["."]


def in_submit_section(t, cur_submit):
    return False


def project_block(log, desc, layer="L0"):
    """the same execution projected onto Model/BlockProto.lean: the blocking protocol of submit() (test / wait / wake on the queue's
    condition, the sections that shrink the queue and notify, shutdown)"""
    locks, evs, worker = ctor_objects(log, layer)
    if len(locks) < 2 or worker is None:
        raise ProjError("constructor of %s created locks=%r worker=%r" % (layer, locks, worker))
    L, A = locks[0], locks[1]
    G = None
    inside = False
    for e in log:
        if e[1] == "ctor>" and e[2] == layer:
            inside = True
        elif e[1] == "ctor<" and e[2] == layer:
            break
        elif inside and e[1] == "locknew" and len(e) > 3 and e[3] == "ShutdownHelper":
            G = e[2]
    cnt = desc["layers"][0][1].get("count", 1)
    dynamic = isinstance(cnt, list)
    countfn = "countfn%s" % layer[1:]
    cancel_ret, open_c = {}, {}
    for i, e in enumerate(log):
        t, k = e[0], e[1]
        if k == "call" and e[2] == "cancel":
            open_c[t] = i
        elif k in ("ret", "raise") and e[2] == "cancel" and t in open_c:
            cancel_ret[open_c.pop(t)] = (e[4] if k == "ret" else None)
    out = ["S replay block"]
    cur_submit, sub_phase, in_cwait, cur_cancel, in_shutdown = {}, {}, {}, {}, {}
    tv_of = {}           # tid -> throttle_val of the submit in progress
    eval_seq = 0         # number of count evaluations so far (any thread)
    tv_seq = {}
    f_key = {}
    held = {}
    popped = 0
    shut = "no"

    def next_of(t, i, kinds):
        for j in range(i + 1, len(log)):
            x = log[j]
            if x[0] == t and x[1] in kinds:
                return x
        return None

    def check_line(t, i):
        nx = next_of(t, i, ("cwait", "rel"))
        park = 1 if (nx is not None and nx[1] == "cwait") else 0
        # the shutdown flag is read WITHOUT a lock somewhere inside this section: when a shutdown() call (or its flag flip) by another
        # thread falls between this acquisition and the end of the section, either value may have been read ("~")
        overlap = False
        for j in range(i + 1, len(log)):
            x = log[j]
            if x[0] == t and x[1] in ("cwait", "rel") and (x[1] == "cwait" or x[2] == L):
                break
            if x[0] != t and ((x[1] == "call" and x[2] == "shutdown") or (x[1] == "rel" and G is not None and x[2] == G and in_shutdown.get(x[0]))):
                overlap = True
        if overlap:
            if dynamic and tv_seq.get(t) != eval_seq:
                raise Ambiguous("`_last_throttle` was re-evaluated by another thread between this submitter's store and its read")
            return "A check %s ~ %d" % (optv(tv_of.get(t)), park)
        if dynamic and tv_seq.get(t) != eval_seq:
            raise Ambiguous("`_last_throttle` was re-evaluated by another thread between this submitter's store and its read")
        return "A check %s ? %d" % (optv(tv_of.get(t)), park)

    for i, e in enumerate(log):
        t, k = e[0], e[1]
        if k in ("uret", "uraise") and e[2] == countfn:
            eval_seq += 1
            if t in cur_submit:
                if k == "uraise":
                    raise Ambiguous("count callable raised in a blocking submit (the value in force is the shared last one)")
                tv_of[t] = None if e[4] == "None" else int(e[4])
                tv_seq[t] = eval_seq
        elif k == "call" and e[2] == "submit":
            cur_submit[t] = e[3]
            sub_phase[t] = "block"
            if not dynamic:
                tv_of[t] = cnt
        elif k in ("ret", "raise") and e[2] == "submit":
            key = cur_submit.pop(t, None)
            sub_phase.pop(t, None)
            if k == "ret":
                f_key[e[3]] = key
        elif k == "call" and e[2] == "cancel":
            cur_cancel[t] = (e[3], cancel_ret.get(i))
        elif k in ("ret", "raise") and e[2] == "cancel":
            cur_cancel.pop(t, None)
        elif k == "call" and e[2] == "shutdown":
            in_shutdown[t] = True
            if shut == "no":
                shut = "begun"
                out.append("A shutBegin")
        elif k in ("ret", "raise") and e[2] == "shutdown":
            in_shutdown.pop(t, None)
        elif k == "rel" and G is not None and e[2] == G and in_shutdown.get(t) and shut == "begun":
            shut = "done"
            out.append("A shutFlip")
        elif k == "cwait":
            in_cwait[t] = True
        elif k == "acq" and e[2] == L:
            held[t] = held.get(t, 0) + 1
            if held[t] > 1:
                continue
            if t == worker:
                popped = 0
            elif t in cur_submit and sub_phase.get(t) == "block":
                if in_cwait.get(t):
                    in_cwait[t] = False
                    nx = next_of(t, i, ("cwoke",))
                    out.append("A wake %d" % (0 if (nx is not None and nx[3]) else 1))
                out.append(check_line(t, i))
            elif t in cur_submit:
                out.append("A enq")
            elif t in cur_cancel:
                fname, r = cur_cancel[t]
                if r is True and fname in f_key:
                    out.append("A cancelRm")
            elif in_shutdown.get(t):
                out.append("A shutNotify")
        elif k == "rel" and e[2] == L:
            held[t] = held.get(t, 1) - 1
            if t == worker and held[t] == 0:
                out.append("A pop %d" % popped)
            elif t in cur_submit and sub_phase.get(t) == "block" and held[t] == 0 and not in_cwait.get(t):
                sub_phase[t] = "enq"
        elif k == "acq" and e[2] == A and t == worker and held.get(worker, 0) > 0:
            popped += 1
    out.append(".")
    return out
