"""Projection of a raw dsched log of a single library layer onto Model/MeFuture.lean, one block per returned future.
The future's `_me_lock` is the first RLock created inside its submit() call; client callbacks are the `addcb` operations
of the scenario (library-internal callbacks are not part of the alphabet)."""


class ProjError(Exception):
    pass


def project_all(log, desc):
    """returns list of blocks (one per future that saw at least one operation)"""
    flock = {}          # lock -> future index
    fname = {}          # future name -> index
    cur_submit = {}
    nf = 0
    for e in log:
        t, k = e[0], e[1]
        if k == "call" and e[2] == "submit":
            cur_submit[t] = {"lock": None}
        elif k == "locknew" and e[2].startswith("R") and t in cur_submit and cur_submit[t]["lock"] is None:
            cur_submit[t]["lock"] = e[2]
        elif k in ("ret", "raise") and e[2] == "submit":
            c = cur_submit.pop(t, None)
            if k == "ret" and c and c["lock"] is not None:
                flock[c["lock"]] = nf
                fname[e[3]] = nf
                nf += 1
    # final outcome per future (for implicit completions)
    outs = {f: [] for f in range(nf)}
    is_done = {}
    held = {}
    stk = {}            # tid -> stack of contexts
    owing = {}          # future -> tid that owes callbacks
    direct_pending = {}  # (tid, f) -> cbid
    fcancel_ret, fopened = {}, {}
    for i, e in enumerate(log):
        t, k = e[0], e[1]
        if k == "fcancel>":
            fopened.setdefault(t, []).append(i)
        elif k == "fcancel<" and fopened.get(t):
            fcancel_ret[fopened[t].pop()] = e[3]
    lock_of = {v: k for k, v in flock.items()}

    def top(t):
        s = stk.get(t)
        return s[-1] if s else None

    for i, e in enumerate(log):
        t, k = e[0], e[1]
        if k == "call" and e[2] == "addcb" and e[3] in fname:
            stk.setdefault(t, []).append({"kind": "addcb", "f": fname[e[3]], "cb": e[4], "decided": False, "ran": False})
        elif k in ("ret", "raise") and e[2] == "addcb":
            c = top(t)
            if c is not None and c["kind"] == "addcb":
                stk[t].pop()
        elif k == "fset>" and e[2] in fname:
            stk.setdefault(t, []).append({"kind": "set", "f": fname[e[2]], "nm": e[2], "decided": False})
        elif k in ("fset<", "fset!") and e[2] in fname:
            c = top(t)
            if c is not None and c["kind"] == "set" and c["nm"] == e[2]:
                stk[t].pop()
                f = c["f"]
                if not c["decided"]:
                    # no acquisition of the future's lock was seen inside set_*(): place the state change here
                    c["decided"] = True
                    if is_done.get(f):
                        outs[f].append("A setLate %d" % t)
                    else:
                        is_done[f] = True
                        owing[f] = t
                        outs[f].append("A finish %d" % t)
                if owing.get(f) == t and c.get("won"):
                    outs[f].append("A invokeEnd %d" % t)
                    owing.pop(f, None)
        elif k == "fcancel>" and e[2] in fname:
            stk.setdefault(t, []).append({"kind": "cancel", "f": fname[e[2]], "nm": e[2], "ret": fcancel_ret.get(i), "decided": False})
        elif k == "fcancel<" and e[2] in fname:
            c = top(t)
            if c is not None and c["kind"] == "cancel" and c["nm"] == e[2]:
                stk[t].pop()
                f = c["f"]
                if not c["decided"]:
                    c["decided"] = True
                    decide_cancel(c, t, f, is_done, owing, outs)
                if owing.get(f) == t and c.get("won"):
                    outs[f].append("A invokeEnd %d" % t)
                    owing.pop(f, None)
        elif k == "acq" and e[2] in flock:
            held[(t, e[2])] = held.get((t, e[2]), 0) + 1
            if held[(t, e[2])] > 1:
                continue
            f = flock[e[2]]
            c = top(t)
            if c is not None and c["f"] == f and not c["decided"]:
                if c["kind"] == "set":
                    c["decided"] = True
                    if is_done.get(f):
                        outs[f].append("A setLate %d" % t)
                    else:
                        is_done[f] = True
                        owing[f] = t
                        c["won"] = True
                        outs[f].append("A finish %d" % t)
        elif k == "rel" and e[2] in flock:
            held[(t, e[2])] = held.get((t, e[2]), 1) - 1
            if held[(t, e[2])] != 0:
                continue
            f = flock[e[2]]
            c = top(t)
            if c is not None and c["f"] == f and not c["decided"]:
                if c["kind"] == "cancel":
                    c["decided"] = True
                    decide_cancel(c, t, f, is_done, owing, outs)
                elif c["kind"] == "addcb":
                    c["decided"] = True
                    # stored or direct? the callback runs on this thread before add_done_callback returns iff direct
                    direct = False
                    for j in range(i + 1, len(log)):
                        x = log[j]
                        if x[0] != t:
                            continue
                        if x[1] == "cbrun" and x[2] == c["cb"]:
                            direct = True
                            break
                        if x[1] in ("ret", "raise") and x[2] == "addcb":
                            break
                    if direct:
                        outs[f].append("A addDirect %d %d" % (t, c["cb"]))
                        c["direct"] = True
                    else:
                        outs[f].append("A addStore %d %d" % (t, c["cb"]))
        elif k == "cbrun":
            cbid, nm = e[2], e[3]
            if nm not in fname:
                continue
            f = fname[nm]
            c = top(t)
            if c is not None and c["kind"] == "addcb" and c["f"] == f and c["cb"] == cbid and c.get("direct") and not c["ran"]:
                c["ran"] = True
                outs[f].append("A callDirect %d %d" % (t, cbid))
            else:
                if f not in owing:
                    # completion by a path the wrappers do not see (e.g. `_me_delegate_cancelled`)
                    if not is_done.get(f):
                        is_done[f] = True
                        outs[f].append("A %s %d" % ("cancelOk" if e[4] and cancelled_hint(log, i, nm) else "finish", t))
                    owing[f] = t
                    stk.setdefault(t, [])
                outs[f].append("A invokeNext %d %d" % (owing.get(f, t), cbid))
    blocks = []
    for f in range(nf):
        if outs[f]:
            blocks.append(["S replay mefuture"] + outs[f] + ["."])
    return blocks


def decide_cancel(c, t, f, is_done, owing, outs):
    if is_done.get(f):
        outs[f].append("A cancelNoop %d" % t)
    elif c["ret"] is True:
        is_done[f] = True
        owing[f] = t
        c["won"] = True
        outs[f].append("A cancelOk %d" % t)
    else:
        outs[f].append("A cancelVeto %d" % t)


def cancelled_hint(log, i, nm):
    return True
