"""Projection of a raw dsched log of a single RetryExecutor layer onto the action alphabet of Model/Retry.lean.

Primitives are identified by creation order: the RLock created in the constructor = `_lock` (X), the Event = wake-up
event, the thread spawned there = submit thread; the first RLock created inside a submit() call = that future's
`_me_lock` (F).  Each thread has a stack of contexts (a cancel() call on a retry future, a delegate done-callback);
an outermost acquisition of X is attributed to the innermost context."""
from .common import ticks


class ProjError(Exception):
    pass


def ctor_objects(log, layer):
    X = E = worker = None
    inside = False
    for e in log:
        k = e[1]
        if k == "ctor>" and e[2] == layer:
            inside = True
        elif k == "ctor<" and e[2] == layer:
            break
        elif inside and k == "locknew" and e[2].startswith("R") and X is None and (len(e) < 4 or e[3] != "ShutdownHelper"):
            X = e[2]
        elif inside and k == "evnew":
            E = e[2]
        elif inside and k == "spawn":
            worker = e[2]
    if X is None or E is None or worker is None:
        raise ProjError("constructor of %s: lock=%r event=%r worker=%r" % (layer, X, E, worker))
    return X, E, worker


def policy_answer(log, i, t):
    """answer of the consultation starting at log index i on thread t: ('retry', sleep) | ('stop',) | ('raised',)"""
    ans = None
    for j in range(i + 1, len(log)):
        x = log[j]
        if x[0] != t:
            continue
        if x[1] == "policy<" and x[2] == "should_retry":
            ans = bool(x[4])
            if not ans:
                return ("stop",)
        elif x[1] == "policy<" and x[2] == "sleep_time":
            return ("retry", x[4])
        elif x[1] == "policy!":
            return ("raised",)
        elif x[1] in ("fset>", "dcompleted", "daddcb<"):
            break
    return ("raised",) if ans is None else ("stop",)


def project(log, desc, layer="L0", wake=False):
    """wake=False: actions of Model/Retry.lean; wake=True: the same execution projected onto Model/WakeProto.lean (items =
    jobs waiting for the submit thread, due = their `when`)"""
    X, E, worker = ctor_objects(log, layer)
    wout = ["S replay wake"]
    now_t = 0
    fut_of_d = {}
    sleep_of_d = {}
    wexpect_scan = True
    wparked = False
    cancel_dcancel = {}
    dcancel_ret, opened = {}, {}
    for i, e in enumerate(log):
        t, k = e[0], e[1]
        if k == "dcancel>":
            opened.setdefault(t, []).append(i)
        elif k == "dcancel<" and opened.get(t):
            dcancel_ret[opened[t].pop()] = e[3]
    out = ["S replay retry"]
    fid, flock, did = {}, {}, {}
    cancelled_dels = set()
    cur_submit = {}
    held = {}
    stk = {}            # tid -> context stack
    nf = nd = 0
    pend = {}
    wF = None           # (future id, lock name) whose F the submit thread holds in `_submit_now`

    def top(t):
        s = stk.get(t)
        return s[-1] if s else None

    for i, e in enumerate(log):
        t, k = e[0], e[1]
        if k in ("idle_jump", "tick"):
            out.append("A tick %s" % ticks(e[2]))
            now_t = int(ticks(e[2]))
            wout.append("A tick %s" % ticks(e[2]))
        elif k == "set" and e[2] == E:
            wout.append("A setE")
        elif k in ("tstart",) and t == worker:
            wexpect_scan = True
        elif k == "wait" and e[2] == E and t == worker:
            wout.append("A waitE %s" % ticks(e[3]))
            wparked = not e[4]
        elif k == "woke" and e[2] == E and t == worker:
            wout.append("A wake")
            wparked = False
        elif k == "clear" and e[2] == E and t == worker:
            if wparked:
                wout.append("A wake")
                wparked = False
            wout.append("A clearE")
            wexpect_scan = True
        elif k == "call" and e[2] == "submit":
            cur_submit[t] = {"key": e[3], "f": None, "flock": None, "depth": len(stk.get(t) or [])}
        elif k in ("ret", "raise") and e[2] == "submit":
            c = cur_submit.pop(t, None)
            if k == "ret" and c and c["f"] is not None:
                fid[e[3]] = c["f"]
        elif k == "locknew" and e[2].startswith("R") and t in cur_submit and cur_submit[t]["flock"] is None \
                and len(stk.get(t) or []) == cur_submit[t]["depth"]:
            cur_submit[t]["flock"] = e[2]
        elif k == "acq":
            L = e[2]
            held[(t, L)] = held.get((t, L), 0) + 1
            cm = top(t)
            if cm is not None and cm["kind"] == "cb" and cm.get("state") == "mark" and flock.get(L) == cm.get("mark_f"):
                # `_me_delegate_cancelled()`: the callback's thread takes the future's lock - re-entrantly when it is the thread
                # that is itself inside cancel() of that future (the callback was run inline by its delegate.cancel())
                inl = any(x["kind"] == "cancel" and x["f"] == cm["mark_f"] for x in stk.get(t, []))
                out.append("A cbMark %d %d %d" % (cm["mark_f"], cm["d"], 1 if inl else 0))
                cm["state"] = "done"
                continue
            if held[(t, L)] > 1:
                continue
            if t in pend and L in flock and (pend[t][0] is None or flock.get(L) == pend[t][0]):
                pf, acts, is_discard = pend.pop(t)
                if is_discard:
                    out.append("A discard %d" % flock[L])
                    wout.append("A remove %d" % flock[L])
                else:
                    out.extend(acts)
            c = top(t)
            if L == X:
                if t in cur_submit and cur_submit[t]["f"] is None and len(stk.get(t) or []) == cur_submit[t]["depth"]:
                    f = nf
                    nf += 1
                    cur_submit[t]["f"] = f
                    if cur_submit[t]["flock"]:
                        flock[cur_submit[t]["flock"]] = f
                    out.append("A submit %d" % f)
                    wout.append("A add %d %d" % (f, now_t))
                elif c is not None and c["kind"] == "cancel":
                    if not c["scanned"]:
                        c["scanned"] = True
                        out.append("A cancelScan %d" % c["f"])
                        # a job without delegate is popped by the scan: the cancel then issues no delegate.cancel()
                        c["wake_remove_at"] = len(wout)
                        wout.append(None)
                elif c is not None and c["kind"] == "cb":
                    if c["state"] == "cancelled":
                        out.append("A cbCancelled %d" % c["d"])
                        c["state"] = "mark"
                        c["mark_f"] = fut_of_d.get(c["d"])
                    elif c["state"] == "retry":
                        out.append("A cbRetry %d" % c["d"])
                        wout.append("A add %d %d" % (fut_of_d.get(c["d"], 0), now_t + int(sleep_of_d.get(c["d"], 0))))
                        c["state"] = "done"
                elif t == worker and wF is not None and wF[2]:
                    # second `_lock` section of `_submit_now` (the executor lock is released around delegate.submit()):
                    # the in-flight job is appended
                    out.append("A submitApp")
                elif t == worker and wF is not None:
                    wF = (wF[0], wF[1], True)
                    eff = 0
                    for j in range(i + 1, len(log)):
                        x = log[j]
                        if x[0] != t:
                            continue
                        if x[1] == "dsubmit":
                            eff = 1
                            break
                        if x[1] == "rel" and x[2] == wF[1]:
                            break
                    out.append("A submitNow %d %d" % (wF[0], eff))
                    wout.append("A rescan")
                    wout.append("A remove %d" % wF[0])
                    wexpect_scan = True
                elif t == worker and c is None and wF is None:
                    if wexpect_scan:
                        wout.append("A scan")
                        wexpect_scan = False
                    else:
                        # second section of the iteration without the future's lock: the discard of a stopped job
                        wout.append("A rescan")
                        wexpect_scan = True
            elif L in flock and t == worker and c is None:
                wF = (flock[L], L, False)
        elif k == "rel":
            L = e[2]
            held[(t, L)] = held.get((t, L), 1) - 1
            if held[(t, L)] == 0 and t == worker and wF is not None and L == wF[1] and top(t) is None:
                wF = None
            c = top(t)
            if held[(t, L)] == 0 and c is not None and c["kind"] == "cancel" and c["scanned"] and not c.get("ended") \
                    and flock.get(L) == c["f"]:
                # `_Future.cancel` leaves its `with self._me_lock` block: the future is cancelled (or the cancel was vetoed)
                c["ended"] = True
                out.append("A cancelEnd %d" % c["f"])
        elif k == "dsubmit" and t == worker:
            did[e[3]] = nd
            if wF is not None:
                fut_of_d[nd] = wF[0]
            nd += 1
        elif k == "fset>":
            c = top(t)
            # the future becomes done inside set_*(), under its own lock: the action is placed at that acquisition, which also
            # identifies the future (its name may not be known yet when submit() has not returned)
            f_known = fid.get(e[2])
            if c is not None and c["kind"] == "cb" and c["state"] in ("final", "policy"):
                acts = []
                if c["state"] == "policy":
                    acts.append("A cbPolicy %d none" % c["d"])
                acts.append("A cbFinal %d" % c["d"])
                c["state"] = "done"
                pend[t] = (f_known, acts, False)
            elif t == worker and c is None:
                pend[t] = (f_known, None, True)
        elif k in ("fset<", "fset!") and t in pend:
            pf, acts, is_discard = pend.pop(t)
            if is_discard:
                if pf is not None:
                    out.append("A discard %d" % pf)
                    wout.append("A remove %d" % pf)
            else:
                out.extend(acts)
        elif k == "dcomplete" and e[2] in did:
            out.append("A ddone %d 0" % did[e[2]])
            stk.setdefault(t, []).append({"kind": "cb", "d": did[e[2]], "state": "policy", "nm": e[2]})
        elif k == "daddcb>" and e[2] in did and e[3]:
            stk.setdefault(t, []).append({"kind": "cb", "d": did[e[2]], "nm": e[2],
                                          "state": "cancelled" if e[2] in cancelled_dels else "policy"})
        elif k == "dcancel>" and e[2] in did:
            r = dcancel_ret.get(i)
            c = top(t)
            already = e[2] in cancelled_dels      # cancel() of an already cancelled future: True, and nothing happens
            if c is not None and c["kind"] == "cancel":
                c["had_dcancel"] = True
                out.append("A cancelDel %d %d" % (c["f"], 1 if r else 0))
            elif r and not already:
                out.append("A ddone %d 1" % did[e[2]])
            if r:
                cancelled_dels.add(e[2])
            stk.setdefault(t, []).append({"kind": "cb", "d": did[e[2]], "nm": e[2],
                                          "state": "cancelled" if (r and not already) else "done"})
        elif k in ("dcompleted", "daddcb<", "dcancel<") and e[2] in did:
            c = top(t)
            if c is not None and c["kind"] == "cb" and c["nm"] == e[2] and not (k == "daddcb<" and c.get("from") == "other"):
                stk[t].pop()
        elif k == "policy" and e[2] == "should_retry":
            c = top(t)
            if c is not None and c["kind"] == "cb" and c["state"] == "policy":
                a = policy_answer(log, i, t)
                if a[0] == "retry":
                    sleep_of_d[c["d"]] = ticks(a[1])
                    out.append("A cbPolicy %d retry %s" % (c["d"], ticks(a[1])))
                    c["state"] = "retry"
                else:
                    out.append("A cbPolicy %d %s" % (c["d"], a[0]))
                    c["state"] = "final"
        elif k == "fcancel>" and e[2] in fid:
            stk.setdefault(t, []).append({"kind": "cancel", "f": fid[e[2]], "scanned": False, "nm": e[2]})
        elif k == "fcancel<" and e[2] in fid:
            c = top(t)
            if c is not None and c["kind"] == "cancel" and c["nm"] == e[2]:
                stk[t].pop()
                if c.get("wake_remove_at") is not None and not c.get("had_dcancel"):
                    wout[c["wake_remove_at"]] = "A remove %d" % c["f"]
                if c["scanned"] and not c.get("ended"):
                    out.append("A cancelEnd %d" % c["f"])
    out.append(".")
    if wake:
        return [x for x in wout if x is not None] + ["."]
    return out
