"""Which properties are claimed, with which words.  tools_manifest.py turns this into MANIFEST.json."""

COMMON_NOTE = ("Trusted: Lean 4.33 kernel; axioms limited to propext/Quot.sound/Classical.choice (audited each run by "
               "#print axioms); harness/pygen translator (validated each run by a kernel differential); harness/dsched "
               "deterministic scheduler + SimPool delegates + virtual clock; the rendering of the property as theorems in "
               "lean/MoreExec/Props. Correspondence covers the explored schedules only; the universal claim is about the model.")

PROPS = {}

_PENDING = "machinery for this property is not built yet in this revision (see DESIGN.md section 9 build order)"
NOT_APPLICABLE = {("C%02d" % i): _PENDING for i in range(1, 21)}
for _k in PROPS:
    NOT_APPLICABLE.pop(_k, None)
