"""Which properties are claimed, with which words.  tools_manifest.py turns this into MANIFEST.json."""

COMMON_NOTE = ("Trusted: Lean 4.33 kernel; axioms limited to propext/Quot.sound/Classical.choice (audited each run by "
               "#print axioms); harness/pygen translator (validated each run by a kernel differential); harness/dsched "
               "deterministic scheduler + SimPool delegates + virtual clock; the rendering of the property as theorems in "
               "lean/MoreExec/Props. Correspondence covers the explored schedules only; the universal claim is about the model.")

PROPS = {
    "C19": dict(
        technique="Lean 4 proofs by induction over any with_* chain (bind commutes with chaining, flat_bind = bind + flat_map identity, name inheritance) on a model whose wiring facts K9 are regenerated from wrap.py/executors.py/bind.py and decided; paired-program differential of the real bind form vs executor form",
        level_text="Machine-checked theorems for chains of any length applied before and/or after bind: the bound callable ends up bound to exactly the executor stack that chaining the executor directly builds (same layers, same order, same names, same fn), flat_bind adds one flat-map identity layer, and every layer created from a named base carries that name unless one is given. The wiring facts the model depends on are extracted from the source on every run and a decide-proof checks them. The differential runs both forms side by side on random chains, callable kinds and outcome scripts and compares outcomes, invocation counts and created thread names.",
        design_ref="DESIGN.md section 6 C19",
        level_note="Modelled, not verified: equal stacks behave equally (C01); K9 is a pattern-based extraction (a harmless rewrite of those few lines breaks the obligation and triggers the differential search)."),
    "C17": dict(
        technique="Lean 4: forwarding table K8 regenerated from proxy.py/nocancel.py and decided transparent (decide over the whole table); operator protocol modelled as a parameter with theorems for every operand semantics (operator form transparent, direct dunder call not); differential of every forwarded operation x operand types on the real f_proxy; non-blocking / timeout / f_nocancel under a deterministic scheduler",
        level_text="Machine-checked: for every semantics of the operand types, a proxy method written as the operator/builtin applied to the result is transparent including the reflected fall-back, while a direct dunder call is not (witness theorems); the table of how each ProxyFuture method reaches the result is regenerated from the source on every run and a decide-proof shows every Python-3 forwarded method is of the transparent kind, that bool/unknown-dunder lookups never touch the result and repr/str/eq/hash are not forwarded, and that NoCancelFuture.cancel is the constant False. The differential runs each forwarded operation over ~12k operand combinations across the builtin types on the real proxy and the plain value.",
        design_ref="DESIGN.md section 6 C17",
        level_note="Modelled, not verified: Python's numeric and container semantics (parameter of the theorems; sampled by the differential); MapFuture mirroring of the outcome is C13/C02."),
    "C16": dict(
        technique="Lean 4 proofs by structural induction over the argument list (any arity) on a model of f_apply's nested flat-maps and fn_runner closures: argument order / keyword binding, called iff all inputs succeeded, failure comes from an input; differential of the real f_apply against the model under a deterministic scheduler",
        level_text="Machine-checked theorems for every arity: the function finally receives the positional arguments in their original order and each keyword under its own name and nothing else; it is called exactly when the function future and all argument futures succeeded; a failed output carries the exception of one of the failed inputs. The hand-written model mirrors apply.py's recursion; it is tied to the code by running the real f_apply (arities 0-5 x 0-3 keywords, failing/cancelled inputs at every position, all completion orders over 1-3 threads) and comparing calls and outcomes (by identity) with the model's executable definition, next to direct property monitors.",
        design_ref="DESIGN.md section 6 C16",
        level_note="Modelled, not verified: the map/flat_map steps are C13's model; schedule independence is inherited from C13/C02; hand-written model (differential tie only)."),
    "C13": dict(
        technique="Lean 4 proofs by exhaustive case analysis over a functional model of MapFuture/FlatMapFuture resolution (spec equality, call discipline, identity, composition) for arbitrary user functions; differential of the real MapExecutor/FlatMapExecutor/f_map/f_flat_map against the model over the full behaviour cross product under a deterministic scheduler",
        level_text="Machine-checked theorems for every input outcome and every total behaviour of fn/error_fn: the resolution procedure equals the property's spec, fn and error_fn are each called at most once and only for their own case with the input's own value/exception, omitted functions are the identity and keep the exception object, map stages compose, flat_map of a non-future is TypeError. The hand-written model is tied to map.py/flat_map.py by running the real code on the full cross product of behaviours, forms and timings and comparing outcome identity and call arguments with the model's executable definition.",
        design_ref="DESIGN.md section 6 C13, Appendix A.2",
        level_note="Modelled, not verified: tracebacks; the _Future callback/cancel protocol underneath (C02); the model is hand-written (no regenerated kernel), so its tie is the differential over the enumerated behaviour domain."),
    "C15": dict(
        technique="Lean 4 proofs (induction over any completion order / permutation) that the zipper output holds input i's result at position i, first failure wins, f_traverse call discipline, over the decision kernel K6 regenerated from futures/zip.py; histories of the real f_zip/f_sequence/f_traverse replayed through the Lean model",
        level_text="Machine-checked theorems for every number of inputs and every completion order: positions are preserved, the first exception/cancellation observed decides the output and nothing later changes it, f_traverse calls fn once per element in order and stops at the first raise. K6 is regenerated from zip.py every run and differentially tested; real executions under random/PCT schedules supply the order of handle_done critical sections, which the Lean model runs and whose result is compared (by object identity) with the real output.",
        design_ref="DESIGN.md section 6 C15, Appendix A.3",
        level_note="Modelled, not verified: mutual exclusion of the handle_done sections (order read from the log); the list() mapping step of f_sequence/f_traverse is C13's MapFuture; exception objects assumed truthy (S18)."),
    "C14": dict(
        technique="Lean 4 proofs (structural induction over the completion order) that f_or / f_and equal the or/and fold, losers-cancelled and decided-once, over the decision kernel K5 regenerated from futures/bool.py; histories of the real code (order of handle_done critical sections under a deterministic scheduler) replayed through the Lean fold",
        level_text="Machine-checked theorems for every completion order of any length: the output equals the or/and fold, exactly the inputs pending at the decision are cancelled, later completions change nothing, cancelling the output fans out. The decision function is regenerated from bool.py each run (and differentially tested exhaustively); real executions under random/PCT schedules supply the critical-section order, which the Lean model folds and the result is compared with the real output future and the cancel() calls observed.",
        design_ref="DESIGN.md section 6 C14, Appendix A.3",
        level_note="Modelled, not verified: mutual exclusion of handle_done sections is taken from the Lock (the section order is read from the log); exception objects assumed truthy in the theorems (S18); duplicates only in the correspondence."),
    "C09": dict(
        technique="Lean 4 invariant proofs over a transition-system model of TimeoutExecutor (never-early, exactly-once, sleep invariant / no-overshoot); kernel K3 regenerated from timeout.py; replay correspondence of the real code under a deterministic scheduler",
        level_text="Machine-checked theorems (Lean 4 kernel) over all runs of an executable model of TimeoutExecutor: every cancel attempt is strictly after the job's own deadline, no future gets two attempts, and no idle jump of virtual time passes the deadline of a job while the timeout thread is parked (sleep invariant). The partition/wait-time kernel is regenerated from timeout.py on every run; the hand-written model is tied to the code by validating event logs of the real TimeoutExecutor (random/PCT line-level schedules, virtual clock) against the model's executable step function, with property monitors as failing-input search.",
        design_ref="DESIGN.md section 6 C09, Appendix A.7",
        level_note="Modelled, not verified: the MapFuture internals of the returned futures (abstracted to done/linked/hasCb bits; full protocol is C02), f_timeout's shared weakly-referenced executor (lifecycle is C12), OS scheduling latency (virtual clock)."),
}

_PENDING = "machinery for this property is not built yet in this revision (see DESIGN.md section 9 build order)"
NOT_APPLICABLE = {("C%02d" % i): _PENDING for i in range(1, 21)}
for _k in PROPS:
    NOT_APPLICABLE.pop(_k, None)
