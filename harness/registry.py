"""Which properties are claimed, with which words.  tools_manifest.py turns this into MANIFEST.json."""

COMMON_NOTE = ("Trusted: Lean 4.33 kernel; axioms limited to propext/Quot.sound/Classical.choice (audited each run by "
               "#print axioms); harness/pygen translator (validated each run by a kernel differential); harness/dsched "
               "deterministic scheduler + SimPool delegates + virtual clock; the rendering of the property as theorems in "
               "lean/MoreExec/Props. Correspondence covers the explored schedules only; the universal claim is about the model.")

PROPS = {
    "C09": dict(
        technique="Lean 4 invariant proofs over a transition-system model of TimeoutExecutor (never-early, exactly-once, sleep invariant / no-overshoot); kernel K3 regenerated from timeout.py; replay correspondence of the real code under a deterministic scheduler",
        level_text="Machine-checked theorems (Lean 4 kernel) over all runs of an executable model of TimeoutExecutor: every cancel attempt is strictly after the job's own deadline, no future gets two attempts, and no idle jump of virtual time passes the deadline of a job while the timeout thread is parked (sleep invariant). The partition/wait-time kernel is regenerated from timeout.py on every run; the hand-written model is tied to the code by validating event logs of the real TimeoutExecutor (random/PCT line-level schedules, virtual clock) against the model's executable step function, with property monitors as failing-input search.",
        design_ref="DESIGN.md section 6 C09, Appendix A.7",
        level_note="Modelled, not verified: the MapFuture internals of the returned futures (abstracted to done/linked/hasCb bits; full protocol is C02), f_timeout's shared weakly-referenced executor (lifecycle is C12), OS scheduling latency (virtual clock)."),
}

_PENDING = "machinery for this property is not built yet in this revision (see DESIGN.md section 9 build order)"
NOT_APPLICABLE = {("C%02d" % i): _PENDING for i in range(1, 21)}
for _k in PROPS:
    NOT_APPLICABLE.pop(_k, None)
