"""Kernel differentials: run the Python function from /repo and the regenerated Lean kernel on the same inputs."""
import contextlib
import itertools
import random

import leanval


class _FakeFut(object):
    def __init__(self, i, done):
        self.i = i
        self._d = done

    def done(self):
        return self._d

    def cancel(self):
        return False


class _NullLog(object):
    def debug(self, *a, **k):
        pass
    info = exception = debug


def k3_cases(rng, n_random):
    cases = []
    # exhaustive small domain: up to 3 jobs, deadlines 0..3, done bits, now 0..3
    for n in range(0, 3):
        for combo in itertools.product(itertools.product([0, 1], [0, 1, 2, 3]), repeat=n):
            for now in range(0, 4):
                cases.append((now, [(i, d, dl) for i, (d, dl) in enumerate(combo)]))
    for _ in range(n_random):
        n = rng.randint(0, 8)
        cases.append((rng.randint(0, 50), [(i, rng.randint(0, 1), rng.randint(0, 60)) for i in range(n)]))
    return cases


def k3_diff(seed, n_random=300):
    """returns dict(hits, stats, samples, fingerprints, broken)"""
    from more_executors._impl import timeout as tmod
    from more_executors._impl.timeout import TimeoutExecutor, Job
    rng = random.Random(seed)
    cases = k3_cases(rng, n_random)
    lines = []
    py = []
    saved = tmod.monotonic
    try:
        for (now, jobs) in cases:
            tmod.monotonic = lambda now=now: now
            ex = TimeoutExecutor.__new__(TimeoutExecutor)
            ex._log = _NullLog()
            ex._jobs = [Job(_FakeFut(i, bool(d)), None, dl) for (i, d, dl) in jobs]
            try:
                pend, over = ex._partition_jobs()
                r1 = "[%s] [%s]" % (" ".join(str(j.future.i) for j in pend), " ".join(str(j.future.i) for j in over))
            except Exception as e:
                r1 = "EXC:%s" % type(e).__name__
            # wait-time slice of _job_loop_iter: all futures pending, deadlines >= now  => nothing is overdue
            ex2 = TimeoutExecutor.__new__(TimeoutExecutor)
            ex2._log = _NullLog()
            ex2._name = "k"
            ex2._jobs = [Job(_FakeFut(i, False), None, max(dl, now)) for (i, d, dl) in jobs]
            ex2._jobs_lock = contextlib.nullcontext()
            ex2._jobs_write = "EV"

            class _SD(object):
                is_shutdown = False
            ex2._shutdown = _SD()
            try:
                (_ev, wt) = TimeoutExecutor._job_loop_iter(ex2)
                r2 = "None" if wt is None else str(wt)
            except Exception as e:
                r2 = "EXC:%s" % type(e).__name__
            flat = " ".join("%d %d %d" % j for j in jobs)
            flat2 = " ".join("%d 0 %d" % (i, max(dl, now)) for (i, d, dl) in jobs)
            lines.append("k3.partition %d %s" % (now, flat))
            py.append(r1)
            lines.append("k3.wait %d %s" % (now, flat2))
            py.append(r2)
    finally:
        tmod.monotonic = saved
    out = leanval.validate_blocks([["S oracle"] + lines + ["."]])[0]
    assert out.startswith("ORACLE "), out[:200]
    lean = out[len("ORACLE "):].split(";")
    hits = []
    for ln, a, b in zip(lines, py, lean):
        if a != b:
            hits.append({"sig": "K3/kernel-differs", "detail": "%s: python=%s lean=%s" % (ln, a, b), "desc": {"kind": "k3diff", "line": ln}})
            break
    return {"hits": [], "broken": ([{"what": "translator differential K3", "detail": hits[0]["detail"]}] if hits else []),
            "stats": {"differential_cases": len(lines)}, "validated": 0,
            "samples": [{"kernel_case": lines[7], "python": py[7], "lean": lean[7]}],
            "fingerprints": ["k3:%d" % i for i in range(len(set(lines)))]}


def k4_diff(seed, n_random=400):
    """throttle.py `_submit_loop_iter` admission loop vs the regenerated Lean kernel K4.admit."""
    import collections
    import contextlib
    from more_executors._impl import throttle as tmod
    rng = random.Random(seed * 31 + 4)
    cases = []
    for qn in range(0, 4):
        for running in range(0, 4):
            for th in [None, 0, 1, 2, 3]:
                cases.append((list(range(10, 10 + qn)), running, th))
    for _ in range(n_random):
        cases.append(([rng.randrange(100) for _ in range(rng.randint(0, 9))], rng.randint(0, 6), rng.choice([None, 0, 1, 2, 3, 5, 8])))
    lines, py = [], []

    class _AI(object):
        def __init__(self, v):
            self.value = v

        def incr(self):
            self.value += 1

    class _G(object):
        n = 0

        def labels(self, **k):
            return self

        def dec(self):
            _G.n += 1

        def inc(self, *a):
            pass

    saved_metrics = tmod.metrics
    saved_is_shutdown = tmod.is_shutdown

    class _M(object):
        THROTTLE_QUEUE = _G()
    try:
        tmod.metrics = _M()
        tmod.is_shutdown = lambda: False
        for (q, running, th) in cases:
            ex = tmod.ThrottleExecutor.__new__(tmod.ThrottleExecutor)
            ex._log = _NullLog()
            ex._name = "k"
            ex._to_submit = collections.deque(tmod.ThrottleJob(None, j, (), {}) for j in q)
            ex._lock = contextlib.nullcontext()
            ex._running_count = _AI(running)
            ex._event = "EV"
            ex._eval_throttle = lambda th=th: th
            handed = []
            ex._do_submit = lambda job, handed=handed: handed.append(job.fn)

            class _SD(object):
                is_shutdown = False
            ex._shutdown = _SD()

            class _Room(object):
                notified = 0

                def notify_all(self):
                    self.notified += 1
            ex._room = _Room()
            _G.n = 0
            try:
                tmod._submit_loop_iter(ex)
                r = "[%s] [%s] %d %d %d" % (" ".join(map(str, handed)), " ".join(str(j.fn) for j in ex._to_submit), ex._running_count.value,
                                            _G.n, 1 if ex._room.notified else 0)
            except Exception as e:
                r = "EXC:%s" % type(e).__name__
            lines.append("k4.admission %s %d %s" % ("None" if th is None else th, running, " ".join(map(str, q))))
            py.append(r)
        # the `while` test of `_block_until_ready`: drive the real method with a stub condition whose wait() records that the
        # submitter went to sleep and then makes the test false (by emptying the queue), over the full small domain
        for tv in [None, 0, 1, 2, 3]:
            for qn in range(0, 5):
                for sh in (False, True):
                    ex = tmod.ThrottleExecutor.__new__(tmod.ThrottleExecutor)
                    ex._log = _NullLog()
                    ex._name = "k"
                    ex._block = True
                    ex._to_submit = collections.deque(range(qn))

                    class _SD2(object):
                        is_shutdown = sh
                    ex._shutdown = _SD2()

                    class _Cond(object):
                        waits = 0

                        def __enter__(self):
                            return self

                        def __exit__(self, *a):
                            return False

                        def wait(self, timeout=None):
                            self.waits += 1
                            ex._to_submit.clear()
                            _SD2.is_shutdown = True
                    ex._room = _Cond()
                    ex._event = ex._room
                    ex._thread = object()       # not the calling thread: the differential runs on a submitter's thread
                    try:
                        ex._block_until_ready(tv)
                        r = "1" if ex._room.waits else "0"
                    except Exception as e:
                        r = "EXC:%s" % type(e).__name__
                    lines.append("k4.blockwait %s %d %d" % ("None" if tv is None else tv, qn, 1 if sh else 0))
                    py.append(r)
    finally:
        tmod.metrics = saved_metrics
        tmod.is_shutdown = saved_is_shutdown
    out = leanval.validate_blocks([["S oracle"] + lines + ["."]])[0]
    assert out.startswith("ORACLE "), out[:200]
    lean = out[len("ORACLE "):].split(";")
    bad = [(ln, a, b) for ln, a, b in zip(lines, py, lean) if a != b]
    return {"hits": [], "broken": ([{"what": "translator differential K4", "detail": "%s: python=%s lean=%s" % bad[0]}] if bad else []),
            "stats": {"differential_cases": len(lines)}, "validated": 0,
            "samples": [{"kernel_case": lines[-1], "python": py[-1], "lean": lean[-1]}],
            "fingerprints": ["k4:%d" % i for i in range(len(set(lines)))]}


class _PFut(object):
    def __init__(self, exc):
        self._e = exc

    def exception(self):
        return self._e


def k1_diff(seed, n_random=300):
    """ExceptionRetryPolicy.should_retry / sleep_time vs the regenerated Lean kernel K1."""
    from more_executors.retry import ExceptionRetryPolicy

    class A(Exception):
        pass

    class B(A):
        pass

    class C(Exception):
        pass

    class Fz(Exception):
        def __bool__(self):
            return False
    classes = [A, B, C, Fz]
    rng = random.Random(seed * 17 + 1)
    cases = []
    for ma in (0, 1, 2, 3):
        for att in (1, 2, 3, 4):
            for exc in (None, A, B, C, Fz):
                for base in ([0], [2], [0, 2], [1], []):
                    cases.append((ma, 2, 1, 5, base, att, exc))
    for _ in range(n_random):
        cases.append((rng.randint(0, 6), rng.randint(0, 4), rng.randint(0, 5), rng.randint(0, 60),
                      rng.sample([0, 1, 2, 3], rng.randint(0, 3)), rng.randint(1, 8), rng.choice([None, A, B, C, Fz])))
    lines, py = [], []
    for (ma, ex, sl, ms, base, att, exc) in cases:
        pol = ExceptionRetryPolicy(max_attempts=ma, exponent=ex, sleep=sl, max_sleep=ms, exception_base=[classes[b] for b in base])
        e = None if exc is None else exc("x")
        try:
            r1 = "true" if pol.should_retry(att, _PFut(e)) else "false"
        except Exception as err:
            r1 = "EXC:%s" % type(err).__name__
        try:
            v = pol.sleep_time(att, None)
            r2 = str(int(v)) if float(v) == int(v) else repr(v)
        except Exception as err:
            r2 = "EXC:%s" % type(err).__name__
        inst = [i for i, c in enumerate(classes) if e is not None and isinstance(e, c)]
        truthy = 1 if (e is not None and bool(e)) else 0
        lines.append("k1.should %d %d %d %d %s %d %s %d %s" % (ma, ex, sl, ms, ",".join(map(str, base)) or "-", att,
                                                              "none" if e is None else "exc", truthy, ",".join(map(str, inst)) or "-"))
        py.append(r1)
        lines.append("k1.sleep %d %d %d %d %d" % (ma, ex, sl, ms, att))
        py.append(r2)
    return _oracle_compare("K1", lines, py)


def k2_diff(seed, n_random=300):
    """RetryExecutor._get_next_job vs the regenerated Lean kernel K2."""
    from more_executors._impl import retry as rmod
    rng = random.Random(seed * 19 + 2)
    cases = []
    import itertools
    opts = [(d, st, w) for d in (0, 1) for st in (0, 1) for w in (0, 2, 5)]
    for n in range(0, 3):
        for combo in itertools.product(opts, repeat=n):
            for now in (0, 2, 3):
                cases.append((now, list(combo)))
    for _ in range(n_random):
        cases.append((rng.randint(0, 20), [(rng.randint(0, 1), 1 if rng.random() < 0.15 else 0, rng.randint(0, 25)) for _ in range(rng.randint(0, 7))]))
    lines, py = [], []
    saved = rmod.monotonic
    try:
        for (now, jobs) in cases:
            rmod.monotonic = lambda now=now: now
            ex = rmod.RetryExecutor.__new__(rmod.RetryExecutor)
            js = []
            for i, (d, st, w) in enumerate(jobs):
                j = rmod.RetryJob(None, ("D%d" % i) if d else None, "F%d" % i, 1, w, None, (), {})
                j.stop_retry = bool(st)
                j.idx = i
                js.append(j)
            ex._jobs = js
            try:
                r = ex._get_next_job()
                r1 = "none" if r is None else str(r.idx)
            except Exception as err:
                r1 = "EXC:%s" % type(err).__name__
            lines.append("k2.next %d %s" % (now, " ".join("%d %d %d %d" % (i, d, st, w) for i, (d, st, w) in enumerate(jobs))))
            py.append(r1)
    finally:
        rmod.monotonic = saved
    return _oracle_compare("K2", lines, py)


def _oracle_compare(name, lines, py):
    out = leanval.validate_blocks([["S oracle"] + lines + ["."]])[0]
    assert out.startswith("ORACLE "), out[:200]
    lean = out[len("ORACLE "):].split(";")
    bad = [(ln, a, b) for ln, a, b in zip(lines, py, lean) if a != b]
    return {"hits": [], "broken": ([{"what": "translator differential %s" % name, "detail": "%s: python=%s lean=%s" % bad[0]}] if bad else []),
            "stats": {"differential_cases": len(lines)}, "validated": 0,
            "samples": [{"kernel_case": lines[-1], "python": py[-1], "lean": lean[-1]}],
            "fingerprints": ["%s:%d" % (name.lower(), i) for i in range(len(set(lines)))]}
