"""Kernel differentials: run the Python function from /repo and the regenerated Lean kernel on the same inputs."""
import contextlib
import itertools
import random

import leanval


class _FakeFut(object):
    def __init__(self, i, done):
        self.i = i
        self._d = done

    def done(self):
        return self._d

    def cancel(self):
        return False


class _NullLog(object):
    def debug(self, *a, **k):
        pass
    info = exception = debug


def k3_cases(rng, n_random):
    cases = []
    # exhaustive small domain: up to 3 jobs, deadlines 0..3, done bits, now 0..3
    for n in range(0, 3):
        for combo in itertools.product(itertools.product([0, 1], [0, 1, 2, 3]), repeat=n):
            for now in range(0, 4):
                cases.append((now, [(i, d, dl) for i, (d, dl) in enumerate(combo)]))
    for _ in range(n_random):
        n = rng.randint(0, 8)
        cases.append((rng.randint(0, 50), [(i, rng.randint(0, 1), rng.randint(0, 60)) for i in range(n)]))
    return cases


def k3_diff(seed, n_random=300):
    """returns dict(hits, stats, samples, fingerprints, broken)"""
    from more_executors._impl import timeout as tmod
    from more_executors._impl.timeout import TimeoutExecutor, Job
    rng = random.Random(seed)
    cases = k3_cases(rng, n_random)
    lines = []
    py = []
    saved = tmod.monotonic
    try:
        for (now, jobs) in cases:
            tmod.monotonic = lambda now=now: now
            ex = TimeoutExecutor.__new__(TimeoutExecutor)
            ex._log = _NullLog()
            ex._jobs = [Job(_FakeFut(i, bool(d)), None, dl) for (i, d, dl) in jobs]
            try:
                pend, over = ex._partition_jobs()
                r1 = "[%s] [%s]" % (" ".join(str(j.future.i) for j in pend), " ".join(str(j.future.i) for j in over))
            except Exception as e:
                r1 = "EXC:%s" % type(e).__name__
            # wait-time slice of _job_loop_iter: all futures pending, deadlines >= now  => nothing is overdue
            ex2 = TimeoutExecutor.__new__(TimeoutExecutor)
            ex2._log = _NullLog()
            ex2._name = "k"
            ex2._jobs = [Job(_FakeFut(i, False), None, max(dl, now)) for (i, d, dl) in jobs]
            ex2._jobs_lock = contextlib.nullcontext()
            ex2._jobs_write = "EV"

            class _SD(object):
                is_shutdown = False
            ex2._shutdown = _SD()
            try:
                (_ev, wt) = TimeoutExecutor._job_loop_iter(ex2)
                r2 = "None" if wt is None else str(wt)
            except Exception as e:
                r2 = "EXC:%s" % type(e).__name__
            flat = " ".join("%d %d %d" % j for j in jobs)
            flat2 = " ".join("%d 0 %d" % (i, max(dl, now)) for (i, d, dl) in jobs)
            lines.append("k3.partition %d %s" % (now, flat))
            py.append(r1)
            lines.append("k3.wait %d %s" % (now, flat2))
            py.append(r2)
    finally:
        tmod.monotonic = saved
    out = leanval.validate_blocks([["S oracle"] + lines + ["."]])[0]
    assert out.startswith("ORACLE "), out[:200]
    lean = out[len("ORACLE "):].split(";")
    hits = []
    for ln, a, b in zip(lines, py, lean):
        if a != b:
            hits.append({"sig": "K3/kernel-differs", "detail": "%s: python=%s lean=%s" % (ln, a, b), "desc": {"kind": "k3diff", "line": ln}})
            break
    return {"hits": [], "broken": ([{"what": "translator differential K3", "detail": hits[0]["detail"]}] if hits else []),
            "stats": {"differential_cases": len(lines)}, "validated": 0,
            "samples": [{"kernel_case": lines[7], "python": py[7], "lean": lean[7]}],
            "fingerprints": ["k3:%d" % i for i in range(len(set(lines)))]}
