"""Client of the native Lean trace validator (lean/.lake/build/bin/validate)."""
import os
import subprocess

HERE = os.path.dirname(os.path.abspath(__file__))
BIN = os.path.join(os.path.dirname(HERE), "lean", ".lake", "build", "bin", "validate")


def validate_blocks(blocks, timeout=600):
    """blocks: list of list-of-lines (each starting with 'S model', ending with '.').
    Returns list of verdict strings, one per block."""
    if not blocks:
        return []
    data = "\n".join("\n".join(b) for b in blocks) + "\n"
    p = subprocess.run([BIN], input=data.encode(), stdout=subprocess.PIPE, stderr=subprocess.PIPE, timeout=timeout)
    if p.returncode != 0:
        raise RuntimeError("validator failed: %s" % p.stderr.decode()[:2000])
    out = p.stdout.decode().splitlines()
    if len(out) != len(blocks):
        raise RuntimeError("validator answered %d verdicts for %d blocks: %r" % (len(out), len(blocks), out[:3]))
    return out
