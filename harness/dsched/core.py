"""Deterministic scheduler for running the real more_executors code.

Exactly one controlled thread runs at a time (baton = per-thread semaphore).  Context switches happen
only at yield points: operations on controlled primitives, harness-provided user code, and (optionally)
every source line of more_executors/_impl (sys.settrace).  Time is virtual: it advances only by an idle
jump (nothing runnable -> earliest timed waiter) or by a zero-wait tick (wait(0) on a clear event).

Nothing here is claimed as proof; this is the correspondence/search leg (DESIGN.md section 4).
"""
import gc
import os
import random
import sys
import threading as _th
import weakref

TICK = 2.0 ** -20
UNTIMED = 1e6  # waits of this many seconds or more are treated as untimed

_real_Lock = _th.Lock
_real_RLock = _th.RLock
_real_Event = _th.Event
_real_Thread = _th.Thread
_real_Condition = _th.Condition
_real_Semaphore = _th.Semaphore

ACTIVE = None  # the running Sched, if any


class Abort(BaseException):
    """Raised inside parked threads at teardown so they unwind and exit."""


class SchedError(Exception):
    pass


class CT(object):
    __slots__ = ("tid", "name", "sem", "state", "pred", "deadline", "timed_out", "real", "park",
                 "daemon", "target", "exc", "role", "cthread", "__weakref__")

    def __init__(self, tid, name, role):
        self.tid = tid
        self.name = name
        self.role = role
        self.sem = _real_Semaphore(0)
        self.state = "new"  # new | ready | blocked | done
        self.pred = None
        self.deadline = None
        self.timed_out = False
        self.real = None
        self.park = None
        self.exc = None
        self.cthread = None     # the library-visible Thread object (CThread) of a thread the library created


class Chooser(object):
    """Schedule strategy.  All randomness comes from one PRNG."""

    LAST = None     # the most recently created strategy (lets a search read `hot_count` after an in-process run)

    def __init__(self, seed=0, mode="random", p_switch=0.2, replay=None, pct_depth=3, est_len=2000, hold_at=None):
        Chooser.LAST = self
        # "holdat" mode: (tid, k) = suspend thread tid at its k-th hot yield; a list of such pairs places several suspensions (they are
        # released oldest first, each time every other thread is blocked or suspended)
        if hold_at and isinstance(hold_at[0], (list, tuple)):
            self.hold_ats = set((int(a), int(b)) for (a, b) in hold_at)
        else:
            self.hold_ats = {(int(hold_at[0]), int(hold_at[1]))} if hold_at else set()
        self.hold_at = tuple(hold_at) if hold_at else None
        self.hot_count = {}
        self.rng = random.Random(seed)
        self.mode = mode
        self.p_switch = p_switch
        self.replay = list(replay) if replay is not None else None
        self.pos = 0
        self.record = []
        self.prio = {}
        self.pct_depth = pct_depth
        self.change_points = sorted(self.rng.randrange(1, est_len) for _ in range(pct_depth)) if mode == "pct" else []
        self.nchoices = 0
        self.after_op = {}
        # "hold" mode: a thread is suspended at a (mostly boundary) yield point and stays suspended until every other thread
        # has run into a blocking operation - the shape of a race window: A pauses inside a few-line window, everybody else
        # runs to quiescence, A resumes.  At most `holds_left` suspensions per run, each taken with probability `hold_p`.
        self.sched = None       # set by Sched: lets the strategy see which controlled locks the current thread holds
        self.held = []
        self.holds_left = self.rng.choice([1, 2, 3]) if mode == "hold" else 0
        self.hold_p = self.rng.choice([0.3, 0.1, 0.03, 0.01, 0.003]) if mode == "hold" else 0.0

    def choose(self, cur_tid, runnable, kind):
        """runnable: sorted list of tids (non-empty).  Returns chosen tid."""
        self.nchoices += 1
        if len(runnable) == 1:
            c = runnable[0]
        elif self.replay is not None:
            if self.pos < len(self.replay):
                c = self.replay[self.pos]
                self.pos += 1
                if c not in runnable:
                    c = runnable[0] if cur_tid not in runnable else cur_tid
            else:
                c = cur_tid if cur_tid in runnable else runnable[0]
            self.record.append(c)
            return c
        elif self.mode == "pct":
            for t in runnable:
                if t not in self.prio:
                    self.prio[t] = self.rng.random() + 1.0
            if self.change_points and self.nchoices >= self.change_points[0]:
                self.change_points.pop(0)
                if cur_tid in runnable:
                    self.prio[cur_tid] = self.rng.random() * 0.5
            c = max(runnable, key=lambda t: self.prio[t])
        elif self.mode == "holdat":
            # systematic placement of ONE suspension: thread `tid` is suspended at its k-th hot yield (boundary operation, first
            # line after one, or any line executed while holding a controlled lock) until every other thread is blocked
            hot = kind != "line" or self.after_op.get(cur_tid, False)
            self.after_op[cur_tid] = (kind != "line")
            if not hot and self.sched is not None and self.sched.held.get(cur_tid):
                hot = True
            if hot and cur_tid in runnable:
                n = self.hot_count.get(cur_tid, 0) + 1
                self.hot_count[cur_tid] = n
                if (cur_tid, n) in self.hold_ats and len(runnable) > 1:
                    self.held.append(cur_tid)
            cands = [t for t in runnable if t not in self.held]
            if not cands:
                c = [h for h in self.held if h in runnable][0]
                self.held.remove(c)
            elif cur_tid in cands and self.rng.random() >= self.p_switch:
                c = cur_tid
            else:
                c = cands[self.rng.randrange(len(cands))]
        elif self.mode == "hold":
            hot = kind != "line" or self.after_op.get(cur_tid, False)
            self.after_op[cur_tid] = (kind != "line")
            if not hot and self.sched is not None and self.sched.held.get(cur_tid):
                hot = True      # inside a critical section: where a narrowed or dropped lock elsewhere would bite
            cands = [t for t in runnable if t not in self.held]
            if not cands:
                c = [h for h in self.held if h in runnable][0]
                self.held.remove(c)
            else:
                if cur_tid in cands and len(cands) > 1 and self.holds_left > 0 and \
                        self.rng.random() < (self.hold_p if hot else self.hold_p * 0.15):
                    self.held.append(cur_tid)
                    self.holds_left -= 1
                    cands.remove(cur_tid)
                if cur_tid in cands and self.rng.random() >= self.p_switch:
                    c = cur_tid
                else:
                    c = cands[self.rng.randrange(len(cands))]
        elif self.mode == "bnd":
            # pre-emptions concentrated around synchronisation / boundary operations: at such a yield, and at the first source
            # line executed after it, switch with probability p_switch; elsewhere almost never
            hot = kind != "line" or self.after_op.get(cur_tid, False)
            self.after_op[cur_tid] = (kind != "line")
            p = self.p_switch if hot else self.p_switch * 0.02
            if cur_tid in runnable and self.rng.random() >= p:
                c = cur_tid
            else:
                others = [t for t in runnable if t != cur_tid] or runnable
                c = others[self.rng.randrange(len(others))]
        else:
            if cur_tid in runnable and self.rng.random() >= self.p_switch:
                c = cur_tid
            else:
                c = runnable[self.rng.randrange(len(runnable))]
        if len(runnable) > 1:
            self.record.append(c)
        return c


class Sched(object):
    def __init__(self, chooser=None, trace_lines=True, max_yields=200000, impl_dir=None, line_filter=None):
        self.chooser = chooser or Chooser()
        self.chooser.sched = self
        self.trace_lines = trace_lines
        self.max_yields = max_yields
        self.threads = []
        self.cur = None
        self.now = 0.0
        self.log = []
        self.nyields = 0
        self.aborting = False
        self.final = False
        self.end_reason = None
        self.done_sem = _real_Semaphore(0)
        self.names = {}
        self.name_counters = {}
        self.impl_dir = impl_dir
        self.line_filter = line_filter
        self.errors = []
        self.idle_hooks = []
        self.nswitch = 0
        self.keepalive = []
        self.on_idle = None
        self.torn_down = False
        self.spin = {}
        self.nprogress = 0
        self.held = {}
        self.edges = set()

    # ------------------------------------------------------------------ naming
    def name_of(self, obj, kind="o"):
        key = id(obj)
        ent = self.names.get(key)
        if ent is not None and ent[1]() is obj:
            return ent[0]
        n = self.name_counters.get(kind, 0)
        self.name_counters[kind] = n + 1
        nm = "%s%d" % (kind, n)
        try:
            ref = weakref.ref(obj)
        except TypeError:
            self.keepalive.append(obj)
            ref = (lambda o: (lambda: o))(obj)
        self.names[key] = (nm, ref)
        return nm

    def known_name(self, obj):
        ent = self.names.get(id(obj))
        if ent is not None and ent[1]() is obj:
            return ent[0]
        return None

    # ------------------------------------------------------------------ log
    def ev(self, kind, *args):
        t = self.cur.tid if self.cur is not None else -1
        self.log.append((t, kind) + args)

    # ------------------------------------------------------------------ threads
    def _new_ct(self, name, role):
        ct = CT(len(self.threads), name, role)
        self.threads.append(ct)
        return ct

    def _bootstrap(self, ct, fn, args, kwargs):
        ct.sem.acquire()
        if self.aborting:
            ct.state = "done"
            return
        if self.trace_lines:
            sys.settrace(self._trace)
        try:
            self.ev("tstart", ct.name or "")
            fn(*args, **(kwargs or {}))
        except Abort:
            pass
        except BaseException as e:  # escaping exception at thread top level (E7)
            ct.exc = e
            if not self.aborting:
                self.ev("tdied", type(e).__name__, _where(e))
        finally:
            sys.settrace(None)
            if not self.aborting:
                self.ev("texit")
            self._finish(ct)

    def _finish(self, ct):
        ct.state = "done"
        if self.aborting:
            return
        nxt = self._pick(ct, False, "exit")
        if nxt is None:
            return
        self.cur = nxt
        self.nswitch += 1
        self.log.append((nxt.tid, "q"))
        nxt.sem.release()

    def spawn(self, fn, args=(), kwargs=None, name=None, role="client"):
        """Create and make runnable a controlled thread (used by CThread.start and by scenarios)."""
        ct = self._new_ct(name, role)
        real = _real_Thread(target=self._bootstrap, args=(ct, fn, args, kwargs), name="ds-%d" % ct.tid)
        real.daemon = True
        ct.real = real
        ct.state = "ready"
        real.start()
        return ct

    # ------------------------------------------------------------------ core
    def _runnable(self):
        out = []
        for t in self.threads:
            if t.state == "ready":
                out.append(t)
            elif t.state == "blocked" and t.pred is not None and t.pred():
                out.append(t)
        return out

    def _pick(self, me, me_runnable, kind):
        """Choose the next thread.  Returns CT, or None when the scenario has ended (caller must stop)."""
        while True:
            rs = self._runnable()
            if me_runnable and me not in rs:
                rs.append(me)
            if not rs:
                # a thread parked only for fairness ("spin": it kept finding its event set) is runnable by definition: it must
                # never turn the state into an idle jump or an idle-final state
                rs = [t for t in self.threads if t.state == "blocked" and t.park and t.park[0] == "spin"]
            if rs:
                tids = sorted(t.tid for t in rs)
                c = self.chooser.choose(me.tid, tids, kind)
                nxt = self.threads[c]
                if nxt.state == "blocked":
                    nxt.state = "ready"
                    nxt.timed_out = False
                    nxt.pred = None
                    nxt.deadline = None
                return nxt
            timed = [t for t in self.threads if t.state == "blocked" and t.deadline is not None]
            if self.on_idle is not None:
                r = self.on_idle(self)
                if r:
                    continue
            if timed:
                d = min(t.deadline for t in timed)
                if d > self.now:
                    self.now = d
                self.log.append((-1, "idle_jump", self.now))
                self.njumps = getattr(self, "njumps", 0) + 1
                if self.njumps > 4000:
                    # virtual time keeps jumping from one time-out to the next without the scenario ending: a thread is
                    # re-arming a timed wait for ever (the idle-jump analogue of the yield limit)
                    self._end("limit")
                    return None
                for t in timed:
                    if t.deadline <= self.now:
                        t.state = "ready"
                        t.timed_out = True
                        t.pred = None
                        t.deadline = None
                continue
            # idle-final (quiescent or deadlocked) or all done
            alive = [t for t in self.threads if t.state != "done"]
            self._end("idle" if alive else "done")
            return None

    def _end(self, reason):
        if not self.final:
            self.final = True
            self.end_reason = reason
            self.final_parked = [(t.tid, t.park, t.role, t.name) for t in self.threads if t.state == "blocked"]
            self.log.append((-1, "end", reason))
            self.done_sem.release()

    def _transfer(self, me, nxt):
        if nxt is me:
            return
        self.cur = nxt
        self.nswitch += 1
        self.nprogress += 1
        self.log.append((nxt.tid, "q"))
        nxt.sem.release()
        me.sem.acquire()
        if self.aborting:
            raise Abort()

    def _park_forever(self, me):
        me.sem.acquire()
        raise Abort()

    def yield_point(self, kind="op"):
        if self.aborting:
            raise Abort()
        me = self.cur
        if me is None or _th.current_thread() is not me.real:
            return  # not a controlled thread (e.g. supervisor) - ignore
        self.nyields += 1
        if self.nyields > self.max_yields:
            self._end("limit")
            self._park_forever(me)
        nxt = self._pick(me, True, kind)
        if nxt is None:
            self._park_forever(me)
        self._transfer(me, nxt)

    def block(self, pred, deadline=None, park=None):
        """Park the current thread until pred() holds or virtual time reaches deadline.
        Returns True if woken by pred, False on time-out."""
        if self.aborting:
            raise Abort()
        me = self.cur
        me.state = "blocked"
        me.pred = pred
        me.deadline = deadline
        me.park = park
        me.timed_out = False
        if park is not None:
            self.log.append((me.tid, "park") + tuple(park))
        nxt = self._pick(me, False, "block")
        if nxt is None:
            self._park_forever(me)
        self._transfer(me, nxt)
        me.park = None
        return not me.timed_out

    def tick(self):
        self.now += TICK
        self.log.append((-1, "tick", self.now))

    def sleep(self, d):
        """Virtual sleep, for scripted user code."""
        self.yield_point("sleep")
        if d <= 0:
            return
        self.block(lambda: False, self.now + d, ("sleep", d))

    # ------------------------------------------------------------------ tracing
    def _trace(self, frame, event, arg):
        if event != "call":
            return None
        fn = frame.f_code.co_filename
        if self.impl_dir is not None and fn.startswith(self.impl_dir):
            if self.line_filter is not None and not self.line_filter(frame.f_code):
                return None
            return self._local
        return None

    def _local(self, frame, event, arg):
        if event == "line":
            if not self.aborting and self.cur is not None and _th.current_thread() is self.cur.real:
                self.yield_point("line")
        return self._local

    # ------------------------------------------------------------------ run
    def run(self, main, timeout_real=60.0):
        """Run main() as controlled thread 0; returns when the scenario ends.  Tears everything down."""
        global ACTIVE
        if ACTIVE is not None:
            raise SchedError("nested Sched.run")
        ACTIVE = self
        gc_was = gc.isenabled()
        gc.disable()
        try:
            ct = self.spawn(main, name="main", role="client")
            self.cur = ct
            ct.sem.release()
            ok = self.done_sem.acquire(timeout=timeout_real)
            if not ok:
                self.end_reason = "harness-timeout"
                self.final = True
            return self.end_reason
        finally:
            self._teardown()
            ACTIVE = None
            if gc_was:
                gc.enable()

    def _teardown(self):
        self.aborting = True
        for t in list(self.threads):
            if t.state != "done" and t.real is not None:
                t.sem.release()
                t.real.join(5.0)
                if t.real.is_alive():
                    self.errors.append("thread %d did not unwind" % t.tid)
        # second pass for threads created during teardown (should not happen)
        for t in list(self.threads):
            if t.real is not None and t.real.is_alive():
                t.sem.release()
                t.real.join(1.0)
        self.torn_down = True

    def parked(self):
        """[(tid, park-tuple, role, name)] of threads blocked when the scenario ended (idle-final analysis)."""
        return list(getattr(self, "final_parked", []))


def _where(e):
    tb = e.__traceback__
    last = None
    while tb is not None:
        last = tb
        tb = tb.tb_next
    if last is None:
        return "?"
    c = last.tb_frame.f_code
    return "%s:%s" % (os.path.basename(c.co_filename), c.co_name)


# ---------------------------------------------------------------------- primitives

def _cur():
    s = ACTIVE
    if s is None:
        raise SchedError("controlled primitive used outside a scenario")
    return s


from concurrent.futures import Executor as _Executor


def _lock_tag():
    """Where was this lock created?  (file relative to the library, function name, owning executor/future object id or None).
    Used only to attribute a lock instance to a lock CLASS for the lock-order correspondence (C04)."""
    s = ACTIVE
    impl = getattr(s, "impl_dir", None) if s is not None else None
    try:
        f = sys._getframe(2)
    except ValueError:
        return None
    site = None
    owner = None
    depth = 0
    while f is not None and depth < 25:
        fn = f.f_code.co_filename
        if impl and fn.startswith(impl):
            if site is None:
                slf0 = f.f_locals.get("self")
                site = (fn[len(impl):], f.f_code.co_name, type(slf0).__name__ if slf0 is not None else "")
            slf = f.f_locals.get("self")
            if owner is None and slf is not None and isinstance(slf, _Executor):
                owner = id(slf)
        f = f.f_back
        depth += 1
    if site is None:
        return None
    return (site[0], site[1], site[2], owner)


def _note_acquire(s, lock):
    me = s.cur
    if me is None:
        return
    held = s.held.setdefault(me.tid, [])
    if lock.tag is not None:
        for h in held:
            if h is not lock and h.tag is not None:
                s.edges.add((h.tag, lock.tag))
    held.append(lock)


def _note_release(s, lock):
    me = s.cur
    if me is None:
        return
    held = s.held.get(me.tid)
    if held and lock in held:
        for i in range(len(held) - 1, -1, -1):
            if held[i] is lock:
                del held[i]
                break


class CLock(object):
    """Non-re-entrant lock."""
    _kind = "L"
    preempt = True

    def __init__(self):
        self.owner = None
        s = ACTIVE
        self._s = s
        self.tag = _lock_tag() if self.preempt else None
        if self.preempt and s is not None and s.cur is not None:
            s.ev("locknew", s.name_of(self, "L"), self.tag[2] if self.tag else "")

    def acquire(self, blocking=True, timeout=-1):
        s = self._s
        if s.aborting:
            if s.torn_down:
                return True
            raise Abort()
        me = s.cur
        if self.preempt:
            s.yield_point("acq")
        if self.owner is None:
            self.owner = me
            if self.preempt:
                s.ev("acq", s.name_of(self, "L"))
                _note_acquire(s, self)
            return True
        if not blocking:
            return False
        deadline = None
        if timeout is not None and timeout >= 0 and timeout < UNTIMED:
            deadline = s.now + timeout
        ok = s.block(lambda: self.owner is None, deadline, ("lock", s.name_of(self, "L")))
        if ok:
            self.owner = me
            s.ev("acq", s.name_of(self, "L"))
            _note_acquire(s, self)
        return ok

    def release(self):
        s = self._s
        if s.aborting:
            self.owner = None
            return
        if self.owner is None:
            raise RuntimeError("release unlocked lock")
        self.owner = None
        if self.preempt:
            s.ev("rel", s.name_of(self, "L"))
            _note_release(s, self)

    def locked(self):
        return self.owner is not None

    def __enter__(self):
        self.acquire()
        return self

    def __exit__(self, *a):
        self.release()

    # Condition support (a Condition over a plain Lock): the release inside wait() and the re-acquisition after it are logged
    # like any other release / acquisition of the lock, so lock-section projections see two sections around the wait
    def _is_owned(self):
        return self.owner is not None and self.owner is self._s.cur

    def _release_save(self):
        self.release()
        return None

    def _acquire_restore(self, st):
        s = self._s
        me = s.cur
        if self.owner is not None:
            s.block(lambda: self.owner is None, None, ("lock", s.name_of(self, "L")))
        self.owner = me
        if self.preempt and not s.aborting:
            s.ev("acq", s.name_of(self, "L"))
            _note_acquire(s, self)


class CRLock(object):
    preempt = True

    def __init__(self):
        self.owner = None
        self.count = 0
        self._s = ACTIVE
        self.tag = _lock_tag() if self.preempt else None
        if self.preempt and ACTIVE is not None and ACTIVE.cur is not None:
            ACTIVE.ev("locknew", ACTIVE.name_of(self, "R"), self.tag[2] if self.tag else "")

    def acquire(self, blocking=True, timeout=-1):
        s = self._s
        if s.aborting:
            if s.torn_down:
                return True
            raise Abort()
        me = s.cur
        if self.owner is me:
            self.count += 1
            return True
        if self.preempt:
            s.yield_point("acq")
        if self.owner is None:
            self.owner = me
            self.count = 1
            if self.preempt:
                s.ev("acq", s.name_of(self, "R"))
                _note_acquire(s, self)
            return True
        if not blocking:
            return False
        deadline = None
        if timeout is not None and timeout >= 0 and timeout < UNTIMED:
            deadline = s.now + timeout
        ok = s.block(lambda: self.owner is None, deadline, ("lock", s.name_of(self, "R")))
        if ok:
            self.owner = me
            self.count = 1
            s.ev("acq", s.name_of(self, "R"))
            _note_acquire(s, self)
        return ok

    def release(self):
        s = self._s
        if s.aborting:
            self.owner = None
            self.count = 0
            return
        if self.owner is not s.cur:
            raise RuntimeError("cannot release un-acquired lock")
        self.count -= 1
        if self.count == 0:
            self.owner = None
            if self.preempt:
                s.ev("rel", s.name_of(self, "R"))
                _note_release(s, self)

    def __enter__(self):
        self.acquire()
        return self

    def __exit__(self, *a):
        self.release()

    # Condition support
    def _is_owned(self):
        return self.owner is self._s.cur

    def _release_save(self):
        st = (self.owner, self.count)
        self.owner = None
        self.count = 0
        return st

    def _acquire_restore(self, st):
        s = self._s
        if self.owner is not None:
            s.block(lambda: self.owner is None, None, ("lock", s.name_of(self, "R")))
        self.owner, self.count = st


class QuietLock(CLock):
    """Lock used only inside stdlib code (concurrent.futures._base): never a yield point, not logged."""
    preempt = False


class QuietRLock(CRLock):
    preempt = False


class _Waiter(object):
    __slots__ = ("flag",)

    def __init__(self):
        self.flag = False


class CCondition(object):
    """Condition variable over a controlled (R)Lock.  `quiet` ones belong to stdlib Futures: acquiring them is
    not a yield point (a stdlib Future method is one atomic step: assumption AF1)."""

    def __init__(self, lock=None, quiet=False):
        self._s = ACTIVE
        if lock is None:
            lock = QuietRLock() if quiet else CRLock()
        self._lock = lock
        self.acquire = lock.acquire
        self.release = lock.release
        self._waiters = []
        self.quiet = quiet

    def __enter__(self):
        return self._lock.__enter__()

    def __exit__(self, *a):
        return self._lock.__exit__(*a)

    def wait(self, timeout=None):
        s = self._s
        if s.aborting:
            raise Abort()
        if not self._lock._is_owned():
            raise RuntimeError("cannot wait on un-acquired lock")
        w = _Waiter()
        self._waiters.append(w)
        deadline = None
        if timeout is not None and timeout < UNTIMED:
            deadline = s.now + max(timeout, 0)
        if not self.quiet:
            # a library-level condition (not a stdlib Future's): waiting and notifying are logged protocol events; the release of
            # the lock and the parking are ONE step (that atomicity is what a condition variable is for)
            s.ev("cwait", s.name_of(self, "C"), timeout if deadline is not None else None)
        st = self._lock._release_save()
        ok = False
        try:
            ok = s.block(lambda: w.flag, deadline, ("cond", s.name_of(self, "C"), timeout if deadline is not None else None))
        finally:
            if not s.aborting:
                self._waiters = [x for x in self._waiters if x is not w]
                self._lock._acquire_restore(st)
                if not self.quiet:
                    s.ev("cwoke", s.name_of(self, "C"), bool(ok))
        return ok

    def wait_for(self, predicate, timeout=None):
        s = self._s
        end = None
        r = predicate()
        while not r:
            if timeout is not None:
                if end is None:
                    end = s.now + timeout
                wt = end - s.now
                if wt <= 0:
                    break
                self.wait(wt)
            else:
                self.wait(None)
            r = predicate()
        return r

    def notify(self, n=1):
        if not self._lock._is_owned():
            raise RuntimeError("cannot notify on un-acquired lock")
        if not self.quiet and self._s is not None and not self._s.aborting:
            self._s.ev("cnotify", self._s.name_of(self, "C"), min(n, len(self._waiters)))
        for w in self._waiters[:n]:
            w.flag = True
        del self._waiters[:n]

    def notify_all(self):
        self.notify(len(self._waiters))

    notifyAll = notify_all


class CEvent(object):
    """threading.Event; every operation is a yield point and a logged (binding) protocol event."""
    quiet = False

    def __init__(self):
        self._s = ACTIVE
        self._flag = False
        if not self.quiet and ACTIVE is not None:
            ACTIVE.ev("evnew", ACTIVE.name_of(self, "E"))

    def is_set(self):
        return self._flag

    isSet = is_set

    def set(self):
        s = self._s
        if s.aborting:
            self._flag = True
            return
        if not self.quiet:
            s.yield_point("set")
            s.ev("set", s.name_of(self, "E"))
        if s.cur is not None:
            # a thread that sets the event itself (a completion callback it runs inline) is not busy-waiting for somebody else
            s.spin.pop((s.cur.tid, id(self)), None)
        self._flag = True

    def clear(self):
        s = self._s
        if s.aborting:
            self._flag = False
            return
        if not self.quiet:
            s.yield_point("clear")
            s.ev("clear", s.name_of(self, "E"))
        self._flag = False

    def wait(self, timeout=None):
        s = self._s
        if s.aborting:
            raise Abort()
        nm = s.name_of(self, "E")
        if not self.quiet:
            s.yield_point("wait")
        untimed = timeout is None or timeout >= UNTIMED
        if not self.quiet:
            s.ev("wait", nm, None if untimed else timeout, self._flag)
        if self._flag:
            # A thread that keeps finding the event set (busy-waiting for somebody else to clear it) must not keep the
            # CPU for ever at constant virtual time: after a few immediate returns it yields until another thread has
            # made progress (fair scheduling).
            me = s.cur
            key = (me.tid, id(self))
            n = s.spin.get(key, 0) + 1
            s.spin[key] = n
            if n > 20:
                snap = s.nprogress
                s.block(lambda: s.nprogress != snap, None, ("spin", nm))
            return True
        s.spin.pop((s.cur.tid, id(self)), None)
        if not untimed and timeout <= 0:
            s.tick()
            return self._flag
        deadline = None if untimed else s.now + timeout
        s.block(lambda: self._flag, deadline, ("event", nm, None if untimed else timeout))
        if not self.quiet:
            s.ev("woke", nm, self._flag)
        return self._flag


class QuietEvent(CEvent):
    quiet = True

    def wait(self, timeout=None):
        s = self._s
        if self._flag:
            return True
        untimed = timeout is None or timeout >= UNTIMED
        if not untimed and timeout <= 0:
            s.tick()
            return self._flag
        deadline = None if untimed else s.now + timeout
        s.block(lambda: self._flag, deadline, ("qevent", s.name_of(self, "Q"), None if untimed else timeout))
        return self._flag


class _ForeignThread(object):
    """what `current_thread()` returns on a controlled thread the library did not create (clients, pool workers)"""

    def __init__(self, ct):
        self.name = ct.name or "ds-%d" % ct.tid
        self.daemon = True
        self._ct = ct


def current_thread():
    """threading.current_thread() for library code: the CThread object when running on a thread the library started"""
    s = ACTIVE
    if s is None or s.cur is None:
        import threading as _th
        return _th.current_thread()
    ct = s.cur
    if ct.cthread is None:
        ct.cthread = _ForeignThread(ct)
    return ct.cthread


class CThread(object):
    """threading.Thread replacement for threads the library creates."""

    def __init__(self, group=None, target=None, name=None, args=(), kwargs=None, daemon=None):
        self._s = ACTIVE
        self._target = target
        self._args = args
        self._kwargs = kwargs or {}
        self.name = name or "Thread-x"
        self.daemon = bool(daemon)
        self._ct = None

    def start(self):
        s = self._s
        if self._ct is not None:
            raise RuntimeError("threads can only be started once")
        s.yield_point("tstart")
        self._ct = s.spawn(self._run, name=self.name, role="lib")
        self._ct.cthread = self
        s.ev("spawn", self._ct.tid, self.name)

    def _run(self):
        try:
            self._target(*self._args, **self._kwargs)
        finally:
            self._target = None
            self._args = None
            self._kwargs = None

    def join(self, timeout=None):
        s = self._s
        if s.aborting:
            raise Abort()
        ct = self._ct
        if ct is None:
            raise RuntimeError("cannot join thread before it is started")
        s.yield_point("join")
        s.ev("join", ct.tid)
        if ct.state == "done":
            return
        deadline = None
        if timeout is not None and timeout < UNTIMED:
            deadline = s.now + timeout
        s.block(lambda: ct.state == "done", deadline, ("join", ct.tid))
        s.ev("joined", ct.tid, ct.state == "done")

    def is_alive(self):
        return self._ct is not None and self._ct.state != "done"

    @property
    def ident(self):
        return None if self._ct is None else 1000 + self._ct.tid


def c_monotonic():
    return ACTIVE.now
