"""Rebinds the threading primitives used by more_executors (and by concurrent.futures._base) to controlled
ones while a scenario is active.  No change to /repo: names are rebound from outside after import.

install() is idempotent.  selfcheck() scans library namespaces and live objects for real primitives that
escaped control (completeness self-check of DESIGN.md section 4.1)."""
import importlib
import logging
import pkgutil
import sys
import threading as _th
import time as _time
import types

from . import core

_REAL = {
    "Lock": core._real_Lock, "RLock": core._real_RLock, "Event": core._real_Event,
    "Thread": core._real_Thread, "Condition": core._real_Condition,
}
_real_monotonic = _time.monotonic


def Lock():
    return core.CLock() if core.ACTIVE is not None else _REAL["Lock"]()


def RLock():
    return core.CRLock() if core.ACTIVE is not None else _REAL["RLock"]()


def Event():
    return core.CEvent() if core.ACTIVE is not None else _REAL["Event"]()


def Condition(lock=None):
    return core.CCondition(lock) if core.ACTIVE is not None else _REAL["Condition"](lock)


def current_thread():
    return core.current_thread()


def Thread(*a, **k):
    return core.CThread(*a, **k) if core.ACTIVE is not None else _REAL["Thread"](*a, **k)


def monotonic():
    return core.ACTIVE.now if core.ACTIVE is not None else _real_monotonic()


class _BaseThreadingShim(types.ModuleType):
    """Stands in for the `threading` module inside concurrent.futures._base."""

    def __init__(self):
        super(_BaseThreadingShim, self).__init__("threading_shim")

    def __getattr__(self, name):
        return getattr(_th, name)

    @staticmethod
    def Condition(lock=None):
        if core.ACTIVE is not None:
            return core.CCondition(lock, quiet=True)
        return _REAL["Condition"](lock)

    @staticmethod
    def Event():
        return core.QuietEvent() if core.ACTIVE is not None else _REAL["Event"]()

    @staticmethod
    def Lock():
        return core.QuietLock() if core.ACTIVE is not None else _REAL["Lock"]()

    @staticmethod
    def RLock():
        return core.QuietRLock() if core.ACTIVE is not None else _REAL["RLock"]()


_FACTORIES = {"Lock": Lock, "RLock": RLock, "Event": Event, "Thread": Thread, "Condition": Condition, "monotonic": monotonic,
              "current_thread": current_thread}
_installed = False
IMPL_DIR = None
LIB_MODULES = []


def lib_modules():
    import more_executors._impl as impl
    mods = []
    for m in pkgutil.walk_packages(impl.__path__, impl.__name__ + "."):
        try:
            mods.append(importlib.import_module(m.name))
        except Exception:  # e.g. prometheus module without prometheus_client
            pass
    return mods


def install():
    global _installed, IMPL_DIR, LIB_MODULES
    import more_executors  # noqa: F401
    import more_executors.futures  # noqa: F401
    import more_executors._impl as impl
    import os
    IMPL_DIR = os.path.dirname(os.path.abspath(impl.__file__)) + os.sep
    LIB_MODULES = lib_modules()
    for mod in LIB_MODULES:
        for name, fac in _FACTORIES.items():
            cur = mod.__dict__.get(name)
            if cur is None:
                continue
            if cur is fac:
                continue
            if cur in (_REAL.get(name), _real_monotonic) or getattr(cur, "__module__", "") in ("threading", "time", "_thread"):
                setattr(mod, name, fac)
    import concurrent.futures._base as base
    if not isinstance(base.threading, _BaseThreadingShim):
        base.threading = _BaseThreadingShim()
    _installed = True


class RecHandler(logging.Handler):
    """Lock-light recording handler that never formats its arguments."""

    def __init__(self):
        logging.Handler.__init__(self, level=logging.DEBUG)
        self.records = []

    def handle(self, record):  # bypass Handler.acquire(): only the baton holder logs
        et = None
        if record.exc_info and record.exc_info[0] is not None:
            et = record.exc_info[0].__name__
        self.records.append((record.name, record.levelname, str(record.msg)[:60], et))
        s = core.ACTIVE
        if s is not None and not s.aborting:
            s.ev("log", record.name, record.levelname, str(record.msg)[:40], et)
        return True


REC = RecHandler()


def neutralise_logging():
    root = logging.getLogger()
    for h in list(root.handlers):
        root.removeHandler(h)
    root.addHandler(REC)
    root.setLevel(logging.INFO)
    logging.raiseExceptions = False
    logging.lastResort = None


def reset_module_state():
    """Fresh controlled instances for the three module-level primitives; called at scenario start
    (inside the scenario, i.e. with core.ACTIVE set)."""
    from more_executors._impl import event as ev
    from more_executors._impl.futures import base as fbase
    from more_executors._impl.futures import timeout as ftimeout
    missing = []
    try:
        ev.GLOBAL_HANDLER.lock = core.CRLock()
        ev.GLOBAL_HANDLER.events = []
        ev.GLOBAL_HANDLER.shutdown = False
    except AttributeError:
        missing.append("event.GLOBAL_HANDLER")
    try:
        fbase.EXECUTOR._shutdown._lock = core.CRLock()
        fbase.EXECUTOR._shutdown.is_shutdown = False
    except AttributeError:
        missing.append("futures.base.EXECUTOR._shutdown._lock")
    try:
        ftimeout.LOCK = core.CLock()
        ftimeout.EXECUTOR_REF = None
    except AttributeError:
        missing.append("futures.timeout.LOCK")
    return missing


_REAL_TYPES = None


def selfcheck(objs=()):
    """Returns a list of problems: real primitives reachable from library namespaces or given live objects."""
    global _REAL_TYPES
    if _REAL_TYPES is None:
        _REAL_TYPES = (type(_REAL["Lock"]()), type(_REAL["RLock"]()), _REAL["Event"], _REAL["Thread"], _REAL["Condition"])
    problems = []
    for mod in LIB_MODULES:
        for name, val in list(mod.__dict__.items()):
            if name.startswith("__"):
                continue
            if val in (_REAL["Lock"], _REAL["RLock"], _REAL["Event"], _REAL["Thread"], _REAL["Condition"], _real_monotonic):
                problems.append("%s.%s is a real primitive factory" % (mod.__name__, name))
            elif isinstance(val, _REAL_TYPES):
                problems.append("%s.%s is a real primitive instance" % (mod.__name__, name))
    seen = set()
    stack = list(objs)
    depth = 0
    while stack and depth < 20000:
        depth += 1
        o = stack.pop()
        if id(o) in seen:
            continue
        seen.add(id(o))
        if isinstance(o, _REAL_TYPES):
            problems.append("live object holds real primitive %r" % (type(o).__name__,))
            continue
        d = getattr(o, "__dict__", None)
        if isinstance(d, dict) and type(o).__module__.startswith(("more_executors", "concurrent.futures")):
            stack.extend(d.values())
        elif isinstance(o, (list, tuple, set, frozenset)) and len(o) < 100:
            stack.extend(o)
    return problems
