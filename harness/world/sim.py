"""Harness-provided environment: delegate executors (SimPool / SimSync), recording futures, scripted user
code.  Every boundary crossing is logged through Sched.ev (event alphabet E2/E3 of DESIGN.md 4.2)."""
from concurrent.futures import Future, Executor

from dsched import core


class E0(Exception):
    pass


class E1(E0):
    pass


class E2(Exception):
    pass


class BE(BaseException):
    """an outcome that is a BaseException but not an Exception (like SystemExit / KeyboardInterrupt / asyncio.CancelledError): a pool
    stores it in the delegate future like any other exception, and the layers have to hand it on as that same object"""


class FalsyError(Exception):
    """An exception object that is falsy (S18)."""

    def __bool__(self):
        return False


class Falsy(object):
    def __bool__(self):
        return False

    def __repr__(self):
        return "Falsy"


EXC = {"E0": E0, "E1": E1, "E2": E2, "BE": BE, "FalsyError": FalsyError, "ValueError": ValueError, "KeyError": KeyError}


def S():
    return core.ACTIVE


def vname(v):
    """Canonical short name of a value for logs."""
    s = S()
    if isinstance(v, BaseException):
        return "%s:%s" % (type(v).__name__, s.name_of(v, "x"))
    if isinstance(v, Future):
        return s.name_of(v, "f")
    if v is None or isinstance(v, (int, bool, str, float)):
        return repr(v)
    if isinstance(v, (tuple, list)):
        return "[" + ",".join(vname(x) for x in v) + "]"
    return type(v).__name__


def outcome(f):
    """Canonical outcome of a done future: ('ok', v) | ('err', exc) | ('cancelled',) | ('pending',)."""
    if not f.done():
        return ("pending",)
    if f.cancelled():
        return ("cancelled",)
    e = f.exception()
    if e is not None:
        return ("err", e)
    return ("ok", f.result())


def oname(o):
    if o[0] in ("pending", "cancelled"):
        return o[0]
    return "%s:%s" % (o[0], vname(o[1]))


class SimFuture(Future):
    """A delegate future: stdlib Future whose boundary operations are logged."""

    def cancel(self):
        s = S()
        if s is None or s.aborting:
            return Future.cancel(self)
        s.yield_point("dcancel")
        nm = s.name_of(self, "f")
        s.ev("dcancel>", nm)
        r = Future.cancel(self)
        s.ev("dcancel<", nm, r)
        return r

    def add_done_callback(self, fn):
        s = S()
        if s is None or s.aborting:
            return Future.add_done_callback(self, fn)
        s.yield_point("daddcb")
        nm = s.name_of(self, "f")
        s.ev("daddcb>", nm, self.done())
        Future.add_done_callback(self, fn)
        s.ev("daddcb<", nm)


class UserFn(object):
    """Scripted user code.  behaviours[i] drives the i-th invocation (last one repeats; default if empty).
    A behaviour is a list of steps: ('sleep', d) ('ret', v) ('raise', 'E0') ('reraise',) ('retarg',)
    ('call', python_callable) ('waitev', key) ('setev', key)."""

    def __init__(self, name, behaviours=None, default=(("retarg",),), world=None):
        self.name = name
        self.behaviours = list(behaviours or [])
        self.default = list(default)
        self.count = 0
        self.world = world
        self.calls = []
        self.__name__ = name

    def __call__(self, *args, **kwargs):
        s = S()
        idx = self.count
        self.count += 1
        s.yield_point("ucall")
        s.ev("ucall", self.name, idx, vname(list(args)), vname(sorted(kwargs.items())) if kwargs else "")
        self.calls.append((idx, args, kwargs, s.cur.tid, s.now))
        if self.behaviours:
            beh = self.behaviours[min(idx, len(self.behaviours) - 1)]
        else:
            beh = self.default
        try:
            r = self._run(beh, args, kwargs)
        except BaseException as e:
            if not isinstance(e, core.Abort) and not s.aborting:
                s.ev("uraise", self.name, idx, vname(e))
            raise
        s.ev("uret", self.name, idx, vname(r))
        return r

    def _run(self, beh, args, kwargs):
        s = S()
        for st in beh:
            k = st[0]
            if k == "sleep":
                s.sleep(st[1])
            elif k == "ret":
                return st[1]
            elif k == "retarg":
                return args[0] if args else None
            elif k == "raise":
                exc = st[1]
                if isinstance(exc, str):
                    exc = EXC[exc]("%s#%d" % (self.name, self.count - 1))
                raise exc
            elif k == "reraise":
                raise args[0]
            elif k == "call":
                r = st[1](*args, **kwargs)
                if len(st) > 2 and st[2] == "ret":
                    return r
            elif k == "waitev":
                s.yield_point("uyield")
                self.world.gate(st[1]).wait()
            elif k == "setev":
                s.yield_point("uyield")
                self.world.gate(st[1]).set()
            elif k == "yield":
                s.yield_point("uyield")
            elif k == "nested":
                # submit further work to the top executor of the stack from inside this user code
                top = getattr(self.world, "top", None)
                if top is not None:
                    s.ev("call", "nsubmit", self.name)
                    try:
                        top.submit(self.world.fn("nested_in_%s_%d" % (self.name, self.count), [[("ret", -2)]]))
                        s.ev("ret", "nsubmit", self.name)
                    except RuntimeError as e:
                        s.ev("raise", "nsubmit", type(e).__name__, str(e)[:60])
            else:
                raise ValueError("unknown step %r" % (st,))
        return None


class SimPool(Executor):
    """FIFO pool of n controlled worker threads satisfying the delegate contract DC."""

    def __init__(self, workers=1, name="pool", future_class=SimFuture, retain=True):
        s = S()
        self.name = name
        self.queue = []
        self.is_shutdown = False
        self.workers = []
        self.idle = 0
        self.future_class = future_class
        self.retain = retain
        self.shutdown_calls = []
        self.submitted = []
        for i in range(workers):
            self.workers.append(s.spawn(self._worker, name="%s-w%d" % (name, i), role="pool"))

    def submit(self, fn, *args, **kwargs):
        s = S()
        s.yield_point("dsubmit")
        if self.is_shutdown:
            s.ev("dsubmit!", self.name)
            raise RuntimeError("cannot schedule new futures after shutdown")
        f = self.future_class()
        nm = s.name_of(f, "f")
        s.ev("dsubmit", self.name, nm, getattr(fn, "name", getattr(fn, "__name__", "?")), vname(list(args)),
             vname(sorted(kwargs.items())) if kwargs else "")
        self.queue.append((f, fn, args, kwargs))
        if self.retain:
            self.submitted.append((f, fn, args, kwargs))
        return f

    def _worker(self):
        s = S()
        while True:
            if not self.queue:
                if self.is_shutdown:
                    return
                s.block(lambda: bool(self.queue) or self.is_shutdown, None, ("poolidle", self.name))
                continue
            s.yield_point("dtake")
            if not self.queue:
                continue
            (f, fn, args, kwargs) = self.queue.pop(0)
            nm = s.name_of(f, "f")
            if not f.set_running_or_notify_cancel():
                s.ev("dskip", nm)
                f = fn = args = kwargs = None
                continue
            s.ev("drun", nm)
            try:
                r = fn(*args, **kwargs)
            except core.Abort:
                raise
            except BaseException as e:
                s.yield_point("dcomplete")
                s.ev("dcomplete", nm, "err:" + vname(e))
                f.set_exception(e)
                s.ev("dcompleted", nm)
            else:
                s.yield_point("dcomplete")
                s.ev("dcomplete", nm, "ok:" + vname(r))
                f.set_result(r)
                s.ev("dcompleted", nm)
                r = None
            # like ThreadPoolExecutor's worker (`del work_item`): keep nothing of a finished job alive
            f = fn = args = kwargs = None
            del f, fn, args, kwargs

    def shutdown(self, wait=True, **kwargs):
        s = S()
        s.yield_point("dshutdown")
        s.ev("dshutdown", self.name, wait, vname(sorted(kwargs.items())))
        self.shutdown_calls.append((wait, dict(kwargs)))
        self.is_shutdown = True
        if kwargs.get("cancel_futures"):
            q, self.queue = self.queue, []
            for (f, _fn, _a, _k) in q:
                Future.cancel(f)
                f.set_running_or_notify_cancel()
        if wait:
            for w in self.workers:
                if w.state != "done" and w is not s.cur:
                    s.block(lambda w=w: w.state == "done", None, ("pooljoin", self.name))
        s.ev("dshutdown<", self.name)


class SimSync(Executor):
    """Inline delegate: runs the callable inside submit()."""

    def __init__(self, name="sync", future_class=SimFuture):
        self.name = name
        self.is_shutdown = False
        self.future_class = future_class
        self.shutdown_calls = []
        self.submitted = []

    def submit(self, fn, *args, **kwargs):
        s = S()
        s.yield_point("dsubmit")
        if self.is_shutdown:
            s.ev("dsubmit!", self.name)
            raise RuntimeError("cannot schedule new futures after shutdown")
        f = self.future_class()
        nm = s.name_of(f, "f")
        s.ev("dsubmit", self.name, nm, getattr(fn, "name", getattr(fn, "__name__", "?")), vname(list(args)),
             vname(sorted(kwargs.items())) if kwargs else "")
        self.submitted.append((f, fn, args, kwargs))
        f.set_running_or_notify_cancel()
        s.ev("drun", nm)
        try:
            r = fn(*args, **kwargs)
        except core.Abort:
            raise
        except BaseException as e:
            s.ev("dcomplete", nm, "err:" + vname(e))
            f.set_exception(e)
        else:
            s.ev("dcomplete", nm, "ok:" + vname(r))
            f.set_result(r)
        s.ev("dcompleted", nm)
        return f

    def shutdown(self, wait=True, **kwargs):
        s = S()
        s.yield_point("dshutdown")
        s.ev("dshutdown", self.name, wait, vname(sorted(kwargs.items())))
        self.shutdown_calls.append((wait, dict(kwargs)))
        self.is_shutdown = True
        s.ev("dshutdown<", self.name)


class World(object):
    def __init__(self):
        self.events = {}
        self.fns = {}
        self.results = {}

    def fn(self, name, behaviours=None, default=(("retarg",),)):
        f = UserFn(name, behaviours, default, self)
        self.fns[name] = f
        return f

    def gate(self, key):
        """scenario-level gate (not a library primitive, not logged): lets user code block until a client releases it"""
        e = self.events.get(key)
        if e is None:
            e = self.events[key] = core.QuietEvent()
        return e

    def event(self, key):
        e = core.CEvent()
        e.quiet = False
        self.events[key] = e
        return e
