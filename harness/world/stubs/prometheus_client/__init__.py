"""Stand-in for prometheus_client used by the C20 check: Counter / Gauge with labels, values kept in a registry that the
harness reads, every inc/dec logged as an E6 event of the active scenario, minimum of every gauge tracked."""
REGISTRY = {}       # (name, labels tuple) -> value
MINIMA = {}
LOG_HOOK = [None]


class _Child(object):
    def __init__(self, name, key, kind):
        self.name, self.key, self.kind = name, key, kind
        REGISTRY.setdefault((name, key), 0)
        MINIMA.setdefault((name, key), 0)

    def _add(self, d):
        k = (self.name, self.key)
        REGISTRY[k] = REGISTRY.get(k, 0) + d
        if REGISTRY[k] < MINIMA.get(k, 0):
            MINIMA[k] = REGISTRY[k]
        h = LOG_HOOK[0]
        if h is not None:
            h(self.name, self.key, d, REGISTRY[k])

    def inc(self, amount=1):
        self._add(amount)

    def dec(self, amount=1):
        if self.kind != "gauge":
            raise TypeError("dec() on a counter")
        self._add(-amount)


class _Metric(object):
    kind = "counter"

    def __init__(self, name, documentation="", labelnames=(), namespace="", **_kw):
        self.name = (namespace + "_" if namespace else "") + name
        self.labelnames = tuple(labelnames)

    def labels(self, *args, **kwargs):
        if args:
            key = tuple(zip(self.labelnames, args))
        else:
            if set(kwargs) != set(self.labelnames):
                raise ValueError("incorrect label names %r for %s%r" % (sorted(kwargs), self.name, self.labelnames))
            key = tuple((n, kwargs[n]) for n in self.labelnames)
        return _Child(self.name, key, self.kind)

    def inc(self, amount=1):
        _Child(self.name, (), self.kind).inc(amount)


class Counter(_Metric):
    kind = "counter"


class Gauge(_Metric):
    kind = "gauge"

    def dec(self, amount=1):
        _Child(self.name, (), self.kind).dec(amount)


def reset():
    REGISTRY.clear()
    MINIMA.clear()
