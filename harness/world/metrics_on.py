"""Switch the library to its Prometheus metrics implementation backed by the stand-in registry (C20), from outside:
the stub package is put on sys.path, more_executors._impl.metrics is reloaded, and the names `metrics` / `track_future`
bound in the library's modules by `from .metrics import …` are re-bound to the reloaded objects."""
import importlib
import os
import sys

_done = False


def install():
    global _done
    if _done:
        return sys.modules["prometheus_client"]
    stub = os.path.join(os.path.dirname(os.path.abspath(__file__)), "stubs")
    if stub not in sys.path:
        sys.path.insert(0, stub)
    os.environ.pop("MORE_EXECUTORS_PROMETHEUS", None)
    import prometheus_client
    from dsched import patch
    patch.install()
    import more_executors._impl.metrics as m
    sys.modules.pop("more_executors._impl.metrics.prometheus", None)
    m = importlib.reload(m)
    if type(m.metrics).__name__ != "PrometheusMetrics":
        raise RuntimeError("metrics did not switch to the Prometheus implementation: %r" % (m.metrics,))
    for mod in list(sys.modules.values()):
        nm = getattr(mod, "__name__", "")
        if nm.startswith("more_executors") and mod is not m:
            if hasattr(mod, "metrics") and type(getattr(mod, "metrics")).__name__ in ("NullMetrics", "PrometheusMetrics"):
                setattr(mod, "metrics", m.metrics)
            if hasattr(mod, "track_future") and callable(getattr(mod, "track_future")):
                setattr(mod, "track_future", m.track_future)
    _done = True
    return prometheus_client
