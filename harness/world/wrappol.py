"""Boundary recorder for retry policies (E2): the public methods of ExceptionRetryPolicy are wrapped from outside so
that every consultation is logged with its attempt number and its answer, like the scripted policy does itself."""
import functools

from dsched import core

_done = False


def _wrap(cls, name):
    orig = cls.__dict__[name]

    @functools.wraps(orig)
    def method(self, attempt, future):
        s = core.ACTIVE
        if s is None or s.aborting or s.cur is None:
            return orig(self, attempt, future)
        s.ev("policy", name, attempt)
        try:
            r = orig(self, attempt, future)
        except BaseException as e:
            if not isinstance(e, core.Abort):
                s.ev("policy!", name, attempt, type(e).__name__)
            raise
        s.ev("policy<", name, attempt, r)
        return r
    method._verif_wrapped = True
    return method


def install():
    global _done
    if _done:
        return
    from more_executors.retry import ExceptionRetryPolicy
    for nm in ("should_retry", "sleep_time"):
        if nm in ExceptionRetryPolicy.__dict__ and not getattr(ExceptionRetryPolicy.__dict__[nm], "_verif_wrapped", False):
            setattr(ExceptionRetryPolicy, nm, _wrap(ExceptionRetryPolicy, nm))
    _done = True
