"""Boundary recorders (E3): wrap, from outside, the public Future methods that the library's own future classes
define, so that every cancel()/set_*() reaching a library future is logged with the acting thread.
Installed once on the classes; silent when no scenario is active."""
import functools
import inspect
from concurrent.futures import Future

from dsched import core, patch

_done = False


def _wrap_cancel(cls, orig):
    @functools.wraps(orig)
    def cancel(self):
        s = core.ACTIVE
        if s is None or s.aborting or s.cur is None:
            return orig(self)
        nm = s.name_of(self, "f")
        s.ev("fcancel>", nm, cls.__name__)
        r = orig(self)
        s.ev("fcancel<", nm, r)
        return r
    cancel._verif_wrapped = True
    return cancel


def _executor_name(fut):
    """name of the executor a PollFuture / RetryFuture belongs to, read from the INSTANCE dict only: a plain getattr on a ProxyFuture
    would be forwarded to its result - and block on the very future that is being completed"""
    try:
        ex = object.__getattribute__(fut, "__dict__").get("_executor")
        return object.__getattribute__(ex, "__dict__").get("_name") if ex is not None else None
    except Exception:
        return None


def _wrap_set(cls, orig, kind):
    @functools.wraps(orig)
    def setter(self, value):
        s = core.ACTIVE
        if s is None or s.aborting or s.cur is None:
            return orig(self, value)
        nm = s.name_of(self, "f")
        s.ev("fset>", nm, kind, s.name_of(value, "x") if isinstance(value, BaseException) else None, cls.__name__,
             _executor_name(self))
        try:
            r = orig(self, value)
        except BaseException as e:
            if not isinstance(e, core.Abort):
                s.ev("fset!", nm, type(e).__name__)
            raise
        s.ev("fset<", nm, kind)
        return r
    setter._verif_wrapped = True
    return setter


def _wrap_base(orig, kind):
    """stdlib Future.set_result / set_exception / cancel, reached through super() from the library's future classes: log whether
    the calling thread holds that future's own lock (`_me_lock`) - the locking protocol that Model/MeFuture.lean assumes for
    every state change (Set / Cancel frames act under the future's lock)."""
    @functools.wraps(orig)
    def meth(self, *a):
        s = core.ACTIVE
        if s is not None and not s.aborting and s.cur is not None and type(self).__module__.startswith("more_executors"):
            lk = getattr(self, "_me_lock", None)
            owned = None
            if lk is not None and hasattr(lk, "_is_owned"):
                try:
                    owned = bool(lk._is_owned())
                except Exception:
                    owned = None
            if owned is not None and not (kind == "cancel" and self.done()):
                s.ev("fstate", s.name_of(self, "f"), kind, owned, type(self).__name__)
        return orig(self, *a)
    meth._verif_wrapped = True
    return meth


def protocol_breaks(log):
    """state changes of library futures performed without the future's own lock: [(log index, future, kind, class)]"""
    return [(i, e[2], e[3], e[5]) for i, e in enumerate(log) if e[1] == "fstate" and e[4] is False]


def install():
    global _done
    if _done:
        return
    patch.install()
    for nm, kind in (("set_result", "result"), ("set_exception", "exception"), ("cancel", "cancel")):
        o = Future.__dict__[nm]
        if not getattr(o, "_verif_wrapped", False):
            setattr(Future, nm, _wrap_base(o, kind))
    seen = set()
    for mod in patch.LIB_MODULES:
        for _n, cls in list(vars(mod).items()):
            if inspect.isclass(cls) and issubclass(cls, Future) and cls is not Future and cls not in seen \
                    and cls.__module__.startswith("more_executors"):
                seen.add(cls)
                d = cls.__dict__
                if "cancel" in d and not getattr(d["cancel"], "_verif_wrapped", False):
                    setattr(cls, "cancel", _wrap_cancel(cls, d["cancel"]))
                if "set_result" in d and not getattr(d["set_result"], "_verif_wrapped", False):
                    setattr(cls, "set_result", _wrap_set(cls, d["set_result"], "result"))
                if "set_exception" in d and not getattr(d["set_exception"], "_verif_wrapped", False):
                    setattr(cls, "set_exception", _wrap_set(cls, d["set_exception"], "exception"))
    _done = True
