"""Boundary recorders (E3): wrap, from outside, the public Future methods that the library's own future classes
define, so that every cancel()/set_*() reaching a library future is logged with the acting thread.
Installed once on the classes; silent when no scenario is active."""
import functools
import inspect
from concurrent.futures import Future

from dsched import core, patch

_done = False


def _wrap_cancel(cls, orig):
    @functools.wraps(orig)
    def cancel(self):
        s = core.ACTIVE
        if s is None or s.aborting or s.cur is None:
            return orig(self)
        nm = s.name_of(self, "f")
        s.ev("fcancel>", nm, cls.__name__)
        r = orig(self)
        s.ev("fcancel<", nm, r)
        return r
    cancel._verif_wrapped = True
    return cancel


def _wrap_set(cls, orig, kind):
    @functools.wraps(orig)
    def setter(self, value):
        s = core.ACTIVE
        if s is None or s.aborting or s.cur is None:
            return orig(self, value)
        nm = s.name_of(self, "f")
        s.ev("fset>", nm, kind)
        try:
            r = orig(self, value)
        except BaseException as e:
            if not isinstance(e, core.Abort):
                s.ev("fset!", nm, type(e).__name__)
            raise
        s.ev("fset<", nm, kind)
        return r
    setter._verif_wrapped = True
    return setter


def install():
    global _done
    if _done:
        return
    patch.install()
    seen = set()
    for mod in patch.LIB_MODULES:
        for _n, cls in list(vars(mod).items()):
            if inspect.isclass(cls) and issubclass(cls, Future) and cls is not Future and cls not in seen \
                    and cls.__module__.startswith("more_executors"):
                seen.add(cls)
                d = cls.__dict__
                if "cancel" in d and not getattr(d["cancel"], "_verif_wrapped", False):
                    setattr(cls, "cancel", _wrap_cancel(cls, d["cancel"]))
                if "set_result" in d and not getattr(d["set_result"], "_verif_wrapped", False):
                    setattr(cls, "set_result", _wrap_set(cls, d["set_result"], "result"))
                if "set_exception" in d and not getattr(d["set_exception"], "_verif_wrapped", False):
                    setattr(cls, "set_exception", _wrap_set(cls, d["set_exception"], "exception"))
    _done = True
