"""K15: MapFuture / FlatMapFuture resolution as closed terms of the deep embedding `MoreExec.PyMap.Stmt`.

A purely syntactic walk of the Python AST of
    map.py       MapFuture._delegate_resolved, MapFuture._delegate_failed, MapFuture._on_mapped, MapFuture.__init__
    flat_map.py  FlatMapFuture._on_mapped, FlatMapFuture.__init__
Calls of methods on `self` are inlined as `Stmt.block`s; `self._on_mapped` is resolved per class (FlatMapFuture overrides it,
`super(FlatMapFuture, self)._on_mapped` is MapFuture's).  Anything outside the accepted forms raises Untranslatable, which the
pipeline reports as a broken obligation (and then searches for a failing input)."""
import ast

from .translate import Untranslatable, find_function

ATTRS = {"_map_fn": "mapFn", "_error_fn": "errorFn", "__flattened": "flattened", "_FlatMapFuture__flattened": "flattened"}
METHS = {"cancelled": "cancelled", "exception": "exception", "result": "result", "done": "done"}


class Scope(object):
    def __init__(self, gen, names):
        self.gen = gen
        self.names = dict(names)

    def var(self, name, create=False):
        if name == "self":
            return 0
        if name not in self.names:
            if not create:
                raise Untranslatable("K15: name %r read before assignment" % name)
            self.names[name] = self.gen.fresh()
        return self.names[name]


class Gen(object):
    def __init__(self, methods):
        self.methods = methods          # (class, name) -> FunctionDef
        self.n = 2                      # 0 = self, 1 = delegate of _delegate_resolved
        self.depth = 0

    def fresh(self):
        self.n += 1
        return self.n - 1

    # ---- expressions
    def expr(self, e, sc):
        if isinstance(e, ast.Constant):
            if e.value is None:
                return ".none"
            if e.value is True:
                return ".true"
            raise Untranslatable("K15: constant %r" % (e.value,))
        if isinstance(e, ast.Name):
            return "(.var %d)" % sc.var(e.id)
        if isinstance(e, ast.Lambda):
            a = e.args
            if len(a.args) == 1 and not (a.vararg or a.kwarg or a.kwonlyargs or a.defaults) and isinstance(e.body, ast.Name) \
                    and e.body.id == a.args[0].arg:
                return ".lamId"
            raise Untranslatable("K15: lambda other than identity: %s" % ast.unparse(e))
        if isinstance(e, ast.Attribute) and isinstance(e.value, ast.Name) and e.value.id == "self" and e.attr in ATTRS:
            return "(.attr .%s)" % ATTRS[e.attr]
        if isinstance(e, ast.UnaryOp) and isinstance(e.op, ast.Not):
            return "(.not %s)" % self.expr(e.operand, sc)
        if isinstance(e, ast.Compare) and len(e.ops) == 1:
            l, r = e.left, e.comparators[0]
            none_r = isinstance(r, ast.Constant) and r.value is None
            if isinstance(e.ops[0], ast.Is):
                return "(.isNone %s)" % self.expr(l, sc) if none_r else "(.is %s %s)" % (self.expr(l, sc), self.expr(r, sc))
            if isinstance(e.ops[0], ast.IsNot) and none_r:
                return "(.isNotNone %s)" % self.expr(l, sc)
        if isinstance(e, ast.Call) and not e.keywords:
            f = e.func
            # callable(getattr(X, "add_done_callback", None))
            if isinstance(f, ast.Name) and f.id == "callable" and len(e.args) == 1:
                g = e.args[0]
                if isinstance(g, ast.Call) and isinstance(g.func, ast.Name) and g.func.id == "getattr" and len(g.args) == 3 \
                        and isinstance(g.args[1], ast.Constant) and g.args[1].value == "add_done_callback" \
                        and isinstance(g.args[2], ast.Constant) and g.args[2].value is None and not g.keywords:
                    return "(.hasAddDoneCallback %s)" % self.expr(g.args[0], sc)
            if isinstance(f, ast.Attribute) and isinstance(f.value, ast.Name):
                recv = f.value.id
                if recv == "self" and f.attr in ("_map_fn", "_error_fn") and len(e.args) == 1:
                    return "(.callAttr .%s %s)" % (ATTRS[f.attr], self.expr(e.args[0], sc))
                if f.attr in METHS and not e.args:
                    return "(.meth (.var %d) .%s)" % (sc.var(recv), METHS[f.attr])
        raise Untranslatable("K15: expression %s" % ast.unparse(e))

    # ---- method calls on self that are inlined
    def inlinable(self, e, cls):
        """(class, method, argument expr) when e is `self.m(x)` / `super(C, self).m(x)` for a method we hold"""
        if not (isinstance(e, ast.Call) and isinstance(e.func, ast.Attribute) and len(e.args) == 1 and not e.keywords):
            return None
        f = e.func
        if isinstance(f.value, ast.Name) and f.value.id == "self":
            for c in self.mro(cls):
                if (c, f.attr) in self.methods:
                    return (c, f.attr, e.args[0])
            return None
        v = f.value
        if isinstance(v, ast.Call) and isinstance(v.func, ast.Name) and v.func.id == "super":
            if len(v.args) == 2 and isinstance(v.args[0], ast.Name) and isinstance(v.args[1], ast.Name) and v.args[1].id == "self":
                start = v.args[0].id
            elif not v.args:
                start = cls
            else:
                return None
            m = self.mro(start)[1:]
            for c in m:
                if (c, f.attr) in self.methods:
                    return (c, f.attr, e.args[0])
            raise Untranslatable("K15: super().%s not found" % f.attr)
        return None

    @staticmethod
    def mro(cls):
        return {"FlatMapFuture": ["FlatMapFuture", "MapFuture"], "MapFuture": ["MapFuture"]}[cls]

    def block(self, target, arg, sc, dyn_cls, dst):
        (c, m, _a) = target
        fn = self.methods[(c, m)]
        params = [a.arg for a in fn.args.args]
        if len(params) != 2 or params[0] != "self":
            raise Untranslatable("K15: %s.%s has parameters %r" % (c, m, params))
        self.depth += 1
        if self.depth > 6:
            raise Untranslatable("K15: recursion among the inlined methods")
        p = self.fresh()
        inner = Scope(self, {params[1]: p})
        body = self.stmts(fn.body, inner, c, dyn_cls)
        self.depth -= 1
        return "(.block %d %s %s %s)" % (p, self.expr(arg, sc), body, "none" if dst is None else "(some %d)" % dst)

    # ---- statements.  `cls` = class whose method body this is (for super()), `dyn` = class of the object (virtual dispatch)
    def stmts(self, body, sc, cls, dyn):
        out = [self.stmt(st, sc, cls, dyn) for st in body]
        out = [o for o in out if o != ".skip"] or [".skip"]
        term = out[-1]
        for o in reversed(out[:-1]):
            term = "(.seq %s\n %s)" % (o, term)
        return term

    def stmt(self, st, sc, cls, dyn):
        if isinstance(st, (ast.Assert, ast.Pass)):
            return ".skip"
        if isinstance(st, ast.Expr) and isinstance(st.value, ast.Constant) and isinstance(st.value.value, str):
            return ".skip"
        if isinstance(st, ast.Return):
            if st.value is None:
                return "(.ret none)"
            t = self.inlinable(st.value, cls) and self._dispatch(st.value, cls, dyn)
            if t:
                tmp = self.fresh()
                return "(.seq %s (.ret (some (.var %d))))" % (self.block(t, t[2], sc, dyn, tmp), tmp)
            return "(.ret (some %s))" % self.expr(st.value, sc)
        if isinstance(st, ast.Raise):
            if st.exc is not None and isinstance(st.exc, ast.Call) and isinstance(st.exc.func, ast.Name) and st.exc.func.id == "TypeError" \
                    and st.cause is None:
                return ".raiseTypeError"
            raise Untranslatable("K15: %s" % ast.unparse(st)[:60])
        if isinstance(st, ast.If):
            return "(.ite %s\n %s\n %s)" % (self.expr(st.test, sc), self.stmts(st.body, sc, cls, dyn),
                                          self.stmts(st.orelse, sc, cls, dyn) if st.orelse else ".skip")
        if isinstance(st, ast.Try):
            if st.orelse or st.finalbody or len(st.handlers) != 1:
                raise Untranslatable("K15: try with else/finally/several handlers")
            h = st.handlers[0]
            if not (isinstance(h.type, ast.Name) and h.type.id == "Exception"):
                raise Untranslatable("K15: handler for %s (only `except Exception` is understood)" % (ast.unparse(h.type) if h.type else "everything"))
            body = self.stmts(st.body, sc, cls, dyn)
            av = "none" if h.name is None else "(some %d)" % sc.var(h.name, create=True)
            return "(.tryExc %s\n %s\n %s)" % (body, av, self.stmts(h.body, sc, cls, dyn))
        if isinstance(st, ast.Assign) and len(st.targets) == 1:
            t = st.targets[0]
            if isinstance(t, ast.Name):
                tgt = self.inlinable(st.value, cls) and self._dispatch(st.value, cls, dyn)
                if tgt:
                    return self.block(tgt, tgt[2], sc, dyn, sc.var(t.id, create=True))
                rhs = self.expr(st.value, sc)
                return "(.assign %d %s)" % (sc.var(t.id, create=True), rhs)
            if isinstance(t, ast.Attribute) and isinstance(t.value, ast.Name) and t.value.id == "self" and t.attr in ATTRS:
                return "(.setAttr .%s %s)" % (ATTRS[t.attr], self.expr(st.value, sc))
        if isinstance(st, ast.Expr) and isinstance(st.value, ast.Call) and not st.value.keywords:
            c = st.value
            src = ast.unparse(c.func)
            args = c.args
            if src == "self._set_delegate" and len(args) == 1:
                return "(.setDelegate %s)" % self.expr(args[0], sc)
            if src == "copy_future_exception" and len(args) == 2 and isinstance(args[1], ast.Name) and args[1].id == "self":
                return "(.copyFutExc %s)" % self.expr(args[0], sc)
            if src == "copy_exception" and len(args) == 1 and isinstance(args[0], ast.Name) and args[0].id == "self":
                return "(.prim .copyException)"
            if src == "self._me_delegate_cancelled" and not args:
                return "(.prim .meDelegateCancelled)"
            if src == "try_set_result" and len(args) == 2 and isinstance(args[0], ast.Name) and args[0].id == "self":
                return "(.trySetResult %s)" % self.expr(args[1], sc)
            tgt = self.inlinable(c, cls) and self._dispatch(c, cls, dyn)
            if tgt:
                return self.block(tgt, tgt[2], sc, dyn, None)
        raise Untranslatable("K15: statement %s" % ast.unparse(st)[:80])

    def _dispatch(self, call, cls, dyn):
        """`self.m(x)` dispatches on the object's class `dyn`; `super(C, self).m(x)` on C's bases"""
        f = call.func
        if isinstance(f.value, ast.Name) and f.value.id == "self":
            return self.inlinable(call, dyn)
        return self.inlinable(call, cls)


def _default_fn(init, what):
    """`self._map_fn = map_fn or identity` / `map_fn = map_fn or f_return`"""
    for st in ast.walk(init):
        if isinstance(st, ast.Assign) and isinstance(st.value, ast.BoolOp) and isinstance(st.value.op, ast.Or) and len(st.value.values) == 2:
            a, b = st.value.values
            if isinstance(a, ast.Name) and a.id == "map_fn" and isinstance(b, ast.Name):
                return b.id
    raise Untranslatable("K15: default mapping function of %s not found" % what)


def k15(parse):
    mtree, _ = parse("map.py")
    ftree, _ = parse("flat_map.py")
    methods = {}
    for (tree, cls, names) in ((mtree, "MapFuture", ("_delegate_resolved", "_delegate_failed", "_on_mapped", "__init__", "_set_delegate")),
                               (ftree, "FlatMapFuture", ("_on_mapped", "__init__"))):
        for n in names:
            methods[(cls, n)] = find_function(tree, "%s.%s" % (cls, n))
    # overriding of the resolution methods anywhere else would change the dispatch assumed here
    fcls = [n for n in ftree.body if isinstance(n, ast.ClassDef) and n.name == "FlatMapFuture"][0]
    over = sorted(st.name for st in fcls.body if isinstance(st, ast.FunctionDef))
    if over != ["__init__", "_on_mapped"]:
        raise Untranslatable("K15: FlatMapFuture defines %r (expected __init__ and _on_mapped only)" % over)
    if [ast.unparse(b) for b in fcls.bases] != ["MapFuture"]:
        raise Untranslatable("K15: FlatMapFuture bases %r" % [ast.unparse(b) for b in fcls.bases])
    inl = {k: v for k, v in methods.items() if k[1] in ("_delegate_failed", "_on_mapped")}
    progs = {}
    for dyn in ("MapFuture", "FlatMapFuture"):
        g = Gen(inl)
        fn = methods[("MapFuture", "_delegate_resolved")]
        params = [a.arg for a in fn.args.args]
        if params != ["self", "delegate"]:
            raise Untranslatable("K15: _delegate_resolved%r" % params)
        sc = Scope(g, {"delegate": 1})
        progs[dyn] = g.stmts(fn.body, sc, "MapFuture", dyn)
    # __init__ facts
    d_map = _default_fn(methods[("MapFuture", "__init__")], "MapFuture")
    d_flat = _default_fn(methods[("FlatMapFuture", "__init__")], "FlatMapFuture")
    slot = {"identity": ".identity", "f_return": ".freturn"}
    if d_map not in slot or d_flat not in slot:
        raise Untranslatable("K15: default mapping functions %r / %r" % (d_map, d_flat))
    minit = ast.unparse(methods[("MapFuture", "__init__")])
    finit = ast.unparse(methods[("FlatMapFuture", "__init__")])
    if "self._error_fn = error_fn" not in minit or "self.__flattened = False" not in finit \
            or "super(FlatMapFuture, self).__init__(delegate, map_fn, error_fn)" not in finit:
        raise Untranslatable("K15: constructor wiring changed")
    # _set_delegate registers `_delegate_resolved` as the done-callback of a non-empty delegate
    sd = ast.unparse(methods[("MapFuture", "_set_delegate")])
    if "self._delegate = delegate" not in sd or "self._delegate.add_done_callback(self._delegate_resolved)" not in sd:
        raise Untranslatable("K15: _set_delegate changed")
    # `_me_cancel`: the request is forwarded to the delegate while there is one; with no delegate (the future is being resolved, or
    # is done) the answer is False - never True: there would be nothing the cancel had been forwarded to
    mc = find_function(mtree, "MapFuture._me_cancel")
    mcb = [ast.unparse(st) for st in mc.body if not (isinstance(st, ast.Expr) and isinstance(st.value, ast.Constant))]
    me_cancel_ok = mcb == ["with self._me_lock:\n    if self._delegate:\n        return self._delegate.cancel()", "return False"]
    body = ("/-- `MapFuture._me_cancel` forwards to the delegate while there is one and answers False otherwise -/\n"
            "def meCancelForwardsOrRefuses : Bool := %s\n\n" % ("true" if me_cancel_ok else "false")) + \
           ("open MoreExec.PyMap in\n/-- `MapFuture._delegate_resolved` with `MapFuture._on_mapped` -/\ndef resolvedMap : Stmt :=\n %s\n\n"
            "open MoreExec.PyMap in\n/-- `MapFuture._delegate_resolved` on a `FlatMapFuture` (its `_on_mapped`, `super()._on_mapped` inlined) -/\n"
            "def resolvedFlat : Stmt :=\n %s\n\n"
            "/-- `self._map_fn = map_fn or <this>` -/\ndef mapDefault : MoreExec.PyMap.FnSlot := %s\n"
            "/-- `map_fn = map_fn or <this>` in FlatMapFuture.__init__ -/\ndef flatDefault : MoreExec.PyMap.FnSlot := %s\n"
            % (progs["MapFuture"], progs["FlatMapFuture"], slot[d_map], slot[d_flat]))
    return "map.py, flat_map.py", ["MapFuture._delegate_resolved", "MapFuture._delegate_failed", "MapFuture._on_mapped",
                                   "FlatMapFuture._on_mapped", "MapFuture.__init__", "FlatMapFuture.__init__"], body
