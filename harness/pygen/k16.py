"""K16: the `_Future` protocol methods as (locked part, tail) pairs of the deep embedding `MoreExec.PyFut.Stmt`.

    common.py  _Future.add_done_callback, _Future.cancel, _Future._me_delegate_cancelled, _Future._me_invoke_callbacks,
               _OutputFuture.set_result, _OutputFuture.set_exception
    map.py     MapFuture.set_result, set_exception, set_exception_info
    poll.py    PollFuture.set_result, set_exception, set_exception_info
    retry.py   RetryFuture.__terminate_via (+ the three setters that call it with the stdlib setter)

A purely syntactic walk: every method must consist of ONE `with self._me_lock:` block followed by statements outside the lock
(`_me_invoke_callbacks` has no block).  Anything else raises Untranslatable (a broken obligation, then the failing-input search)."""
import ast

from .translate import Untranslatable, find_function


class G(object):
    def __init__(self, invoke_body=None):
        self.vars = {}
        self.invoke_body = invoke_body
        self.loopvar = None
        self.fnparam = None

    def var(self, name, create=False):
        if name not in self.vars:
            if not create:
                raise Untranslatable("K16: name %r read before assignment" % name)
            self.vars[name] = len(self.vars)
        return self.vars[name]

    # ---- expressions
    def expr(self, e):
        if isinstance(e, ast.Constant) and e.value is True:
            return ".tt"
        if isinstance(e, ast.Constant) and e.value is False:
            return ".ff"
        if isinstance(e, ast.Name):
            return "(.var %d)" % self.var(e.id)
        if isinstance(e, ast.UnaryOp) and isinstance(e.op, ast.Not):
            return "(.not %s)" % self.expr(e.operand)
        if isinstance(e, ast.BoolOp) and isinstance(e.op, ast.Or) and len(e.values) == 2:
            return "(.or %s %s)" % (self.expr(e.values[0]), self.expr(e.values[1]))
        src = ast.unparse(e)
        if src == "self.done()":
            return ".done"
        if src == "self.cancelled()":
            return ".cancelled"
        if src == "self._me_cancelling":
            return ".cancelling"
        if src == "self._me_cancel()":
            return ".meCancel"
        if self.is_super_call(e, ("cancel",)) and not e.args:
            return ".superCancel"
        raise Untranslatable("K16: expression %s" % src)

    @staticmethod
    def is_super_call(e, names):
        if not (isinstance(e, ast.Call) and isinstance(e.func, ast.Attribute) and e.func.attr in names and not e.keywords):
            return False
        v = e.func.value
        return isinstance(v, ast.Call) and isinstance(v.func, ast.Name) and v.func.id == "super"

    # ---- statements
    def seq(self, body, locked):
        out = [self.stmt(st, locked) for st in body]
        out = [o for o in out if o != ".skip"] or [".skip"]
        term = out[-1]
        for o in reversed(out[:-1]):
            term = "(.seq %s %s)" % (o, term)
        return term

    def stmt(self, st, locked):
        if isinstance(st, ast.Pass) or (isinstance(st, ast.Expr) and isinstance(st.value, ast.Constant) and isinstance(st.value.value, str)):
            return ".skip"
        if isinstance(st, ast.If):
            return "(.ite %s %s %s)" % (self.expr(st.test), self.seq(st.body, locked), self.seq(st.orelse, locked) if st.orelse else ".skip")
        if isinstance(st, ast.Return):
            return "(.ret none)" if st.value is None else "(.ret (some %s))" % self.expr(st.value)
        src = ast.unparse(st)
        if isinstance(st, ast.Assign) and len(st.targets) == 1:
            t = st.targets[0]
            if isinstance(t, ast.Name):
                rhs = self.expr(st.value)
                return "(.assign %d %s)" % (self.var(t.id, create=True), rhs)
            if ast.unparse(t) == "self._me_cancelling" and isinstance(st.value, ast.Constant) and st.value.value in (True, False) and locked:
                return "(.setCancelling %s)" % ("true" if st.value.value else "false")
            if src == "self._me_done_callbacks = []" and not locked:
                return ".resetCbs"
        if isinstance(st, ast.Try):
            if locked and st.finalbody and not st.handlers and not st.orelse:
                return "(.tryFinally %s %s)" % (self.seq(st.body, locked), self.seq(st.finalbody, locked))
            if not locked and len(st.handlers) == 1 and not st.finalbody and not st.orelse:
                h = st.handlers[0]
                if isinstance(h.type, ast.Name) and h.type.id == "Exception" and h.name is None \
                        and all(isinstance(x, ast.Expr) and ast.unparse(x).startswith("LOG.") for x in h.body):
                    return "(.tryLog %s)" % self.seq(st.body, locked)
            raise Untranslatable("K16: try statement %s" % src[:60])
        if isinstance(st, ast.For) and not locked and not st.orelse:
            if isinstance(st.target, ast.Name) and ast.unparse(st.iter) == "self._me_done_callbacks":
                self.loopvar = st.target.id
                r = "(.forCbs %s)" % self.seq(st.body, locked)
                self.loopvar = None
                return r
        if isinstance(st, ast.Expr) and isinstance(st.value, ast.Call):
            c = st.value
            if locked:
                if src == "self._me_done_callbacks.append(%s)" % self.fnparam:
                    return ".append"
                if self.is_super_call(c, ("set_result", "set_exception", "set_exception_info")) and c.args \
                        and all(isinstance(a, ast.Name) for a in c.args):
                    return ".superSet"
                if self.is_super_call(c, ("cancel",)) and not c.args:
                    return "(.eval .superCancel)"
                if src == "self.set_running_or_notify_cancel()":
                    return ".notifyCancel"
                if src == "self._clear_delegate()":
                    return ".skip"                       # RetryFuture: drops its reference to the delegate (lifecycle, C12)
                if src == "method(*args, **kwargs)" and self.fnparam == "<terminate>":
                    return ".superSet"
            else:
                if src == "self._me_invoke_callbacks()":
                    if self.invoke_body is None:
                        raise Untranslatable("K16: nested callback pass")
                    return "(.invoke invokeBody)"
                if self.loopvar is not None and src == "%s(self)" % self.loopvar:
                    return ".callCb"
                if self.fnparam and src == "%s(self)" % self.fnparam:
                    return ".callFn"
        raise Untranslatable("K16: %s statement %s" % ("locked" if locked else "unlocked", src[:80]))

    def method(self, fn, fnparam=None):
        self.fnparam = fnparam
        body = [st for st in fn.body if not (isinstance(st, ast.Expr) and isinstance(st.value, ast.Constant))]
        if not body or not isinstance(body[0], ast.With):
            raise Untranslatable("K16: %s does not start with its lock section" % fn.name)
        w = body[0]
        if len(w.items) != 1 or ast.unparse(w.items[0].context_expr) != "self._me_lock" or w.items[0].optional_vars is not None:
            raise Untranslatable("K16: %s: first block is not `with self._me_lock:`" % fn.name)
        for st in body[1:]:
            for n in ast.walk(st):
                if isinstance(n, ast.With):
                    raise Untranslatable("K16: %s takes a lock a second time" % fn.name)
        locked = self.seq(w.body, True)
        tail = self.seq(body[1:], False) if len(body) > 1 else ".skip"
        return locked, tail


def k16(parse):
    ctree, _ = parse("common.py")
    mtree, _ = parse("map.py")
    ptree, _ = parse("poll.py")
    rtree, _ = parse("retry.py")
    inv = find_function(ctree, "_Future._me_invoke_callbacks")
    g0 = G()
    if [a.arg for a in inv.args.args] != ["self"]:
        raise Untranslatable("K16: _me_invoke_callbacks parameters")
    invoke_body = g0.seq([st for st in inv.body], False)
    defs = ["open MoreExec.PyFut in\n/-- the body of `_Future._me_invoke_callbacks` -/\ndef invokeBody : Stmt :=\n  %s\n" % invoke_body]
    names = []

    def emit(lean, tree, qual, fnparam=None, params=None):
        fn = find_function(tree, qual)
        got = [a.arg for a in fn.args.args]
        if params is not None and got != params:
            raise Untranslatable("K16: %s%r" % (qual, got))
        g = G(invoke_body)
        locked, tail = g.method(fn, fnparam)
        defs.append("open MoreExec.PyFut in\n/-- `%s` -/\ndef %s : Method :=\n  ⟨%s,\n   %s⟩\n" % (qual, lean, locked, tail))
        for nm, idx in sorted(g.vars.items(), key=lambda kv: kv[1]):
            defs.append("/-- local `%s` of `%s` -/\ndef %s_%s : Nat := %d\n" % (nm, qual, lean, nm, idx))
        names.append(qual)

    emit("addDoneCallback", ctree, "_Future.add_done_callback", fnparam="fn", params=["self", "fn"])
    emit("cancel", ctree, "_Future.cancel", params=["self"])
    emit("meDelegateCancelled", ctree, "_Future._me_delegate_cancelled", params=["self"])
    emit("outputSetResult", ctree, "_OutputFuture.set_result", params=["self", "result"])
    emit("outputSetException", ctree, "_OutputFuture.set_exception", params=["self", "exception"])
    emit("mapSetResult", mtree, "MapFuture.set_result", params=["self", "result"])
    emit("mapSetException", mtree, "MapFuture.set_exception", params=["self", "exception"])
    emit("mapSetExceptionInfo", mtree, "MapFuture.set_exception_info", params=["self", "exception", "traceback"])
    emit("pollSetResult", ptree, "PollFuture.set_result", params=["self", "result"])
    emit("pollSetException", ptree, "PollFuture.set_exception", params=["self", "exception"])
    emit("pollSetExceptionInfo", ptree, "PollFuture.set_exception_info", params=["self", "exception", "traceback"])
    # RetryFuture: its three setters pass the stdlib setter to `__terminate_via`
    rcls = [n for n in rtree.body if isinstance(n, ast.ClassDef) and n.name == "RetryFuture"][0]
    for nm, sup in (("set_result", "set_result"), ("set_exception", "set_exception"), ("set_exception_info", "set_exception_info")):
        f = [st for st in rcls.body if isinstance(st, ast.FunctionDef) and st.name == nm][0]
        body = [st for st in f.body if not (isinstance(st, ast.Expr) and isinstance(st.value, ast.Constant))]
        ok = len(body) == 1 and isinstance(body[0], ast.Expr) and isinstance(body[0].value, ast.Call) \
            and ast.unparse(body[0].value.func) in ("self.__terminate_via", "self._RetryFuture__terminate_via") \
            and body[0].value.args and ast.unparse(body[0].value.args[0]) == "super(RetryFuture, self).%s" % sup
        if not ok:
            raise Untranslatable("K16: RetryFuture.%s does not delegate to __terminate_via with the stdlib setter" % nm)
    emit("retryTerminate", rtree, "RetryFuture.__terminate_via", fnparam="<terminate>")
    # nobody else overrides the protocol methods
    over = []
    for rel in ("common.py", "map.py", "flat_map.py", "poll.py", "retry.py", "throttle.py", "timeout.py", "futures/base.py",
                "futures/bool.py", "futures/zip.py", "futures/nocancel.py", "futures/proxy.py", "futures/timeout.py"):
        try:
            tree, _ = parse(rel)
        except OSError:
            continue
        for n in tree.body:
            if isinstance(n, ast.ClassDef) and n.name != "_Future":
                for st in n.body:
                    if isinstance(st, ast.FunctionDef) and st.name in ("add_done_callback", "cancel", "_me_delegate_cancelled",
                                                                       "_me_invoke_callbacks"):
                        over.append("%s.%s" % (n.name, st.name))
    # (NoCancelFuture / proxies define cancel() on purpose: they are MapFuture subclasses whose cancel never reaches `_Future.cancel`)
    allowed = {"NoCancelFuture.cancel"}
    extra = sorted(set(over) - allowed)
    defs.append("/-- classes other than `_Future` that define a protocol method themselves -/\ndef protocolOverrides : List String := [%s]\n"
                % ", ".join('"%s"' % x for x in extra))
    return "common.py, map.py, poll.py, retry.py", names + ["_Future._me_invoke_callbacks"], "\n".join(defs)
