"""pygen: a deliberately tiny Python-AST -> Lean 4 translator for pure decision kernels.

Accepted subset (anything else raises Untranslatable, which the pipeline reports as a broken obligation):
  statements : assignment to names / tuple of names, x.append(e), if/elif/else, for x in <list>, continue,
               return, pass, expression statements that are calls on a configured `skip` receiver (logging)
  expressions: names, constants, comparisons, and/or/not with Python truthiness on declared types, + - * **,
               min/max/len, attribute reads and method calls mapped by the side table, tuples, [] and list
               comprehensions without conditions, conditional expressions, `is None` / `is not None`
Every `for` becomes a named structurally recursive helper over the list with the loop-carried variables as
arguments, so theorems refer to generated definitions by name.
"""
import ast


class Untranslatable(Exception):
    pass


class Ty(object):
    """Types are plain strings: Nat Int Bool 'List X' 'Option X' 'Prod A B' or a record name."""


def is_list(t):
    return t.startswith("List ")


def is_opt(t):
    return t.startswith("Option ")


def elem(t):
    return t.split(" ", 1)[1]


def paren(t):
    return "(%s)" % t if " " in t else t


class Kernel(object):
    def __init__(self, name, fn_ast, params, ret, locals_, attrs=None, calls=None, skip=(), consts=None,
                 drop_params=("self", "cls"), self_attrs=None, truthy=None, lean_name=None, methods=None,
                 attr_targets=None, ret_extra=(), init_locals=None, stmt_updates=None):
        self.name = lean_name or name
        self.fn = fn_ast
        self.params = params          # ordered list of (lean_name, type); python param names mapped via rename
        self.ret = ret
        self.locals = dict(locals_)   # python local name -> type
        self.attrs = attrs or {}      # (type, attr) -> (lean template with {0}, result type)
        self.calls = calls or {}      # python func name -> (lean template, result type)
        self.methods = methods or {}  # (type, method) -> (lean template with {0} and {1..}, result type)
        self.skip = set(skip)         # receivers whose method calls are dropped, e.g. 'self._log'
        self.consts = consts or {}
        self.self_attrs = self_attrs or {}   # 'self.x' -> (lean expr, type)
        self.truthy = truthy or {}    # type -> lean template giving Bool
        self.helpers = []
        self.nloops = 0
        self.attr_targets = attr_targets or {}   # 'self.done' -> local name (assignment to an attribute = state update)
        self.ret_extra = list(ret_extra)         # locals appended to every returned tuple (the updated state)
        self.init_locals = init_locals or {}     # local name -> (lean initial value, type) bound before the body
        self.stmt_updates = stmt_updates or {}   # source of a call statement -> (local name, lean template of the new value, {0} = current)

    # ---------------------------------------------------------------- expressions
    def expr(self, e, env):
        """returns (lean_text, type)"""
        if isinstance(e, ast.Constant):
            v = e.value
            if v is True:
                return "true", "Bool"
            if v is False:
                return "false", "Bool"
            if v is None:
                return "none", "Option ?"
            if isinstance(v, int):
                return str(v), "Nat"
            raise Untranslatable("constant %r" % (v,))
        if isinstance(e, ast.Name):
            if e.id in env:
                return env[e.id]
            if e.id in self.consts:
                return self.consts[e.id]
            raise Untranslatable("unknown name %s" % e.id)
        if isinstance(e, ast.Attribute):
            src = ast.unparse(e)
            if src in self.attr_targets and self.attr_targets[src] in env:
                return env[self.attr_targets[src]]
            if src in self.self_attrs:
                return self.self_attrs[src]
            base, bt = self.expr(e.value, env)
            key = (bt, e.attr)
            if key in self.attrs:
                tmpl, t = self.attrs[key]
                return tmpl.format(base), t
            raise Untranslatable("attribute %s of type %s" % (e.attr, bt))
        if isinstance(e, ast.Call):
            src = ast.unparse(e.func)
            if isinstance(e.func, ast.Name) and e.func.id in self.calls:
                tmpl, t = self.calls[e.func.id]
                args = [self.expr(a, env) for a in e.args]
                if e.func.id in ("min", "max") and len(args) == 1 and is_list(args[0][1]):
                    # min over a non-empty list (guarded by the caller): fold
                    fn = "min" if e.func.id == "min" else "max"
                    return "(listFold%s %s)" % (fn.capitalize(), args[0][0]), elem(args[0][1])
                return tmpl.format(*[a[0] for a in args]), (t if t != "=0" else args[0][1])
            if src in self.calls:
                tmpl, t = self.calls[src]
                args = [self.expr(a, env) for a in e.args]
                return tmpl.format(*[a[0] for a in args]), t
            if isinstance(e.func, ast.Attribute):
                base, bt = self.expr(e.func.value, env)
                key = (bt, e.func.attr)
                if key in self.methods:
                    tmpl, t = self.methods[key]
                    args = [self.expr(a, env)[0] for a in e.args]
                    return tmpl.format(base, *args), t
                if is_list(bt) and e.func.attr == "keys":
                    return base, bt
            if isinstance(e.func, ast.Name) and e.func.id == "list" and len(e.args) == 1:
                return self.expr(e.args[0], env)
            if isinstance(e.func, ast.Name) and e.func.id == "set" and not e.args:
                return "[]", "List ?"
            raise Untranslatable("call %s" % src)
        if isinstance(e, ast.Compare):
            if len(e.ops) != 1:
                raise Untranslatable("chained comparison")
            l, lt = self.expr(e.left, env)
            op = e.ops[0]
            r_ast = e.comparators[0]
            if isinstance(op, (ast.Is, ast.IsNot)):
                if isinstance(r_ast, ast.Constant) and r_ast.value is None:
                    if not is_opt(lt):
                        raise Untranslatable("is None on non-option %s" % lt)
                    return ("(%s).isNone" if isinstance(op, ast.Is) else "(%s).isSome") % l, "Bool"
                raise Untranslatable("is on non-None")
            r, _rt = self.expr(r_ast, env)
            sym0 = {ast.Lt: "<", ast.LtE: "≤", ast.Gt: ">", ast.GtE: "≥"}.get(type(op))
            if sym0 is not None and is_opt(_rt) and not is_opt(lt):
                # comparison against an Optional that the Python code has guarded with `is not None`
                return "((%s).any (fun v__ => decide (%s %s v__)))" % (r, l, sym0), "Bool"
            sym = {ast.Lt: "<", ast.LtE: "≤", ast.Gt: ">", ast.GtE: "≥", ast.Eq: "==", ast.NotEq: "!="}.get(type(op))
            if sym is None:
                raise Untranslatable("comparison %s" % type(op).__name__)
            if sym in ("==", "!="):
                return "(%s %s %s)" % (l, sym, r), "Bool"
            return "decide (%s %s %s)" % (l, sym, r), "Bool"
        if isinstance(e, ast.BoolOp):
            parts = [self.truth(v, env) for v in e.values]
            sym = " && " if isinstance(e.op, ast.And) else " || "
            return "(" + sym.join(parts) + ")", "Bool"
        if isinstance(e, ast.UnaryOp) and isinstance(e.op, ast.Not):
            return "!(%s)" % self.truth(e.operand, env), "Bool"
        if isinstance(e, ast.BinOp):
            l, lt = self.expr(e.left, env)
            r, rt = self.expr(e.right, env)
            sym = {ast.Add: "+", ast.Sub: "-", ast.Mult: "*", ast.Pow: "^"}.get(type(e.op))
            if sym is None:
                raise Untranslatable("binop %s" % type(e.op).__name__)
            if sym == "+" and is_list(lt):
                return "(%s ++ %s)" % (l, r), lt
            return "(%s %s %s)" % (l, sym, r), lt
        if isinstance(e, ast.Tuple):
            parts = [self.expr(x, env) for x in e.elts]
            return "(" + ", ".join(p[0] for p in parts) + ")", "Prod"
        if isinstance(e, ast.List):
            if e.elts:
                parts = [self.expr(x, env) for x in e.elts]
                return "[" + ", ".join(p[0] for p in parts) + "]", "List " + paren(parts[0][1])
            return "[]", "List ?"
        if isinstance(e, ast.ListComp):
            if len(e.generators) != 1 or e.generators[0].ifs or not isinstance(e.generators[0].target, ast.Name):
                raise Untranslatable("list comprehension shape")
            it, itt = self.expr(e.generators[0].iter, env)
            v = e.generators[0].target.id
            env2 = dict(env)
            env2[v] = (v, elem(itt))
            body, bt = self.expr(e.elt, env2)
            return "((%s).map (fun %s => %s))" % (it, v, body), "List " + paren(bt)
        if isinstance(e, ast.IfExp):
            c = self.truth(e.test, env)
            a, at = self.expr(e.body, env)
            b, _ = self.expr(e.orelse, env)
            return "(if %s then %s else %s)" % (c, a, b), at
        raise Untranslatable("expression %s" % type(e).__name__)

    def truth(self, e, env):
        """Python truthiness of expression e as a Lean Bool."""
        txt, t = self.expr(e, env)
        if t == "Bool":
            return txt
        if is_list(t):
            return "!(%s).isEmpty" % txt
        if is_opt(t):
            return "(%s).isSome" % txt
        if t in ("Nat", "Int"):
            return "(%s != 0)" % txt
        if t in self.truthy:
            return self.truthy[t].format(txt)
        raise Untranslatable("truthiness of type %s (%s)" % (t, txt))

    # ---------------------------------------------------------------- statements
    def is_skipped(self, st):
        if isinstance(st, ast.Expr) and isinstance(st.value, ast.Call) and isinstance(st.value.func, ast.Attribute):
            recv = ast.unparse(st.value.func.value)
            return recv in self.skip
        if isinstance(st, ast.Expr) and isinstance(st.value, ast.Constant):
            return True  # docstring
        return isinstance(st, ast.Pass)

    def assigned(self, stmts):
        out = []

        def visit(ss):
            for st in ss:
                if isinstance(st, ast.Assign):
                    for tg in st.targets:
                        if isinstance(tg, ast.Attribute) and ast.unparse(tg) in self.attr_targets:
                            tg = ast.Name(id=self.attr_targets[ast.unparse(tg)], ctx=ast.Store())
                        for n in ([tg] if isinstance(tg, ast.Name) else getattr(tg, "elts", [])):
                            if isinstance(n, ast.Name) and n.id not in out:
                                out.append(n.id)
                elif isinstance(st, ast.Expr) and ast.unparse(st.value) in self.stmt_updates:
                    nm = self.stmt_updates[ast.unparse(st.value)][0]
                    if nm not in out:
                        out.append(nm)
                elif isinstance(st, ast.Expr) and isinstance(st.value, ast.Call) and isinstance(st.value.func, ast.Attribute) \
                        and st.value.func.attr == "append" and isinstance(st.value.func.value, ast.Name):
                    if st.value.func.value.id not in out:
                        out.append(st.value.func.value.id)
                elif isinstance(st, ast.AugAssign):
                    tg = st.target
                    if isinstance(tg, ast.Attribute) and ast.unparse(tg) in self.attr_targets:
                        nm = self.attr_targets[ast.unparse(tg)]
                    elif isinstance(tg, ast.Name):
                        nm = tg.id
                    else:
                        nm = None
                    if nm and nm not in out:
                        out.append(nm)
                elif isinstance(st, ast.If):
                    visit(st.body)
                    visit(st.orelse)
                elif isinstance(st, (ast.For, ast.With, ast.While)):
                    visit(st.body)
        visit(stmts)
        return out

    def has_return(self, stmts):
        for st in stmts:
            if isinstance(st, ast.Return):
                return True
            if isinstance(st, ast.If) and (self.has_return(st.body) or self.has_return(st.orelse)):
                return True
        return False

    def block(self, stmts, env, k, ind, early=None):
        """Translate stmts then continue with k(env, ind) -> text.  `early(expr_text)` wraps an early return."""
        if not stmts:
            return k(env, ind)
        st, rest = stmts[0], stmts[1:]
        pad = "  " * ind
        if isinstance(st, ast.Expr) and ast.unparse(st.value) in self.stmt_updates:
            nm, tmpl = self.stmt_updates[ast.unparse(st.value)]
            cur, t = env[nm]
            env2 = dict(env)
            env2[nm] = (nm, t)
            return "%slet %s : %s := %s\n%s" % (pad, nm, t, tmpl.format(cur), self.block(rest, env2, k, ind, early))
        if self.is_skipped(st):
            return self.block(rest, env, k, ind, early)
        if isinstance(st, ast.Assign) and len(st.targets) == 1 and isinstance(st.targets[0], ast.Subscript) \
                and ast.unparse(st.targets[0].value) in self.attr_targets:
            nm = self.attr_targets[ast.unparse(st.targets[0].value)]
            cur, t = env[nm]
            idx, _ = self.expr(st.targets[0].slice, env)
            val, _ = self.expr(st.value, env)
            env2 = dict(env)
            env2[nm] = (nm, t)
            return "%slet %s : %s := (%s).set %s (%s)\n%s" % (pad, nm, t, cur, idx, val, self.block(rest, env2, k, ind, early))
        if isinstance(st, ast.Assign):
            if len(st.targets) != 1:
                raise Untranslatable("multiple assignment targets")
            tg = st.targets[0]
            val, vt = self.expr(st.value, env)
            env2 = dict(env)
            if isinstance(tg, ast.Attribute) and ast.unparse(tg) in self.attr_targets:
                tg = ast.Name(id=self.attr_targets[ast.unparse(tg)], ctx=ast.Store())
            if isinstance(tg, ast.Name):
                t = self.locals.get(tg.id, vt)
                if vt.endswith("?") and tg.id in self.locals:
                    vt = t
                    if val == "none":
                        val = "(none : %s)" % t
                    if val == "[]":
                        val = "([] : %s)" % t
                if is_opt(t) and not is_opt(vt):
                    val = "some %s" % val
                env2[tg.id] = (tg.id, t)
                return "%slet %s : %s := %s\n%s" % (pad, tg.id, t, val, self.block(rest, env2, k, ind, early))
            if isinstance(tg, ast.Tuple) and all(isinstance(n, ast.Name) for n in tg.elts):
                names = [n.id for n in tg.elts]
                for n in names:
                    env2[n] = (n, self.locals[n])
                return "%slet (%s) := %s\n%s" % (pad, ", ".join(names), val, self.block(rest, env2, k, ind, early))
            raise Untranslatable("assignment target")
        if isinstance(st, ast.Expr) and isinstance(st.value, ast.Call) and isinstance(st.value.func, ast.Attribute) \
                and st.value.func.attr == "append" and isinstance(st.value.func.value, ast.Name):
            nm = st.value.func.value.id
            cur, t = env[nm]
            val, _ = self.expr(st.value.args[0], env)
            env2 = dict(env)
            env2[nm] = (nm, t)
            return "%slet %s : %s := %s ++ [%s]\n%s" % (pad, nm, t, cur, val, self.block(rest, env2, k, ind, early))
        if isinstance(st, ast.With):
            # `with lock:` is atomicity, not logic: the body is inlined
            return self.block(list(st.body) + rest, env, k, ind, early)
        if isinstance(st, ast.AugAssign):
            op = {ast.Add: ast.Add, ast.Sub: ast.Sub, ast.Mult: ast.Mult}.get(type(st.op))
            if op is None:
                raise Untranslatable("augmented assignment operator")
            new = ast.Assign(targets=[st.target], value=ast.BinOp(left=_load(st.target), op=op(), right=st.value))
            return self.block([ast.fix_missing_locations(new)] + rest, env, k, ind, early)
        if isinstance(st, ast.If):
            c = self.truth(st.test, env)
            a = self.block(list(st.body) + rest, env, k, ind + 1, early)
            b = self.block(list(st.orelse) + rest, env, k, ind + 1, early)
            return "%sif %s then\n%s\n%selse\n%s" % (pad, c, a, pad, b)
        if isinstance(st, ast.Continue):
            return k(env, ind)
        if isinstance(st, ast.Return):
            if st.value is None:
                raise Untranslatable("bare return")
            val, vt = self.expr(st.value, env)
            if self.ret_extra:
                inner = val[1:-1] if (val.startswith("(") and val.endswith(")") and vt == "Prod") else val
                val = "(" + ", ".join([inner] + [env[n][0] for n in self.ret_extra]) + ")"
                vt = "Prod"
            if early is None:
                if is_opt(self.ret) and not is_opt(vt):
                    val = "some %s" % val
                if val == "none":
                    val = "(none : %s)" % self.ret
                return "%s%s" % (pad, val)
            return "%s%s" % (pad, early(val, vt))
        if isinstance(st, ast.For):
            return self.loop(st, rest, env, k, ind, early)
        if isinstance(st, ast.While):
            return self.while_pop(st, rest, env, k, ind, early)
        raise Untranslatable("statement %s" % type(st).__name__)

    def while_pop(self, st, rest, env, k, ind, early):
        """`while Q:` … `x = Q.popleft()` … with optional `break`s before the pop: a queue-draining loop.
        Becomes a named structurally recursive helper over Q; `break` returns with the queue as it is."""
        if st.orelse:
            raise Untranslatable("while/else")
        qsrc = ast.unparse(st.test)
        if qsrc not in self.attr_targets:
            raise Untranslatable("while over %s (only `while <queue>:` is supported)" % qsrc)
        qn = self.attr_targets[qsrc]
        qcur, qt = env[qn]
        if not is_list(qt):
            raise Untranslatable("while over non-list")
        # locate the pop
        pop_i = None
        for i, b in enumerate(st.body):
            if isinstance(b, ast.Assign) and len(b.targets) == 1 and isinstance(b.targets[0], ast.Name) \
                    and isinstance(b.value, ast.Call) and ast.unparse(b.value) == "%s.popleft()" % qsrc:
                pop_i = i
                break
        if pop_i is None:
            raise Untranslatable("while body without `x = %s.popleft()`" % qsrc)
        var = st.body[pop_i].targets[0].id
        pre, post = list(st.body[:pop_i]), list(st.body[pop_i + 1:])
        for b in ast.walk(ast.Module(body=post, type_ignores=[])):
            if isinstance(b, (ast.Break, ast.Return)):
                raise Untranslatable("break/return after the pop")
        carried = [n for n in self.assigned(st.body) if n in env and n != qn]
        ctypes = [env[n][1] for n in carried]
        self.nloops += 1
        hname = "%s_loop%d" % (self.name, self.nloops)
        frees = self._frees(st.body, env, carried, {var, qn})
        res_t = " × ".join([paren(qt)] + [paren(t) for t in ctypes])
        cvals = ", ".join(carried)

        def brk(env_b):
            return "(%s)" % ", ".join(["%s :: rest" % var] + [env_b[n][0] for n in carried])

        def pre_block(stmts, env_b, ind_b):
            if not stmts:
                return post_block(env_b, ind_b)
            s0, r0 = stmts[0], stmts[1:]
            padb = "  " * ind_b
            if self.is_skipped(s0):
                return pre_block(r0, env_b, ind_b)
            if isinstance(s0, ast.Break):
                return padb + brk(env_b)
            if isinstance(s0, ast.If) and not s0.orelse:
                c = self.truth(s0.test, env_b)
                return "%sif %s then\n%s\n%selse\n%s" % (padb, c, pre_block(list(s0.body) + r0, env_b, ind_b + 1), padb,
                                                          pre_block(r0, env_b, ind_b + 1))
            raise Untranslatable("statement before the pop: %s" % type(s0).__name__)

        def post_block(env_b, ind_b):
            def k_body(env_c, ind_c):
                args = " ".join(env_c[n][0] if env_c[n][0] == n else "(%s)" % env_c[n][0] for n in carried)
                return "%s%s %s rest %s" % ("  " * ind_c, hname, " ".join(frees), args)
            return self.block(post, env_b, k_body, ind_b, None)

        env_b = dict(env)
        env_b[var] = (var, elem(qt))
        env_b[qn] = ("(%s :: rest)" % var, qt)
        for n in carried:
            env_b[n] = (n, env[n][1])
        body = pre_block(pre, env_b, 3)
        sig_free = " ".join("(%s : %s)" % (n, env[n][1]) for n in frees)
        arrow = " → ".join([paren(qt)] + [paren(t) for t in ctypes] + [res_t])
        pat = ", ".join(["[]"] + carried)
        pat2 = ", ".join(["%s :: rest" % var] + carried)
        self.helpers.append("def %s %s : %s\n  | %s => (%s)\n  | %s =>\n%s\n"
                            % (hname, sig_free, arrow, pat, ", ".join(["[]"] + carried), pat2, body))
        pad = "  " * ind
        call = "%s %s %s %s" % (hname, " ".join(frees), paren_expr(qcur),
                                " ".join(env[n][0] if env[n][0] == n else "(%s)" % env[n][0] for n in carried))
        env2 = dict(env)
        env2[qn] = (qn, qt)
        for n in carried:
            env2[n] = (n, env[n][1])
        return "%slet (%s) := %s\n%s" % (pad, ", ".join([qn] + carried), call, self.block(rest, env2, k, ind, early))

    def loop(self, st, rest, env, k, ind, early):
        if not isinstance(st.target, ast.Name) or st.orelse:
            raise Untranslatable("for target / else")
        it, itt = self.expr(st.iter, env)
        if not is_list(itt):
            raise Untranslatable("for over non-list %s" % itt)
        var = st.target.id
        carried = [n for n in self.assigned(st.body) if n in env]
        ctypes = [env[n][1] for n in carried]
        hasret = self.has_return(st.body)
        self.nloops += 1
        hname = "%s_loop%d" % (self.name, self.nloops)
        # free read-only variables used in the body
        frees = self._frees(st.body, env, carried, {var})
        ctuple_t = " × ".join(paren(t) for t in ctypes) if ctypes else "Unit"
        res_t = ("Option %s × (%s)" % (paren(self.ret_inner()), ctuple_t)) if hasret else ctuple_t
        cvals = "(" + ", ".join(carried) + ")" if carried else "()"

        def k_body(env_b, ind_b):
            args = " ".join(env_b[n][0] if env_b[n][0] == n else "(%s)" % env_b[n][0] for n in carried)
            return "%s%s %s rest %s" % ("  " * ind_b, hname, " ".join(frees), args)

        def early_body(val, vt):
            return "(some %s, %s)" % (val, cvals)

        env_b = dict(env)
        env_b[var] = (var, elem(itt))
        for n in carried:
            env_b[n] = (n, env[n][1])
        body = self.block(list(st.body), env_b, k_body, 3, early_body if hasret else None)
        sig_free = " ".join("(%s : %s)" % (n, env[n][1]) for n in frees)
        arrow = " → ".join([paren(itt)] + [paren(t) for t in ctypes] + [res_t])
        base = ("(none, %s)" % cvals) if hasret else cvals
        pat = ", ".join(["[]"] + carried)
        pat2 = ", ".join(["%s :: rest" % var] + carried)
        self.helpers.append("def %s %s : %s\n  | %s => %s\n  | %s =>\n%s\n" % (hname, sig_free, arrow, pat, base, pat2, body))
        pad = "  " * ind
        call = "%s %s %s %s" % (hname, " ".join(frees), paren_expr(it), " ".join(env[n][0] if env[n][0] == n else "(%s)" % env[n][0] for n in carried))
        env2 = dict(env)
        for n in carried:
            env2[n] = (n, env[n][1])
        tail = self.block(rest, env2, k, ind + (1 if hasret else 0), early)
        if hasret:
            if early is not None:
                raise Untranslatable("nested loop with early return")
            return ("%smatch %s with\n%s| (some r, _) => %s\n%s| (none, %s) =>\n%s"
                    % (pad, call, pad, ("some r" if is_opt(self.ret) else "r"), pad, cvals, tail))
        return "%slet %s := %s\n%s" % (pad, cvals, call, tail)

    def _frees(self, body, env, carried, exclude):
        """Read-only variables of the enclosing scope that the translated loop body mentions: decided on the
        translated text (a side-table template may mention a parameter the Python text does not)."""
        cands = [n for n in sorted(env) if env[n][0] == n and n not in carried and n not in exclude]
        saved = (list(self.helpers), self.nloops)
        env_b = dict(env)
        for x in exclude:
            env_b[x] = (x, "?")
        try:
            txt = self._probe(body, env, carried, exclude)
        finally:
            self.helpers, self.nloops = saved
        import re
        return [n for n in cands if re.search(r"(?<![\w.])%s(?![\w])" % re.escape(n), txt)]

    def _probe(self, body, env, carried, exclude):
        """translate every expression of the body in a permissive environment, concatenating the texts"""
        out = []
        env_b = dict(env)
        for x in exclude:
            env_b.setdefault(x, (x, "?"))

        def visit(stmts):
            for st in stmts:
                for node in ast.iter_child_nodes(st):
                    if isinstance(node, ast.expr):
                        try:
                            out.append(self.expr(node, _Permissive(env_b))[0])
                        except Untranslatable:
                            out.append(ast.unparse(node))
                if isinstance(st, ast.Expr) and ast.unparse(st.value) in self.stmt_updates:
                    out.append(self.stmt_updates[ast.unparse(st.value)][1])
                for fld in ("body", "orelse"):
                    sub = getattr(st, fld, None)
                    if isinstance(sub, list):
                        visit(sub)
        visit(body)
        return " ".join(out)

    def ret_inner(self):
        return elem(self.ret) if is_opt(self.ret) else self.ret

    # ---------------------------------------------------------------- top level
    def emit(self):
        env = {}
        for (nm, t) in self.params:
            env[nm] = (nm, t)
        pre = ""
        for nm, (val, t) in self.init_locals.items():
            env[nm] = (nm, t)
            pre += "  let %s : %s := %s\n" % (nm, t, val)

        def k_end(_env, _ind):
            raise Untranslatable("function may fall off the end")
        body = self.block(list(self.fn.body), env, k_end, 1, None)
        sig = " ".join("(%s : %s)" % (n, t) for n, t in self.params)
        main = "def %s %s : %s :=\n%s%s\n" % (self.name, sig, self.ret, pre, body)
        return "\n".join(self.helpers) + "\n" + main


class _Permissive(dict):
    """environment for the free-variable probe: unknown names translate to themselves"""
    def __contains__(self, k):
        return True

    def __missing__(self, k):
        return (k, "?")


def _load(target):
    t = ast.parse(ast.unparse(target), mode="eval").body
    return t


def paren_expr(s):
    return s if s.isidentifier() or (s.startswith("(") and s.endswith(")")) else "(%s)" % s


def find_function(tree, qualname):
    parts = qualname.split(".")
    node = tree
    for p in parts:
        for ch in node.body:
            if isinstance(ch, (ast.FunctionDef, ast.ClassDef)) and ch.name == p:
                node = ch
                break
        else:
            raise Untranslatable("function %s not found" % qualname)
    if not isinstance(node, ast.FunctionDef):
        raise Untranslatable("%s is not a function" % qualname)
    return node


PRELUDE = """
def listFoldMin : List Nat → Nat
  | [] => 0
  | [x] => x
  | x :: xs => min x (listFoldMin xs)

def listFoldMax : List Nat → Nat
  | [] => 0
  | [x] => x
  | x :: xs => max x (listFoldMax xs)
"""
