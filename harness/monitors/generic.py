"""Property monitors over the event log of a real run (scen/stack.py scenarios).  Each returns hits whose
signature starts with the property id.  They state the property directly; none of them uses the Lean model."""
from props.common import hit
from world.sim import oname

RT_MSG = "cannot schedule new futures after shutdown"


def index_log(s):
    """per-future indices of completion events"""
    done_idx = {}
    for i, e in enumerate(s.log):
        k = e[1]
        if k == "fset<" and e[2] not in done_idx:
            done_idx[e[2]] = i
        elif k == "fcancel<" and e[3] is True and e[2] not in done_idx:
            done_idx[e[2]] = i
    return done_idx


def lib_threads(s):
    return {e[2]: e[3] for e in s.log if e[1] == "spawn"}


def mon_c02(s, ctx, desc):
    hits = []
    done_idx = index_log(s)
    runs = {}
    for (cbid, key, tid, was_done, t) in ctx.cb_runs:
        runs.setdefault(cbid, []).append((tid, was_done, t))
    for cbid, rs in runs.items():
        if len(rs) > 1:
            hits.append(hit("C02/callback-twice", "done-callback %d ran %d times (threads %r)" % (cbid, len(rs), [r[0] for r in rs])))
        if any(not r[1] for r in rs):
            hits.append(hit("C02/callback-before-done", "done-callback %d ran while the future was not done" % cbid))
    if ctx.completed:
        for (cbid, key, t, fname) in ctx.cbs:
            fin = ctx.final.get(fname)
            if fin is not None and fin[0] != "pending" and cbid not in runs:
                hits.append(hit("C02/callback-never", "done-callback %d on %s (future %s) never ran" % (cbid, key, fin[0])))
    for (tid, op, key, res) in ctx.api:
        if op == "cancel":
            if res[0] == "raise":
                hits.append(hit("C02/cancel-raised:%s" % type(res[1]).__name__, "cancel() on %s raised %r" % (key, res[1])))
            else:
                r = res[1]
                if not isinstance(r, bool):
                    hits.append(hit("C02/cancel-not-bool", "cancel() on %s returned %r" % (key, r)))
                f = ctx.futs.get(key)
                if r is True and f is not None and not f.cancelled():
                    hits.append(hit("C02/cancel-true-not-cancelled", "cancel() on %s returned True but the future is not cancelled" % key))
        elif op == "addcb" and res[0] == "raise":
            pass
    # outcome stability: two different terminal outcomes observed for one future
    seen = {}
    for e in s.log:
        if e[1] == "ret" and e[2] == "result":
            if e[4] == "TimeoutError":
                continue
            prev = seen.get(e[3])
            if prev is not None and prev != e[4]:
                hits.append(hit("C02/outcome-changed", "result() of %s gave %s then %s" % (e[3], prev, e[4])))
            seen[e[3]] = e[4]
    # waiters released
    if s.end_reason == "idle" and not ctx.completed:
        last_call = {}
        for e in s.log:
            if e[1] == "call" and e[2] == "result":
                last_call[e[0]] = e[3]
            elif e[1] == "ret" and e[2] == "result":
                last_call.pop(e[0], None)
        by_name = {}
        for f in ctx.futs.values():
            by_name[s.known_name(f)] = f
        for (tid, park, role, name) in s.parked():
            if park and park[0] == "cond" and tid in last_call:
                f = by_name.get(last_call[tid])
                if f is not None and f.done():
                    hits.append(hit("C02/waiter-not-released", "thread %d still blocked in result() of %s which is %s"
                                    % (tid, last_call[tid], "cancelled" if f.cancelled() else "finished")))
    return hits


def mon_c03(s, ctx, desc):
    """no future is lost: scenarios for this monitor never shut down early and every callable / poll eventually finishes"""
    hits = []
    if not ctx.completed:
        return hits
    if any(op[0] == "shutdown" for ops in desc["clients"] for op in ops):
        return hits
    for fname, fin in ctx.final.items():
        if fin[0] == "pending":
            inf = ctx.info.get(fname, {})
            hits.append(hit("C03/lost-future", "future %s (key %s) still pending at quiescence (t=%r) although its work finished; layers %r"
                            % (fname, inf.get("key"), ctx.t_end, [l[0] for l in desc["layers"]])))
    return hits


def mon_c04(s, ctx, desc):
    hits = []
    if s.end_reason == "idle" and not ctx.completed:
        locks = [(tid, park, role, name) for (tid, park, role, name) in s.parked() if park and park[0] == "lock"]
        if locks:
            hits.append(hit("C04/deadlock:lock-wait", "idle-final with threads blocked on locks: %r" % (locks,)))
    return hits


def mon_c06(s, ctx, desc):
    hits = []
    # cancel() is called on the RetryFuture itself, and every layer below hands over synchronously inside submit()
    has_retry = bool(desc["layers"]) and desc["layers"][-1][0] == "retry" and not any(l[0] == "throttle" for l in desc["layers"])
    for (tid, op, key, res) in ctx.api:
        if op != "cancel" or res[0] != "ret":
            continue
        r, t, idx = res[1], res[2], res[3]
        for i in range(idx, len(s.log)):
            e = s.log[i]
            if e[1] == "ucall" and e[2] == key and r is True:
                hits.append(hit("C06/started-after-cancel-true", "callable %s started (log %d) after cancel() returned True (log %d)" % (key, i, idx)))
                break
            if e[1] == "dsubmit" and e[4] == key and (r is True or has_retry):
                hits.append(hit("C06/submitted-after-cancel:%s" % r, "callable %s handed to the delegate (log %d) after cancel() returned %s (log %d)" % (key, i, r, idx)))
                break
        f = ctx.futs.get(key)
        if r is True and f is not None and ctx.completed and not f.cancelled():
            hits.append(hit("C06/cancel-true-undone", "cancel() returned True for %s but it ended %s" % (key, oname(ctx.final.get(s.known_name(f), ("?",))))))
    return hits


def mon_c11(s, ctx, desc):
    hits = []
    if ctx.shutdown_returned_at is None:
        return hits
    t_sd, idx_sd = ctx.shutdown_returned_at
    # submit refused afterwards
    in_call = {}
    for i in range(idx_sd, len(s.log)):
        e = s.log[i]
        if e[1] == "call" and e[2] == "submit":
            in_call[e[0]] = i
        elif e[1] == "ret" and e[2] == "submit" and e[0] in in_call:
            hits.append(hit("C11/submit-after-shutdown-accepted", "submit() started after shutdown() returned and was accepted"))
            in_call.pop(e[0], None)
        elif e[1] == "raise" and e[2] == "submit" and e[0] in in_call:
            if e[3] != "RuntimeError" or RT_MSG not in e[4]:
                hits.append(hit("C11/submit-after-shutdown-wrong-error", "submit() after shutdown raised %s(%s)" % (e[3], e[4])))
            in_call.pop(e[0], None)
    for (tid, op, key, res) in ctx.api:
        if op == "shutdown" and res[0] == "raise":
            hits.append(hit("C11/shutdown-raised:%s" % type(res[1]).__name__, "shutdown() raised %r" % (res[1],)))
    # propagated exactly once with the same arguments
    calls = getattr(ctx.delegate, "shutdown_calls", None)
    if calls is not None and ctx.completed and desc["layers"]:
        first_wait = None
        for e in s.log:
            if e[1] == "call" and e[2] == "shutdown":
                first_wait = e[3]
                break
        lib_calls = calls[:-1] if desc.get("final_shutdown", True) and len(calls) > 0 else calls
        # the harness itself calls delegate.shutdown once at the very end
        if len(lib_calls) != 1:
            hits.append(hit("C11/delegate-shutdown-count", "wrapped executor was shut down %d times by the stack" % len(lib_calls)))
        elif lib_calls[0][0] != first_wait:
            hits.append(hit("C11/delegate-shutdown-args", "wrapped executor shut down with wait=%r, stack was shut down with wait=%r" % (lib_calls[0][0], first_wait)))
    # wait=True: worker threads exited when shutdown returned
    first = None
    for i, e in enumerate(s.log):
        if e[1] == "call" and e[2] == "shutdown":
            first = (i, e[3])
            break
    if first is not None and first[1] is True:
        exited = set()
        for i in range(0, idx_sd):
            e = s.log[i]
            if e[1] == "texit":
                exited.add(e[0])
        for tid, name in lib_threads(s).items():
            if tid not in exited:
                hits.append(hit("C11/worker-alive-after-shutdown", "thread %s still alive when shutdown(wait=True) returned" % name))
    return hits


def mon_c11_slept(s, ctx, desc):
    hits = []
    # the worker is woken: once a thread inside shutdown() has set a worker's wake-up event (the flag is written before that), that
    # worker cannot sleep out a time-out on this event any more - it finds the event set, or clears it and then sees the flag.
    # (An untimed sleep is the stuck monitor's; a sleep inside user code is not a wait on the event.)
    libs = lib_threads(s)
    in_sd = {}
    set_by_sd = {}          # event name -> log index of the first set() by a thread inside shutdown()
    waiting = {}            # worker tid -> (event, index of its timed wait)
    for i, e in enumerate(s.log):
        t, k = e[0], e[1]
        if k == "call" and e[2] == "shutdown":
            in_sd[t] = in_sd.get(t, 0) + 1
        elif k in ("ret", "raise") and e[2] == "shutdown" and in_sd.get(t):
            in_sd[t] -= 1
        elif k == "set" and in_sd.get(t):
            set_by_sd.setdefault(e[2], i)
        elif k == "wait" and t in libs and e[3] is not None and not e[4]:
            waiting[t] = (e[2], i)
        elif k == "woke" and t in libs and t in waiting:
            ev, iw = waiting.pop(t)
            if ev == e[2] and e[3] is False and ev in set_by_sd and set_by_sd[ev] < iw:
                hits.append(hit("C11/worker-slept-through-shutdown",
                                "%s slept out a %ss time-out on %s (wait at log %d) although shutdown() had set that event at log %d"
                                % (libs[t], s.log[iw][3], ev, iw, set_by_sd[ev])))
                break
    return hits


def mon_c11_stuck(s, ctx, desc):
    hits = []
    if s.end_reason == "idle" and not ctx.completed:
        in_sd = set()
        for e in s.log:
            if e[1] == "call" and e[2] == "shutdown":
                in_sd.add(e[0])
            elif e[1] in ("ret", "raise") and e[2] == "shutdown":
                in_sd.discard(e[0])
        for (tid, park, role, name) in s.parked():
            if tid in in_sd:
                hits.append(hit("C11/shutdown-never-returns:%s" % (park[0] if park else "?"), "thread %d is stuck inside shutdown(): parked on %r" % (tid, park)))
    return hits


def mon_poll_fault_attribution(s, ctx, desc, prop="C18"):
    """an exception raised by a poll-function invocation belongs to the futures that invocation was shown - never to one that was
    registered for polling while the invocation was still running (it is shown to the next one)"""
    hits = []
    raised = {}
    for e in s.log:
        if e[1] == "pollraise" and len(e) > 4 and e[4] is not None:
            raised[e[3]] = (e[2], set(e[4]), e[5] if len(e) > 5 else None)
    if not raised:
        return hits
    for i, e in enumerate(s.log):
        # (only the futures of the poll executor whose poll function raised: the layers above - a second poll layer included -
        # receive the very same exception object from below, as they should)
        if e[1] == "fset>" and e[3] == "exception" and len(e) > 6 and e[5] == "PollFuture" and e[4] in raised:
            inv, shown, layer = raised[e[4]]
            if layer is not None and e[6] == layer and e[2] not in shown:
                hits.append(hit("%s/poll-fault-on-unseen-future" % prop,
                                "future %s was failed (log %d) with the exception raised by poll invocation #%s, which was shown only %s"
                                % (e[2], i, inv, sorted(shown))))
                break
    return hits


def mon_c18(s, ctx, desc):
    hits = []
    libs = lib_threads(s)
    for e in s.log:
        if e[1] == "tdied":
            role = "worker" if e[0] in libs else "other"
            hits.append(hit("C18/thread-died:%s:%s" % (role, e[2]), "thread %d (%s) died with %s at %s" % (e[0], libs.get(e[0], "?"), e[2], e[3])))
    for (tid, op, key, res) in ctx.api:
        if op in ("cancel",) and res[0] == "raise":
            hits.append(hit("C18/escaped:%s:%s" % (op, type(res[1]).__name__), "%s() on %s raised %r" % (op, key, res[1])))
    return hits
