import sys, threading, time, faulthandler
from more_executors import Executors
ex = Executors.sync().with_throttle(count=1, block=True).with_retry(max_attempts=3, sleep=0.01, max_sleep=0.01)
n=[0]
def fn(i):
    n[0]+=1
    raise ValueError(i)
fs=[ex.submit(fn,i) for i in range(6)]
t0=time.time()
for f in fs:
    try:
        f.exception(timeout=5)
    except Exception as e:
        print("TIMEOUT", type(e).__name__, "calls", n[0]); 
        faulthandler.dump_traceback()
        import os; os._exit(1)
print("all done", n[0], time.time()-t0)
