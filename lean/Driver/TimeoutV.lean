import MoreExec.Model.Timeout
import Driver.Validate
open MoreExec.Timeout

namespace Driver

def optNat (s : String) : Option Nat := if s = "None" then none else s.toNat?
def boolOf (s : String) : Bool := s = "True" || s = "1" || s = "true"

def parseTimeoutEv : List String → Option Ev
  | ["callSubmit", T] => some (.callSubmit (natOf T))
  | ["retSubmit", f] => some (.retSubmit (natOf f))
  | ["raiseSubmit"] => some .raiseSubmit
  | ["dsubmit", d] => some (.dsubmit (natOf d))
  | ["dsubmitRefused"] => some .dsubmitRefused
  | ["daddcbIn", d, b] => some (.daddcbIn (natOf d) (boolOf b))
  | ["daddcbOut", d] => some (.daddcbOut (natOf d))
  | ["dcancelIn", d] => some (.dcancelIn (natOf d))
  | ["dcancelOut", d, r] => some (.dcancelOut (natOf d) (boolOf r))
  | ["drun", d] => some (.drun (natOf d))
  | ["dskip", d] => some (.dskip (natOf d))
  | ["dcomplete", d] => some (.dcomplete (natOf d))
  | ["dcompleted", d] => some (.dcompleted (natOf d))
  | ["setE"] => some .setE
  | ["clearE"] => some .clearE
  | ["waitE", d, fl] => some (.waitE (optNat d) (boolOf fl))
  | ["parkE", d] => some (.parkE (optNat d))
  | ["wokeE", fl] => some (.wokeE (boolOf fl))
  | ["idle", t] => some (.idle (natOf t))
  | ["tick", t] => some (.tick (natOf t))
  | ["callCancel", f] => some (.callCancel (natOf f))
  | ["retCancel", f, r] => some (.retCancel (natOf f) (boolOf r))
  | ["callShutdown", w] => some (.callShutdown (boolOf w))
  | ["retShutdown"] => some .retShutdown
  | ["dshutdown"] => some .dshutdown
  | ["dshutdownRet"] => some .dshutdownRet
  | ["join"] => some .join
  | ["joined"] => some .joined
  | ["wstart"] => some .wstart
  | ["texit"] => some .texit
  | _ => none

def timeoutModel : VModel St Ev where
  name := "timeout"
  init := MoreExec.Timeout.init
  tau := fun s t => if tauEnabled s t then step s ⟨t, .tau⟩ else none
  ev := fun s t e => step s ⟨t, .ev e⟩
  tauPending := fun s t => tauEnabled s t && (step s ⟨t, .tau⟩).isSome
  parse := parseTimeoutEv
  describe := fun s t => reprStr (getProg s t |>.take 2)

end Driver
