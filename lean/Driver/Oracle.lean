/- Evaluates regenerated kernels / spec functions on given inputs (differential tests against the Python code). -/
import MoreExec.Gen.K3
open MoreExec.Gen

namespace Driver

def nat! (s : String) : Nat := s.toNat?.getD 0

def parseJobs : List String → List GJob
  | i :: d :: dl :: rest => ⟨⟨nat! i, d = "1"⟩, nat! dl⟩ :: parseJobs rest
  | _ => []

def showJobs (js : List GJob) : String := String.intercalate " " (js.map (fun j => toString j.future.id))

def oracleLine (ws : List String) : String :=
  match ws with
  | "k3.partition" :: now :: rest =>
      let r := K3.partitionJobs (parseJobs rest) (nat! now)
      s!"[{showJobs r.1}] [{showJobs r.2}]"
  | "k3.wait" :: now :: rest =>
      match K3.waitTime (parseJobs rest) (nat! now) with
      | none => "None"
      | some w => toString w
  | _ => "?"

def runOracle (lines : Array String) : String :=
  "ORACLE " ++ String.intercalate ";" (lines.toList.map (fun l => oracleLine ((l.splitOn " ").filter (· ≠ ""))))

end Driver
