/- Evaluates regenerated kernels / spec functions on given inputs (differential tests against the Python code). -/
import MoreExec.Gen.K3
import MoreExec.Gen.K4
import MoreExec.Gen.K1
import MoreExec.Gen.K2
import MoreExec.Model.BoolOp
import MoreExec.Model.Zipper
import MoreExec.Model.MapFut
import MoreExec.Model.Apply
import MoreExec.Model.LockOrder
import MoreExec.Model.Stack
open MoreExec.Gen

namespace Driver

def nat! (s : String) : Nat := s.toNat?.getD 0

def parseJobs : List String → List GJob
  | i :: d :: dl :: rest => ⟨⟨nat! i, d = "1"⟩, nat! dl⟩ :: parseJobs rest
  | _ => []

def showJobs (js : List GJob) : String := String.intercalate " " (js.map (fun j => toString j.future.id))

def parseIns : List String → List GIn
  | i :: c :: e :: rid :: rt :: rest =>
      ⟨nat! i, c = "1", (if e = "-" then none else some ⟨nat! e, true⟩), ⟨nat! rid, rt = "1"⟩⟩ :: parseIns rest
  | _ => []

def showOutcome : Option MoreExec.BoolOp.Outcome → String
  | none => "pending"
  | some (.ok v) => s!"ok:{v.id}"
  | some (.err e) => s!"err:{e.id}"
  | some .cancelled => "cancelled"

def boolFold (k : MoreExec.BoolOp.Kind) (outId : String) (ids : String) (rest : List String) : String :=
  let idl := ((ids.splitOn ",").filter (fun x => x ≠ "" && x ≠ "-")).map nat!
  let r := (parseIns rest).foldl (MoreExec.BoolOp.handleDone k (nat! outId)) (MoreExec.BoolOp.initSt idl)
  s!"{showOutcome r.out} [{String.intercalate " " (r.cancels.map toString)}] {r.done}"

def boolUpdate (k : MoreExec.BoolOp.Kind) (outId ids done0 : String) (rest : List String) : String :=
  let idl := ((ids.splitOn ",").filter (fun x => x ≠ "" && x ≠ "-")).map nat!
  match parseIns rest with
  | f :: _ =>
    let r := MoreExec.BoolOp.update k idl (nat! outId) (done0 = "1") f
    s!"{r.1} {r.2.1} [{String.intercalate " " (r.2.2.1.map toString)}] {r.2.2.2}"
  | [] => "?"

def parseIdxIns : List String → List (Nat × GIn)
  | idx :: i :: c :: e :: rid :: rt :: rest =>
      (nat! idx, ⟨nat! i, c = "1", (if e = "-" then none else some ⟨nat! e, true⟩), ⟨nat! rid, rt = "1"⟩⟩) :: parseIdxIns rest
  | _ => []

def showSlot : GSlot → String
  | .future i => s!"F{i}"
  | .value v => toString v.id

def zipRun (n : String) (rest : List String) : String :=
  let r := MoreExec.Zipper.run (MoreExec.Zipper.initSt (nat! n)) (parseIdxIns rest)
  match r.out with
  | none => "pending"
  | some (.tuple vs) => "tuple:" ++ String.intercalate "," (vs.map showSlot)
  | some (.err e) => s!"err:{e.id}"
  | some .cancelled => "cancelled"

def zipStep (n rem done0 idx : String) (rest : List String) : String :=
  match parseIns rest with
  | f :: _ =>
    let s0 : MoreExec.Zipper.ZSt := { fs := (List.range (nat! n)).map .future, remaining := nat! rem, done := done0 = "1" }
    let r := MoreExec.Zipper.handleDone s0 (nat! idx) f
    let o := match r.out with
      | none => "pending"
      | some (.tuple vs) => "tuple:" ++ String.intercalate "," (vs.map showSlot)
      | some (.err e) => s!"err:{e.id}"
      | some .cancelled => "cancelled"
    s!"{o} {r.done} {r.remaining}"
  | [] => "?"

namespace K7
open MoreExec.MapFut

def parseOutcome : String → Outcome
  | "cancelled" => .cancelled
  | s => if s.startsWith "ok" then .ok (nat! (s.drop 2).toString) else .err (nat! (s.drop 3).toString)

/-- behaviour encodings: none | ret<n> | futok<n> | futerr<n> | futcancelled | raise<n> | same -/
def parseBeh (s : String) : Option (Nat → FnRes) :=
  if s = "none" then none
  else if s = "same" then some (fun _ => .raiseSame)
  else if s = "futcancelled" then some (fun _ => .retFut .cancelled)
  else if s.startsWith "futok" then some (fun _ => .retFut (.ok (nat! (s.drop 5).toString)))
  else if s.startsWith "futerr" then some (fun _ => .retFut (.err (nat! (s.drop 6).toString)))
  else if s.startsWith "ret" then some (fun _ => .ret (nat! (s.drop 3).toString))
  else if s.startsWith "raise" then some (fun _ => .raiseNew (nat! (s.drop 5).toString))
  else none

def showOut : Out → String
  | .ok v => s!"ok{v}"
  | .okFut (.ok v) => s!"okFut(ok{v})"
  | .okFut (.err e) => s!"okFut(err{e})"
  | .okFut .cancelled => "okFut(cancelled)"
  | .err e => s!"err{e}"
  | .typeError => "typeError"
  | .cancelled => "cancelled"

def run (flat fn ef d : String) : String :=
  let r := resolve ⟨flat = "1", parseBeh fn, parseBeh ef⟩ (parseOutcome d)
  s!"{showOut r.out} fn={r.fnCalls} err={r.errCalls}"
end K7

namespace K16
open MoreExec.Apply

def parseO (s : String) : Outcome Nat :=
  if s = "cancelled" then .cancelled
  else if s.startsWith "ok" then .ok (nat! (s.drop 2).toString) else .err (nat! (s.drop 3).toString)

def parseList (s : String) : List String := (s.splitOn ",").filter (fun x => x ≠ "" && x ≠ "-")

def run (fnO pos kw : String) : String :=
  let fnFut : Outcome Unit := match parseO fnO with | .ok _ => .ok () | .err e => .err e | .cancelled => .cancelled
  let ps := (parseList pos).map parseO
  let ks := (parseList kw).map (fun s => match s.splitOn "=" with | [k, o] => (nat! k, parseO o) | _ => (0, Outcome.cancelled))
  match fApply fnFut ps ks with
  | .ok (p, k) =>
      let ksorted := (k.toArray.qsort (fun a b => a.1 < b.1)).toList
      s!"ok pos={p} kw={ksorted}"
  | .err e => s!"err{e}"
  | .cancelled => "cancelled"
end K16

def parseKind : String → MoreExec.LockOrder.Kind
  | "retry" => .retry | "poll" => .poll | "throttle" => .throttle | "timeout" => .timeout
  | "map" => .map | "flat_map" => .map | "cancel_on_shutdown" => .cos | "sync" => .sync | _ => .other

def parseRole : String → MoreExec.LockOrder.Role
  | "gate" => .gate | "fut" => .fut | "exec" => .exec | "counter" => .counter | "comb" => .comb
  | "registry" => .registry | _ => .cond

namespace StackO
open MoreExec.Stack

def lst (x : String) : List String := (x.splitOn ",").filter (fun y => y ≠ "" && y ≠ "-")

def int! (s : String) : Int := if s.startsWith "-" then - (Int.ofNat (nat! (s.drop 1).toString)) else Int.ofNat (nat! s)

def parseLayer (w : String) : Option Layer :=
  match w.splitOn ":" with
  | ["map", li, fn, ef] =>
      let f := if fn = "raise" then FnBeh.raises else FnBeh.ident
      let e := if ef = "none" then ErrBeh.none else if ef = "reraise" then ErrBeh.reraise else if ef = "raise" then ErrBeh.raises
               else ErrBeh.ret (int! ef)
      some (.map (nat! li) f e)
  | ["fmap", li, fn] => some (.flatMap (nat! li) (if fn = "raise" then .raises else .ident) .none)
  | ["fmap", li, fn, ef] =>
      let e := if ef = "none" then ErrBeh.none else if ef = "reraise" then ErrBeh.reraise else if ef = "raise" then ErrBeh.raises
               else ErrBeh.ret (int! ef)
      some (.flatMap (nat! li) (if fn = "raise" then .raises else .ident) e)
  | ["retryx", ma, base] => some (.retry (.exc ⟨nat! ma, 0, 0, 0, (lst base).map nat!⟩))
  | ["retrys", steps] =>
      some (.retry (.script ((lst steps).map (fun x => if x = "r" then PolStep.retry else if x = "x" then .raises else .stop))))
  | ["poll", li, pf] => some (.poll (nat! li) (if pf = "f" then .fails else .yields))
  | ["thr"] => some .throttle
  | ["tmo"] => some .timeout
  | ["cos"] => some .cancelOnShutdown
  | _ => none

def parseScript (w : String) : Option Int × Nat :=
  if w.startsWith "e" then (none, nat! (w.drop 1).toString) else (some (int! (w.drop 1).toString), 0)

def showVal : Val → String
  | .int n => toString n
  | .polled v => "P(" ++ showVal v ++ ")"

def showTag : Tag → String
  | .callable a c => s!"callable:{a}:{c}"
  | .mapfn li => s!"mapfn:{li}"
  | .errfn li => s!"errfn:{li}"
  | .pollerr li => s!"pollerr:{li}"

/-- `stack.eval <layer>* | <script entry>+`, layers outermost first -/
def run (ws : List String) : String :=
  let ls := ws.takeWhile (· ≠ "|")
  let sc := (ws.dropWhile (· ≠ "|")).drop 1
  match ls.mapM parseLayer with
  | none => "bad-layer"
  | some layers =>
      if sc.isEmpty then "bad-script" else
      let r := eval (sc.map parseScript) layers 0
      match r.1 with
      | .ok v => s!"ok {showVal v} {r.2}"
      | .err t => s!"err {showTag t} {r.2}"
end StackO

def oracleLine (ws : List String) : String :=
  match ws with
  | ["lockorder.allowed", d1, k1, r1, d2, k2, r2] =>
      toString (MoreExec.LockOrder.allowed ⟨nat! d1, parseKind k1, parseRole r1⟩ ⟨nat! d2, parseKind k2, parseRole r2⟩)
  | "stack.eval" :: rest => StackO.run rest
  | "k5.fold" :: "or" :: outId :: ids :: rest => boolFold .or outId ids rest
  | "k5.fold" :: "and" :: outId :: ids :: rest => boolFold .and outId ids rest
  | "k5.update" :: "or" :: outId :: ids :: d :: rest => boolUpdate .or outId ids d rest
  | "k5.update" :: "and" :: outId :: ids :: d :: rest => boolUpdate .and outId ids d rest
  | ["k7.resolve", flat, fn, ef, d] => K7.run flat fn ef d
  | ["k16.apply", fnO, pos, kw] => K16.run fnO pos kw
  | "k6.run" :: n :: rest => zipRun n rest
  | "k6.step" :: n :: rem :: d :: idx :: rest => zipStep n rem d idx rest
  | ["k1.should", ma, ex, sl, ms, base, att, e, truthy, inst] =>
      let lst := fun (x : String) => ((x.splitOn ",").filter (fun y => y ≠ "" && y ≠ "-")).map nat!
      let p : GPolicy := ⟨nat! ma, nat! ex, nat! sl, nat! ms, lst base⟩
      let exc : GExcOpt := if e = "none" then none else some ⟨0, truthy = "1"⟩
      let il := lst inst
      toString (K1.shouldRetry p (nat! att) exc (fun c => il.contains c))
  | ["k1.sleep", ma, ex, sl, ms, att] =>
      let p : GPolicy := ⟨nat! ma, nat! ex, nat! sl, nat! ms, []⟩
      toString (K1.sleepTime p (nat! att))
  | "k2.next" :: now :: rest =>
      let rec parse : List String → List GRJob
        | i :: d :: st :: w :: more => ⟨nat! i, d = "1", st = "1", nat! w⟩ :: parse more
        | _ => []
      match K2.getNextJob (parse rest) (nat! now) with
      | none => "none"
      | some j => toString j.fut
  | "k4.admission" :: th :: running :: rest =>
      let r := K4.admission (rest.map nat!) (nat! running) (if th = "None" then none else some (nat! th))
      let nf := K4.admissionNotifies (rest.map nat!) (nat! running) (if th = "None" then none else some (nat! th))
      s!"[{String.intercalate " " (r.1.map toString)}] [{String.intercalate " " (r.2.1.map toString)}] {r.2.2.1} {r.2.2.2} {if nf then 1 else 0}"
  | ["k4.blockwait", tv, q, sh] =>
      if K4.blockWait (if tv = "None" then none else some (nat! tv)) (nat! q) (sh = "1") then "1" else "0"
  | "k3.partition" :: now :: rest =>
      let r := K3.partitionJobs (parseJobs rest) (nat! now)
      s!"[{showJobs r.1}] [{showJobs r.2}]"
  | "k3.wait" :: now :: rest =>
      match K3.waitTime (parseJobs rest) (nat! now) with
      | none => "None"
      | some w => toString w
  | _ => "?"

def runOracle (lines : Array String) : String :=
  "ORACLE " ++ String.intercalate ";" (lines.toList.map (fun l => oracleLine ((l.splitOn " ").filter (· ≠ ""))))

end Driver
