import Driver.Validate
import Driver.TimeoutV
import Driver.Oracle
import Driver.Replay
open Driver

/-- Reads blocks `S <model>` … `.` from stdin, answers one verdict line per block. -/
partial def readBlock (h : IO.FS.Stream) (acc : Array String) : IO (Option (Array String)) := do
  let line ← h.getLine
  if line.isEmpty then return (if acc.isEmpty then none else some acc)
  let l := line.trimAscii.toString
  if l = "." then return some acc
  readBlock h (acc.push l)

def runBlock (hdr : String) (lines : Array String) : String :=
  match (hdr.splitOn " ").filter (· ≠ "") with
  | "S" :: "timeout" :: _ => (validate timeoutModel lines).render
  | "S" :: "oracle" :: _ => runOracle lines
  | "S" :: "replay" :: "wake" :: _ => Replay.Wake.run lines
  | "S" :: "replay" :: "mefuture" :: _ => Replay.MeFuture.run lines
  | "S" :: "replay" :: "cos" :: _ => Replay.CoS.run lines
  | "S" :: "replay" :: "shutdown" :: _ => Replay.Shutdown.run ((hdr.splitOn " ").filter (· ≠ "")) lines
  | "S" :: "replay" :: "poll" :: _ => Replay.Poll.run ((hdr.splitOn " ").filter (· ≠ "")) lines
  | "S" :: "replay" :: "retry" :: _ => Replay.Retry.run lines
  | "S" :: "replay" :: "block" :: _ => Replay.Block.run lines
  | "S" :: "replay" :: "throttle" :: _ => Replay.Throttle.run ((hdr.splitOn " ").filter (· ≠ "")) lines
  | _ => "INCONCLUSIVE 0 unknown model: " ++ hdr

partial def loop (h : IO.FS.Stream) : IO Unit := do
  let hdr ← h.getLine
  if hdr.isEmpty then return ()
  let hd := hdr.trimAscii.toString
  if hd = "" then loop h else
  match ← readBlock h #[] with
  | none => IO.println (runBlock hd #[])
  | some ls =>
    IO.println (runBlock hd ls)
    (← IO.getStdout).flush
    loop h

def main : IO Unit := do loop (← IO.getStdin)
