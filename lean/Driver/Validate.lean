/-
  Generic candidate-set trace validator (DESIGN.md section 4.3).

  The log of a real execution says which thread ran in every quantum (`Q t`), every observable event with
  its thread (`E t …`), and when a thread parked (`B t`).  What it does not say is where inside its quanta
  a thread performed an unobservable (tau) step.  The validator therefore keeps the set of all model states
  compatible with the log so far.  Accepting a log means: there EXISTS a run of the model (`step`) whose
  observable behaviour is exactly that log.
-/
namespace Driver

structure VModel (σ ε : Type) where
  name : String
  init : σ
  /-- one internal step of thread `t`, if its next operation is internal and enabled -/
  tau : σ → Nat → Option σ
  /-- observable event `e` performed by thread `t` -/
  ev : σ → Nat → ε → Option σ
  /-- does thread `t` have an internal step pending (must be false at a binding park marker) -/
  tauPending : σ → Nat → Bool
  parse : List String → Option ε
  /-- debugging aid: what thread `t` is about to do -/
  describe : σ → Nat → String

def dedup {σ : Type} [BEq σ] (xs : List σ) : List σ := xs.eraseDups

/-- all states reachable from `s` by 0..fuel internal steps of `t` -/
def tauChain {σ ε : Type} (m : VModel σ ε) (t : Nat) : Nat → σ → List σ
  | 0, s => [s]
  | fuel + 1, s =>
    match m.tau s t with
    | none => [s]
    | some s' => s :: tauChain m t fuel s'

def closure {σ ε : Type} [BEq σ] (m : VModel σ ε) (t : Nat) (cs : List σ) : List σ :=
  dedup (cs.flatMap (tauChain m t 64))

inductive Verdict
  | ok (lines : Nat) (maxc : Nat)
  | diverge (line : Nat) (text : String) (info : String)
  | inconclusive (line : Nat) (why : String)

def natOf (s : String) : Nat := s.toNat?.getD 0

/-- Process the lines of one block. -/
def validate {σ ε : Type} [BEq σ] (m : VModel σ ε) (lines : Array String) (cap : Nat := 20000) : Verdict := Id.run do
  let mut cs : List σ := [m.init]
  let mut maxc := 1
  let mut i := 0
  let mut cur : Nat := 0
  for ln in lines do
    i := i + 1
    let ws := (ln.splitOn " ").filter (· ≠ "")
    match ws with
    | "Q" :: t :: _ =>
        -- the thread that was running may have taken internal steps up to the very end of its quantum
        cs := closure m cur cs
        cur := natOf t
    | "B" :: t :: _ =>
        let t := natOf t
        let cs' := (closure m t cs).filter (fun s => !m.tauPending s t)
        if cs'.isEmpty then
          return .diverge i ln ("park: thread still has internal work: " ++ String.intercalate " | " ((cs.take 4).map (fun s => m.describe s t)))
        cs := cs'
    | "E" :: t :: rest =>
        let t := natOf t
        match m.parse rest with
        | none => return .inconclusive i ("unparsed event: " ++ ln)
        | some e =>
          let pre := closure m t cs
          let cs' := dedup (pre.filterMap (fun s => m.ev s t e))
          if cs'.isEmpty then
            return .diverge i ln ("model expected: " ++ String.intercalate " | " ((dedup ((pre.take 8).map (fun s => m.describe s t)))))
          cs := cs'
    | _ => pure ()
    if cs.length > maxc then maxc := cs.length
    if cs.length > cap then return .inconclusive i "candidate set over cap"
  return .ok i maxc

def Verdict.render : Verdict → String
  | .ok n c => s!"OK {n} {c}"
  | .diverge i t info => s!"DIVERGE {i} [{t}] {info}"
  | .inconclusive i w => s!"INCONCLUSIVE {i} {w}"

end Driver
