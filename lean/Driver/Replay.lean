/-
  History replay: the harness projects the log of a real execution onto the action alphabet of a section-level
  model (one action per lock-protected section / event operation / boundary call, in the order the deterministic
  scheduler executed them) and this driver runs the model's `step` over it.  Accepting means: the real execution
  IS a run of the model (every action was enabled), so the model's theorems speak about it.
-/
import MoreExec.Model.Throttle
import MoreExec.Model.Retry
import MoreExec.Model.Poll
import MoreExec.Model.CancelOnShutdown
import MoreExec.Model.Shutdown
import MoreExec.Model.MeFuture
import MoreExec.Model.WakeProto
import MoreExec.Model.BlockProto

namespace Driver.Replay

def nat! (s : String) : Nat := s.toNat?.getD 0

def optNat (s : String) : Option Nat := if s = "None" then none else some (nat! s)

/-- generic runner -/
def runActs {σ α : Type} (step : σ → α → Option σ) (parse : List String → Option α) (describe : σ → String)
    (s0 : σ) (lines : Array String) : String := Id.run do
  let mut s := s0
  let mut i := 0
  let mut n := 0
  for ln in lines do
    i := i + 1
    let ws := (ln.splitOn " ").filter (· ≠ "")
    match ws with
    | "A" :: rest =>
      match parse rest with
      | none => return s!"INCONCLUSIVE {i} unparsed action: {ln}"
      | some a =>
        match step s a with
        | none => return s!"DIVERGE {i} [{ln}] not enabled in model state: {describe s}"
        | some s' => s := s'; n := n + 1
    | _ => pure ()
  return s!"OK {n} 1 {describe s}"

namespace Throttle
open MoreExec.Throttle

def parseAct : List String → Option Act
  | ["enqueue", k] => some (.enqueue (nat! k))
  | ["setE"] => some .setE
  | ["evalW", "raise"] => some (.evalW none)
  | ["evalW", v] => some (.evalW (some (optNat v)))
  | ["evalS", "raise"] => some (.evalS none)
  | ["evalS", v] => some (.evalS (some (optNat v)))
  | ["readW"] => some .readW
  | ["admitA"] => some .admitA
  | ["admitPart", j] => some (.admitPart (nat! j))
  | ["handOver", k] => some (.handOver (nat! k))
  | ["handDone"] => some .handDone
  | ["ddone", k] => some (.ddone (nat! k))
  | ["decr", k] => some (.decr (nat! k))
  | ["cancelQ", k] => some (.cancelQ (nat! k))
  | ["waitE"] => some .waitE
  | ["wake"] => some .wake
  | ["clearE"] => some .clearE
  | _ => none

def describe (s : St) : String :=
  s!"gauge={s.qGauge} queue={s.queue} running={s.running} wThrottle={s.wThrottle} committed={s.committed} flag={s.flag} wpc={repr s.wpc} inflight={s.inflight} undecr={s.undecr} handed={s.handed}"

def stepLine (s : St) (ws : List String) : Option St :=
  match ws with
  | ["gauge", v] => if s.qGauge = v.toInt?.getD (-999) then some s else none
  | _ => (parseAct ws).bind (step s)

def run (hdr : List String) (lines : Array String) : String :=
  let c0 := match hdr with | _ :: _ :: _ :: c :: _ => optNat c | _ => none
  runActs (fun s ws => stepLine s ws) (fun ws => some ws) describe (init c0) lines
end Throttle

namespace Block
open MoreExec.BlockProto

def parseAct : List String → Option Act
  | ["enq"] => some .enq
  | ["pop", k] => some (.pop (nat! k))
  | ["cancelRm"] => some .cancelRm
  | ["check", tv, sh, park] => some (.check (optNat tv) (sh = "1") (park = "1"))
  | ["wake", t] => some (.wake (t = "1"))
  | ["shutBegin"] => some .shutBegin
  | ["shutFlip"] => some .shutFlip
  | ["shutNotify"] => some .shutNotify
  | _ => none

def describe (s : St) : String := s!"qlen={s.qlen} parked={s.parked} notified={s.notified} shut={repr s.shut}"

/-- `check tv ? park`: the value of the shutdown flag that the submitter read is not observable; any value an unlocked reader may
see in the current shutdown phase is tried -/
def stepLine (s : St) (ws : List String) : Option St :=
  match ws with
  | ["check", tv, "?", park] =>
      match step s (.check (optNat tv) false (park = "1")) with
      | some s' => some s'
      | none => step s (.check (optNat tv) true (park = "1"))
  | ["check", tv, "~", park] =>
      -- a shutdown() call overlapped this section: the unlocked read of the flag may have seen either value, whatever the phase
      -- the projection has reached (evaluate the test as if the shutdown were in progress; the phase itself is left as it is)
      match step { s with shut := .begun } (.check (optNat tv) false (park = "1")) with
      | some s' => some { s' with shut := s.shut }
      | none => (step { s with shut := .begun } (.check (optNat tv) true (park = "1"))).map (fun s' => { s' with shut := s.shut })
  | _ => (parseAct ws).bind (step s)

def run (lines : Array String) : String := runActs stepLine (fun ws => some ws) describe init lines
end Block

namespace Retry
open MoreExec.Retry

/-- actions as the harness writes them; `submitNow f` / `discard f` name the future, the driver looks the job up -/
inductive Line
  | act (a : Act)
  | submitNowF (f : Nat) (effective : Bool)
  | discardF (f : Nat)
  | gauge (v : Int)

def parsePol : List String → Option (Option Pol)
  | ["none"] => some none
  | ["retry", t] => some (some (.retry (nat! t)))
  | ["stop"] => some (some .stopNow)
  | ["raised"] => some (some .raised)
  | _ => none

def parseLine : List String → Option Line
  | ["submit", f] => some (.act (.submit (nat! f)))
  | ["submitNow", f, e] => some (.submitNowF (nat! f) (e = "1"))
  | ["submitApp"] => some (.act .submitApp)
  | ["discard", f] => some (.discardF (nat! f))
  | ["gauge", v] => some (.gauge (v.toInt?.getD (-999)))
  | ["ddone", d, c] => some (.act (.ddone (nat! d) (c = "1")))
  | ["cbCancelled", d] => some (.act (.cbCancelled (nat! d)))
  | ["cbMark", f, d, i] => some (.act (.cbMark (nat! f) (nat! d) (i = "1")))
  | "cbPolicy" :: d :: rest => (parsePol rest).map (fun r => .act (.cbPolicy (nat! d) r))
  | ["cbRetry", d] => some (.act (.cbRetry (nat! d)))
  | ["cbFinal", d] => some (.act (.cbFinal (nat! d)))
  | ["cancelScan", f] => some (.act (.cancelScan (nat! f)))
  | ["cancelDel", f, b] => some (.act (.cancelDel (nat! f) (b = "1")))
  | ["cancelEnd", f] => some (.act (.cancelEnd (nat! f)))
  | ["tick", t] => some (.act (.tick (nat! t)))
  | _ => none

def describe (s : St) : String :=
  let js := s.jobs.map (fun j => s!"(f{j.fut} a{j.attempt} w{j.whenT} d{j.del} stop={j.stop} old={j.old})")
  let w := s.submitting.map (fun j => s!"(f{j.fut} a{j.attempt} d{j.del})")
  s!"now={s.now} gauge={s.qGauge} jobs={js} submitting={w} delDone={s.delDone} done={s.done} cancelling={s.cancelling.map (·.1)} marks={s.marks} decs={s.decs.map (·.1)} submits={s.submits}"

/-- one line; `none` = not enabled -/
def stepLine (s : St) : Line → Option St
  | .act a => step s a
  | .submitNowF f eff =>
      match jobOfFut s f with
      | some j =>
          match step s (.submitNow j) with
          | some s' => if (s'.submits.length != s.submits.length) == eff then some s' else none
          | none => none
      | none =>
          -- the job was popped by a cancel in between: `_submit_now` pops nothing, sees the future done and returns
          if !eff && decide (f ∈ s.done) then some s else none
  | .discardF f =>
      match jobOfFut s f with
      | some j => step s (.discard j)
      | none =>
          -- the stopped job the submit thread had selected was popped by a second `cancel()` in between (which thereby made
          -- the future terminal): `_pop_job` finds nothing and `copy_future` is tolerant of a terminal future - no effect
          if decide (f ∈ s.done) then some s else none
  | .gauge v => if s.qGauge = v then some s else none

def run (lines : Array String) : String :=
  runActs stepLine parseLine describe init lines
end Retry

namespace Poll
open MoreExec.Poll

def parseAct : List String → Option Act
  | ["register", f, r] => some (.register (nat! f) (nat! r))
  | ["yieldA", f, "val", v] => some (.yieldA (nat! f) (.val (nat! v)))
  | ["yieldA", f, "exc", v] => some (.yieldA (nat! f) (.exc (nat! v)))
  | ["cancelA", f, "none"] => some (.cancelA (nat! f) none)
  | ["cancelA", f, "true"] => some (.cancelA (nat! f) (some (some true)))
  | ["cancelA", f, "false"] => some (.cancelA (nat! f) (some (some false)))
  | ["cancelA", f, "raise"] => some (.cancelA (nat! f) (some none))
  | ["dereg", f] => some (.dereg (nat! f))
  | ["resolveRet", f] => some (.resolveRet (nat! f))
  | ["snapshot"] => some .snapshot
  | ["pollRet"] => some .pollRet
  | ["pollRaise", e] => some (.pollRaise (nat! e))
  | ["failNext"] => some .failNext
  | ["notifyA"] => some .notifyA
  | ["setE"] => some .setE
  | ["waitE"] => some .waitE
  | ["wake"] => some .wake
  | ["clearE"] => some .clearE
  | _ => none

def describe (s : St) : String :=
  s!"descs={s.descs} done={s.done.map (·.1)} flag={s.flag} wpc={repr s.wpc} snap={s.snap} deregd={s.deregd} delCancelled={s.delCancelled}"

def run (hdr : List String) (lines : Array String) : String :=
  let cf := match hdr with | _ :: _ :: _ :: c :: _ => c = "1" | _ => false
  runActs step parseAct describe (init cf) lines
end Poll

namespace CoS
open MoreExec.CoS

def parseAct : List String → Option Act
  | ["subEnter", t] => some (.subEnter (nat! t))
  | ["subRefuse", t] => some (.subRefuse (nat! t))
  | ["subAdd", t, f] => some (.subAdd (nat! t) (nat! f))
  | ["subExit", t] => some (.subExit (nat! t))
  | ["fdone", f] => some (.fdone (nat! f))
  | ["discard", f] => some (.discard (nat! f))
  | ["sdFlip", t] => some (.sdFlip (nat! t))
  | ["sdNoop", t] => some (.sdNoop (nat! t))
  | ["sdSnap", t] => some (.sdSnap (nat! t))
  | ["sdCancel", t, f] => some (.sdCancel (nat! t) (nat! f))
  | ["sdDelegate", t] => some (.sdDelegate (nat! t))
  | ["sdRet", t] => some (.sdRet (nat! t))
  | _ => none

def describe (s : St) : String :=
  s!"gate={s.gate} flag={s.flag} tracked={s.tracked} doneF={s.doneF} shutter={repr s.shutter} cancels={s.cancels} delegateShut={s.delegateShut} returned={s.returned}"

def run (lines : Array String) : String := runActs step parseAct describe init lines
end CoS

namespace Shutdown
open MoreExec.Shutdown

def parseAct : List String → Option Act
  | ["subEnter", t] => some (.subEnter (nat! t))
  | ["subRefuse", t] => some (.subRefuse (nat! t))
  | ["subExit", t] => some (.subExit (nat! t))
  | ["sdFlip", t, w] => some (.sdFlip (nat! t) (w = "1"))
  | ["sdNoop", t] => some (.sdNoop (nat! t))
  | ["sdSet", t] => some (.sdSet (nat! t))
  | ["sdDelegate", t] => some (.sdDelegate (nat! t))
  | ["sdJoined", t] => some (.sdJoined (nat! t))
  | ["sdRet", t] => some (.sdRet (nat! t))
  | ["setE"] => some .setE
  | ["wTop"] => some .wTop
  | ["wWork"] => some .wWork
  | ["wWait"] => some .wWait
  | ["wWake"] => some .wWake
  | ["wClear"] => some .wClear
  | _ => none

def describe (s : St) : String :=
  s!"gate={s.gate} flag={s.flag} evt={s.evt} wpc={repr s.wpc} shutter={repr s.shutter} delegateCalls={s.delegateCalls} returned={s.returned}"

def run (hdr : List String) (lines : Array String) : String :=
  let hw := match hdr with | _ :: _ :: _ :: c :: _ => c = "1" | _ => true
  runActs step parseAct describe (init hw) lines
end Shutdown

namespace MeFuture
open MoreExec.MeFuture

def parseAct : List String → Option Act
  | ["addStore", t, c] => some (.addStore (nat! t) (nat! c))
  | ["addDirect", t, c] => some (.addDirect (nat! t) (nat! c))
  | ["callDirect", t, c] => some (.callDirect (nat! t) (nat! c))
  | ["finish", t] => some (.finish (nat! t))
  | ["cancelOk", t] => some (.cancelOk (nat! t))
  | ["cancelNoop", t] => some (.cancelNoop (nat! t))
  | ["cancelVeto", t] => some (.cancelVeto (nat! t))
  | ["setLate", t] => some (.setLate (nat! t))
  | ["invokeNext", t] => some (.invokeNext (nat! t))
  | ["invokeEnd", t] => some (.invokeEnd (nat! t))
  | _ => none

def describe (s : St) : String :=
  s!"st={repr s.st} stored={s.stored} owed={s.owed} direct={s.direct} registered={s.registered} invoked={s.invoked}"

/-- `invokeNext t c`: the harness names the callback it saw run; the model must owe exactly that one next -/
def stepLine (s : St) (ws : List String) : Option St :=
  match ws with
  | ["invokeNext", t, c] =>
      match s.owed with
      | some (_, c' :: _) => if c' = nat! c then step s (.invokeNext (nat! t)) else none
      | _ => none
  | _ => (parseAct ws).bind (step s)

def run (lines : Array String) : String :=
  runActs (fun s ws => stepLine s ws) (fun ws => some ws) describe init lines
end MeFuture

namespace Wake
open MoreExec.WakeProto

def describe (s : St) : String := s!"now={s.now} items={s.items} flag={s.flag} pendingSet={s.pendingSet} wpc={repr s.wpc}"

/-- `waitE <timeout>` also checks the time-out the real worker used against the model's wake-up time;
`rescan`: the worker handled a due item and loops without waiting -/
def stepLine (s : St) (ws : List String) : Option St :=
  match ws with
  | ["add", i, d] => step s (.add (nat! i) (nat! d))
  | ["setE"] => step s .setE
  | ["remove", i] => step s (.remove (nat! i))
  | ["scan"] => step s .scan
  | ["rescan"] => match s.wpc with | .wait _ => some { s with wpc := .scan } | .scan => some s | _ => none
  | ["waitE", t] =>
      match s.wpc with
      | .wait w =>
          let ok := match w, t with
            | none, "None" => true
            | some x, "None" => false && x == 0
            | none, _ => false
            | some x, tt => x - s.now == nat! tt && decide (s.now < x)
          if ok then step s .waitE else none
      | _ => none
  | ["wake"] => step s .wake
  | ["clearE"] => step s .clearE
  | ["tick", t] => if nat! t == s.now then some s else step s (.tick (nat! t))
  | _ => none

def run (lines : Array String) : String := runActs (fun s ws => stepLine s ws) (fun ws => some ws) describe init lines
end Wake

end Driver.Replay
