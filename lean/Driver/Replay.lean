/-
  History replay: the harness projects the log of a real execution onto the action alphabet of a section-level
  model (one action per lock-protected section / event operation / boundary call, in the order the deterministic
  scheduler executed them) and this driver runs the model's `step` over it.  Accepting means: the real execution
  IS a run of the model (every action was enabled), so the model's theorems speak about it.
-/
import MoreExec.Model.Throttle

namespace Driver.Replay

def nat! (s : String) : Nat := s.toNat?.getD 0

def optNat (s : String) : Option Nat := if s = "None" then none else some (nat! s)

/-- generic runner -/
def runActs {σ α : Type} (step : σ → α → Option σ) (parse : List String → Option α) (describe : σ → String)
    (s0 : σ) (lines : Array String) : String := Id.run do
  let mut s := s0
  let mut i := 0
  let mut n := 0
  for ln in lines do
    i := i + 1
    let ws := (ln.splitOn " ").filter (· ≠ "")
    match ws with
    | "A" :: rest =>
      match parse rest with
      | none => return s!"INCONCLUSIVE {i} unparsed action: {ln}"
      | some a =>
        match step s a with
        | none => return s!"DIVERGE {i} [{ln}] not enabled in model state: {describe s}"
        | some s' => s := s'; n := n + 1
    | _ => pure ()
  return s!"OK {n} 1 {describe s}"

namespace Throttle
open MoreExec.Throttle

def parseAct : List String → Option Act
  | ["enqueue", k] => some (.enqueue (nat! k))
  | ["setE"] => some .setE
  | ["evalW", "raise"] => some (.evalW none)
  | ["evalW", v] => some (.evalW (some (optNat v)))
  | ["evalS", "raise"] => some (.evalS none)
  | ["evalS", v] => some (.evalS (some (optNat v)))
  | ["readW"] => some .readW
  | ["admitA"] => some .admitA
  | ["admitPart", j] => some (.admitPart (nat! j))
  | ["handOver", k] => some (.handOver (nat! k))
  | ["handDone"] => some .handDone
  | ["ddone", k] => some (.ddone (nat! k))
  | ["decr", k] => some (.decr (nat! k))
  | ["cancelQ", k] => some (.cancelQ (nat! k))
  | ["waitE"] => some .waitE
  | ["wake"] => some .wake
  | ["clearE"] => some .clearE
  | _ => none

def describe (s : St) : String :=
  s!"queue={s.queue} running={s.running} wThrottle={s.wThrottle} committed={s.committed} flag={s.flag} wpc={repr s.wpc} inflight={s.inflight} undecr={s.undecr} handed={s.handed}"

def run (hdr : List String) (lines : Array String) : String :=
  let c0 := match hdr with | _ :: _ :: _ :: c :: _ => optNat c | _ => none
  runActs step parseAct describe (init c0) lines
end Throttle

end Driver.Replay
