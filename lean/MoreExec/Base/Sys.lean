/-
  Labelled transition systems, runs, reachability and the invariant rule shared by all hand models.
  `step s a = none` means action `a` is not enabled in `s`.  A run is a list of actions; every action
  carries the acting thread and every environment choice, so `∀ (as : List α)` ranges over all
  interleavings and all behaviours of user code / delegates, with no bound on length.
-/
namespace MoreExec

/-- Execute a list of actions; `none` if some action is not enabled. -/
def runFrom {σ α : Type} (step : σ → α → Option σ) : σ → List α → Option σ
  | s, [] => some s
  | s, a :: as =>
    match step s a with
    | none => none
    | some s' => runFrom step s' as

theorem runFrom_nil {σ α : Type} (step : σ → α → Option σ) (s : σ) : runFrom step s [] = some s := rfl

theorem runFrom_cons {σ α : Type} (step : σ → α → Option σ) (s : σ) (a : α) (as : List α) :
    runFrom step s (a :: as) = (step s a).bind (fun s' => runFrom step s' as) := by
  simp only [runFrom]
  cases step s a <;> rfl

theorem runFrom_append {σ α : Type} (step : σ → α → Option σ) (s : σ) (as bs : List α) :
    runFrom step s (as ++ bs) = (runFrom step s as).bind (fun s' => runFrom step s' bs) := by
  induction as generalizing s with
  | nil => simp [runFrom]
  | cons a as ih =>
    simp only [List.cons_append, runFrom]
    cases h : step s a with
    | none => simp
    | some s' => simpa using ih s'

/-- `s'` is reachable from `s`. -/
def ReachableFrom {σ α : Type} (step : σ → α → Option σ) (s s' : σ) : Prop :=
  ∃ as : List α, runFrom step s as = some s'

/-- The invariant rule: an inductive invariant holds after every run, of any length. -/
theorem invariant_run {σ α : Type} (step : σ → α → Option σ) (Inv : σ → Prop)
    (hstep : ∀ s a s', Inv s → step s a = some s' → Inv s')
    (s : σ) (hs : Inv s) (as : List α) (s' : σ) (hrun : runFrom step s as = some s') : Inv s' := by
  induction as generalizing s with
  | nil =>
    simp only [runFrom] at hrun
    cases hrun; exact hs
  | cons a as ih =>
    simp only [runFrom] at hrun
    cases h : step s a with
    | none => simp [h] at hrun
    | some s1 =>
      simp only [h] at hrun
      exact ih s1 (hstep s a s1 hs h) hrun

/-- The invariant rule for runs whose actions all satisfy a side condition `G` (e.g. a static configuration). -/
theorem invariant_run_guarded {σ α : Type} (step : σ → α → Option σ) (G : α → Prop) (Inv : σ → Prop)
    (hstep : ∀ s a s', G a → Inv s → step s a = some s' → Inv s')
    (s : σ) (hs : Inv s) (as : List α) (hg : ∀ a ∈ as, G a) (s' : σ) (hrun : runFrom step s as = some s') : Inv s' := by
  induction as generalizing s with
  | nil =>
    simp only [runFrom] at hrun
    cases hrun; exact hs
  | cons a as ih =>
    simp only [runFrom] at hrun
    cases h : step s a with
    | none => simp [h] at hrun
    | some s1 =>
      simp only [h] at hrun
      exact ih s1 (hstep s a s1 (hg a (by simp)) hs h) (fun b hb => hg b (by simp [hb])) hrun

theorem invariant_reachable {σ α : Type} (step : σ → α → Option σ) (Inv : σ → Prop)
    (hstep : ∀ s a s', Inv s → step s a = some s' → Inv s')
    (s s' : σ) (hs : Inv s) (hr : ReachableFrom step s s') : Inv s' := by
  obtain ⟨as, h⟩ := hr
  exact invariant_run step Inv hstep s hs as s' h

/-- Every prefix of a successful run is a successful run (used to talk about intermediate states). -/
theorem run_prefix {σ α : Type} (step : σ → α → Option σ) (s : σ) (as bs : List α) (s' : σ)
    (h : runFrom step s (as ++ bs) = some s') : ∃ m, runFrom step s as = some m ∧ runFrom step m bs = some s' := by
  rw [runFrom_append] at h
  cases hm : runFrom step s as with
  | none => simp [hm] at h
  | some m => exact ⟨m, rfl, by simpa [hm] using h⟩

/-- A property of transitions (pre-state, action, post-state) that holds for every enabled transition from
an invariant state holds for every transition taken in any run. -/
theorem transition_property {σ α : Type} (step : σ → α → Option σ) (Inv : σ → Prop)
    (P : σ → α → σ → Prop)
    (hinv : ∀ s a s', Inv s → step s a = some s' → Inv s')
    (hP : ∀ s a s', Inv s → step s a = some s' → P s a s')
    (s0 : σ) (h0 : Inv s0) (as : List α) (a : α) (bs : List α) (s' : σ)
    (hrun : runFrom step s0 (as ++ a :: bs) = some s') :
    ∃ m m', runFrom step s0 as = some m ∧ step m a = some m' ∧ P m a m' := by
  obtain ⟨m, hm, hrest⟩ := run_prefix step s0 as (a :: bs) s' hrun
  simp only [runFrom] at hrest
  cases hst : step m a with
  | none => simp [hst] at hrest
  | some m' =>
    exact ⟨m, m', hm, hst, hP m a m' (invariant_run step Inv hinv s0 h0 as m hm) hst⟩

end MoreExec
