/- Inductive invariants of the Poll model. -/
import MoreExec.Model.Poll

namespace MoreExec.Poll

def registered (s : St) (f : Nat) : Bool := s.regPairs.any (fun p => p.1 == f)

def live (s : St) : List (Nat × Nat) := s.regPairs.filter (fun p => !(s.deregd.contains p.1))

structure InvD (s : St) : Prop where
  nodup : (s.regPairs.map (·.1)).Nodup
  descs : s.descs = live s
  ret : ∀ f ∈ s.resolvedRet, f ∈ s.deregd
  dereg : ∀ f ∈ s.deregd, registered s f = true ∨ f ∈ s.delCancelled
  done : ∀ p ∈ s.done, registered s p.1 = true ∨ p.1 ∈ s.delCancelled
  dc : ∀ f ∈ s.delCancelled, registered s f = false
  snap : ∀ p ∈ s.snap, p ∈ s.regPairs
  failing : ∀ rest e, s.wpc = .failing rest e → ∀ f ∈ rest, registered s f = true
  asks : ∀ a ∈ s.asks, a ∈ s.regPairs

theorem invD_init (b : Bool) : InvD (init b) := by
  constructor <;> simp [init, live]

theorem registered_mono_append (s : St) (f g r : Nat) (h : registered s f = true) :
    (s.regPairs ++ [(g, r)]).any (fun p => p.1 == f) = true := by
  simp only [List.any_append, Bool.or_eq_true]; exact Or.inl h

theorem lookup_mem' (l : List (Nat × Nat)) (f r : Nat) (h : l.lookup f = some r) : (f, r) ∈ l := by
  induction l with
  | nil => simp at h
  | cons p t ih =>
    obtain ⟨k, w⟩ := p
    simp only [List.lookup_cons] at h
    split at h
    · rename_i he
      have : f = k := by simpa using he
      cases h; subst this; simp
    · exact List.mem_cons_of_mem _ (ih h)

theorem resolve_done_sub (s : St) (f : Nat) (o : Out) (P : Nat → Prop) (hf : P f) (h : ∀ p ∈ s.done, P p.1) :
    ∀ p ∈ (resolve s f o).done, P p.1 := by
  intro p hp
  unfold resolve at hp
  split at hp
  · exact h p hp
  · simp only [List.mem_append, List.mem_singleton] at hp
    cases hp with
    | inl hp => exact h p hp
    | inr hp => subst hp; exact hf

theorem resolve_other (s : St) (f : Nat) (o : Out) :
    (resolve s f o).regPairs = s.regPairs ∧ (resolve s f o).deregd = s.deregd ∧ (resolve s f o).descs = s.descs ∧
    (resolve s f o).resolvedRet = s.resolvedRet ∧ (resolve s f o).delCancelled = s.delCancelled ∧ (resolve s f o).snap = s.snap ∧
    (resolve s f o).wpc = s.wpc ∧ (resolve s f o).asks = s.asks ∧ (resolve s f o).flag = s.flag ∧
    (resolve s f o).newSince = s.newSince ∧ (resolve s f o).yields = s.yields := by
  unfold resolve; split <;> simp

theorem invD_step (s : St) (a : Act) (s' : St) (hi : InvD s) (h : step s a = some s') : InvD s' := by
  obtain ⟨h1, h2, h3, h4, h5, h6, h7, h8, h9⟩ := hi
  cases a with
  | register f r =>
    simp only [step] at h
    split at h
    · cases h
    · rename_i hg
      have hg' : registered s f = false ∧ f ∉ s.delCancelled := by
        simp only [not_or] at hg
        exact ⟨by unfold registered; exact Bool.eq_false_iff.mpr hg.1, hg.2⟩
      cases h
      have hnd : f ∉ s.deregd := by
        intro hd
        cases h4 f hd with
        | inl h => rw [hg'.1] at h; cases h
        | inr h => exact hg'.2 h
      refine ⟨?_, ?_, h3, ?_, ?_, ?_, ?_, ?_, ?_⟩
      · simp only [List.map_append, List.map_cons, List.map_nil]
        refine List.nodup_append.mpr ⟨h1, by simp, ?_⟩
        intro a ha b hb e
        simp only [List.mem_singleton] at hb
        rw [hb] at e
        obtain ⟨x, hx, hxa⟩ := List.mem_map.mp ha
        have : registered s f = true := by
          simp only [registered, List.any_eq_true]; exact ⟨x, hx, by simp [hxa, e]⟩
        rw [hg'.1] at this; cases this
      · simp only [live, List.filter_append, List.filter_cons, List.filter_nil]
        have : (!(s.deregd.contains f)) = true := by simpa using hnd
        simp only [this, ↓reduceIte]
        rw [h2]; rfl
      · intro g hg2
        cases h4 g hg2 with
        | inl h => exact Or.inl (registered_mono_append s g f r h)
        | inr h => exact Or.inr h
      · intro p hp
        cases h5 p hp with
        | inl h => exact Or.inl (registered_mono_append s p.1 f r h)
        | inr h => exact Or.inr h
      · intro g hg2
        have hne : g ≠ f := fun e => hg'.2 (e ▸ hg2)
        have := h6 g hg2
        simp only [registered, List.any_append, List.any_cons, List.any_nil, Bool.or_false, Bool.or_eq_false_iff] at this ⊢
        exact ⟨this, by simpa using fun e => hne e.symm⟩
      · intro p hp; exact List.mem_append_left _ (h7 p hp)
      · intro rest e hw g hg2; exact registered_mono_append s g f r (h8 rest e hw g hg2)
      · intro a ha; exact List.mem_append_left _ (h9 a ha)
  | yieldA f o =>
    simp only [step] at h
    split at h
    · cases h
    · rename_i hg
      simp only [not_or, Decidable.not_not] at hg
      cases h
      obtain ⟨r1, r2, r3, r4, r5, r6, r7, r8, _⟩ := resolve_other s f o
      refine ⟨by simpa [r1] using h1, by simp only [live, r3, r1, r2]; exact h2, by simpa [r4, r2] using h3, ?_, ?_, ?_, ?_, ?_, ?_⟩
      · intro g hg2; simp only [r2] at hg2; simpa [registered, r1, r5] using h4 g hg2
      · have := resolve_done_sub s f o (fun x => registered s x = true ∨ x ∈ s.delCancelled) (Or.inl hg.2) h5
        intro p hp; simpa [registered, r1, r5] using this p hp
      · intro g hg2; simp only [r5] at hg2; simpa [registered, r1] using h6 g hg2
      · intro p hp; simp only [r6] at hp; simpa [r1] using h7 p hp
      · intro rest e hw g hg2; simp only [r7] at hw; simpa [registered, r1] using h8 rest e hw g hg2
      · intro a ha; simp only [r8] at ha; simpa [r1] using h9 a ha
  | cancelA f ans =>
    simp only [step] at h
    split at h
    · cases h
    · cases ans with
      | none =>
        simp only at h
        split at h
        · cases h
          by_cases hr : registered s f = true
          · have hr' : s.regPairs.any (fun p => p.1 == f) = true := hr
            simp only [hr', ↓reduceIte]
            obtain ⟨r1, r2, r3, r4, r5, r6, r7, r8, _⟩ := resolve_other s f .cancelled
            refine ⟨by simpa [r1] using h1, by simp only [live, r3, r1, r2]; exact h2, by simpa [r4, r2] using h3, ?_, ?_, ?_, ?_, ?_, ?_⟩
            · intro g hg2; simp only [r2] at hg2; simpa [registered, r1, r5] using h4 g hg2
            · have := resolve_done_sub s f .cancelled (fun x => registered s x = true ∨ x ∈ s.delCancelled) (Or.inl hr) h5
              intro p hp; simpa [registered, r1, r5] using this p hp
            · intro g hg2; simp only [r5] at hg2; simpa [registered, r1] using h6 g hg2
            · intro p hp; simp only [r6] at hp; simpa [r1] using h7 p hp
            · intro rest e hw g hg2; simp only [r7] at hw; simpa [registered, r1] using h8 rest e hw g hg2
            · intro a ha; simp only [r8] at ha; simpa [r1] using h9 a ha
          · have hr' : s.regPairs.any (fun p => p.1 == f) = false := Bool.eq_false_iff.mpr hr
            simp only [hr', Bool.false_eq_true, ↓reduceIte]
            obtain ⟨r1, r2, r3, r4, r5, r6, r7, r8, _⟩ := resolve_other { s with delCancelled := s.delCancelled ++ [f] } f .cancelled
            simp only at r1 r2 r3 r4 r5 r6 r7 r8
            refine ⟨by simpa [r1] using h1, by simp only [live, r3, r1, r2]; exact h2, by simpa [r4, r2] using h3, ?_, ?_, ?_, ?_, ?_, ?_⟩
            · intro g hg2; simp only [r2] at hg2
              cases h4 g hg2 with
              | inl h => exact Or.inl (by simpa [registered, r1] using h)
              | inr h => exact Or.inr (by simp [r5, h])
            · have := resolve_done_sub { s with delCancelled := s.delCancelled ++ [f] } f .cancelled
                (fun x => registered s x = true ∨ x ∈ s.delCancelled ++ [f]) (Or.inr (by simp))
                (fun p hp => (h5 p hp).imp id (fun h => List.mem_append_left _ h))
              intro p hp; simpa [registered, r1, r5] using this p hp
            · intro g hg2; simp only [r5, List.mem_append, List.mem_singleton] at hg2
              cases hg2 with
              | inl hg2 => simpa [registered, r1] using h6 g hg2
              | inr hg2 => subst hg2; simpa [registered, r1] using hr'
            · intro p hp; simp only [r6] at hp; simpa [r1] using h7 p hp
            · intro rest e hw g hg2; simp only [r7] at hw; simpa [registered, r1] using h8 rest e hw g hg2
            · intro a ha; simp only [r8] at ha; simpa [r1] using h9 a ha
        · cases h
      | some a =>
        simp only at h
        split at h
        · rename_i r hl
          split at h
          · have hmem : (f, r) ∈ s.regPairs := by
              have := lookup_mem' _ _ _ hl
              rw [h2] at this
              exact (List.mem_filter.mp this).1
            have hreg : registered s f = true := by
              simp only [registered, List.any_eq_true]; exact ⟨(f, r), hmem, by simp⟩
            split at h
            · cases h
              obtain ⟨r1, r2, r3, r4, r5, r6, r7, r8, _⟩ := resolve_other { s with asks := s.asks ++ [(f, r)] } f .cancelled
              simp only at r1 r2 r3 r4 r5 r6 r7 r8
              refine ⟨by simpa [r1] using h1, by simp only [live, r3, r1, r2]; exact h2, by simpa [r4, r2] using h3, ?_, ?_, ?_, ?_, ?_, ?_⟩
              · intro g hg2; simp only [r2] at hg2; simpa [registered, r1, r5] using h4 g hg2
              · have := resolve_done_sub { s with asks := s.asks ++ [(f, r)] } f .cancelled
                  (fun x => registered s x = true ∨ x ∈ s.delCancelled) (Or.inl hreg) h5
                intro p hp; simpa [registered, r1, r5] using this p hp
              · intro g hg2; simp only [r5] at hg2; simpa [registered, r1] using h6 g hg2
              · intro p hp; simp only [r6] at hp; simpa [r1] using h7 p hp
              · intro rest e hw g hg2; simp only [r7] at hw; simpa [registered, r1] using h8 rest e hw g hg2
              · intro a ha; simp only [r8, List.mem_append, List.mem_singleton] at ha
                cases ha with
                | inl ha => simpa [r1] using h9 a ha
                | inr ha => subst ha; simpa [r1] using hmem
            · cases h
              refine ⟨h1, h2, h3, h4, h5, h6, h7, h8, ?_⟩
              intro a ha; simp only [List.mem_append, List.mem_singleton] at ha
              cases ha with
              | inl ha => exact h9 a ha
              | inr ha => subst ha; exact hmem
          · cases h
        · cases h
  | dereg f =>
    simp only [step] at h
    split at h
    · rename_i hg
      cases h
      have hdone : isDone s f = true := hg.1
      obtain ⟨p, hp, hpf⟩ := List.any_eq_true.mp hdone
      have hpf' : p.1 = f := by simpa using hpf
      refine ⟨h1, ?_, fun g hg2 => List.mem_append_left _ (h3 g hg2), ?_, h5, h6, h7, h8, h9⟩
      · simp only [live]
        rw [h2]
        simp only [live, List.filter_filter]
        apply List.filter_congr
        intro x _
        by_cases hx : x.1 = f <;> simp [hx]
      · intro g hg2; simp only [List.mem_append, List.mem_singleton] at hg2
        cases hg2 with
        | inl hg2 => exact h4 g hg2
        | inr hg2 => subst hg2; rw [← hpf']; exact h5 p hp
    · cases h
  | resolveRet f =>
    simp only [step] at h
    split at h
    · rename_i hg
      cases h
      refine ⟨h1, h2, ?_, h4, h5, h6, h7, h8, h9⟩
      intro g hg2; simp only [List.mem_append, List.mem_singleton] at hg2
      cases hg2 with
      | inl hg2 => exact h3 g hg2
      | inr hg2 => subst hg2; exact hg.1
    · cases h
  | snapshot =>
    simp only [step] at h
    split at h
    · cases h
      refine ⟨h1, h2, h3, h4, h5, h6, ?_, (by intro rest e hw; cases hw), h9⟩
      intro p hp; rw [h2] at hp; exact (List.mem_filter.mp hp).1
    · cases h
  | pollRet =>
    simp only [step] at h
    split at h
    · cases h; exact ⟨h1, h2, h3, h4, h5, h6, h7, (by intro rest e hw; cases hw), h9⟩
    · cases h
  | pollRaise e =>
    simp only [step] at h
    split at h
    · cases h
      refine ⟨h1, h2, h3, h4, h5, h6, h7, ?_, h9⟩
      intro rest e' hw g hg2
      cases hw
      obtain ⟨p, hp, rfl⟩ := List.mem_map.mp hg2
      simp only [registered, List.any_eq_true]; exact ⟨p, h7 p hp, by simp⟩
    · cases h
  | failNext =>
    simp only [step] at h
    split at h
    · rename_i f rest e hw
      cases h
      have hreg : registered s f = true := h8 _ _ hw f (by simp)
      obtain ⟨r1, r2, r3, r4, r5, r6, r7, r8, _⟩ := resolve_other s f (.exc e)
      refine ⟨by simpa [r1] using h1, by simp only [live, r3, r1, r2]; exact h2, by simpa [r4, r2] using h3, ?_, ?_, ?_, ?_, ?_, ?_⟩
      · intro g hg2; simp only [r2] at hg2; simpa [registered, r1, r5] using h4 g hg2
      · have := resolve_done_sub s f (.exc e) (fun x => registered s x = true ∨ x ∈ s.delCancelled) (Or.inl hreg) h5
        intro p hp; simpa [registered, r1, r5] using this p hp
      · intro g hg2; simp only [r5] at hg2; simpa [registered, r1] using h6 g hg2
      · intro p hp; simp only [r6] at hp; simpa [r1] using h7 p hp
      · intro rest' e' hw' g hg2
        cases hw'
        simpa [registered, r1] using h8 _ _ hw g (List.mem_cons_of_mem _ hg2)
      · intro a ha; simp only [r8] at ha; simpa [r1] using h9 a ha
    · cases h; exact ⟨h1, h2, h3, h4, h5, h6, h7, (by intro rest e hw; cases hw), h9⟩
    · cases h
  | notifyA => simp only [step] at h; cases h; exact ⟨h1, h2, h3, h4, h5, h6, h7, h8, h9⟩
  | setE => simp only [step] at h; cases h; exact ⟨h1, h2, h3, h4, h5, h6, h7, h8, h9⟩
  | waitE =>
    simp only [step] at h
    split at h
    · rename_i hw
      cases h
      refine ⟨h1, h2, h3, h4, h5, h6, h7, ?_, h9⟩
      intro rest e hw'; simp only at hw'; split at hw' <;> cases hw'
    · cases h
  | wake =>
    simp only [step] at h
    split at h
    · cases h; exact ⟨h1, h2, h3, h4, h5, h6, h7, (by intro rest e hw; cases hw), h9⟩
    · cases h
  | clearE =>
    simp only [step] at h
    split at h
    · cases h; exact ⟨h1, h2, h3, h4, h5, h6, h7, (by intro rest e hw; cases hw), h9⟩
    · cases h

end MoreExec.Poll
