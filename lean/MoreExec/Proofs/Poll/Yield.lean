/- First yield wins, and the sleep invariant of the poll thread. -/
import MoreExec.Proofs.Poll.Inv

namespace MoreExec.Poll

structure InvY (s : St) : Prop where
  ydone : ∀ y ∈ s.yields, isDone s y.1 = true
  first : ∀ p ∈ s.done, p.2 ≠ .cancelled → s.yields.find? (fun y => y.1 == p.1) = some p
  keys : (s.done.map (·.1)).Nodup

theorem invY_init (b : Bool) : InvY (init b) := by constructor <;> simp [init]

theorem isDone_resolve (s : St) (f g : Nat) (o : Out) (h : isDone s g = true) : isDone (resolve s f o) g = true := by
  unfold resolve; split
  · exact h
  · simp only [isDone, List.any_append, Bool.or_eq_true]; exact Or.inl h

theorem isDone_resolve_self (s : St) (f : Nat) (o : Out) : isDone (resolve s f o) f = true := by
  unfold resolve; split
  · rename_i h; exact h
  · simp [isDone]

/-- the common part of `yieldA` and `failNext`: a yield of a non-cancel outcome reaching future f -/
theorem invY_yield (s : St) (f : Nat) (o : Out) (ho : o ≠ .cancelled) (hi : InvY s) (s' : St)
    (hs : s'.done = (resolve s f o).done) (hy : s'.yields = s.yields ++ [(f, o)]) : InvY s' := by
  obtain ⟨h1, h2, h3⟩ := hi
  have hd : ∀ g, isDone s' g = isDone (resolve s f o) g := by intro g; simp [isDone, hs]
  refine ⟨?_, ?_, ?_⟩
  · intro y hy'
    rw [hy] at hy'
    simp only [List.mem_append, List.mem_singleton] at hy'
    rw [hd]
    cases hy' with
    | inl hy' => exact isDone_resolve s f y.1 o (h1 y hy')
    | inr hy' => subst hy'; exact isDone_resolve_self s f o
  · intro p hp hpc
    rw [hs] at hp
    rw [hy, List.find?_append]
    unfold resolve at hp
    split at hp
    · rw [h2 p hp hpc]; rfl
    · rename_i hnd
      simp only [List.mem_append, List.mem_singleton] at hp
      cases hp with
      | inl hp => rw [h2 p hp hpc]; rfl
      | inr hp =>
        subst hp
        have : s.yields.find? (fun y => y.1 == f) = none := by
          rw [List.find?_eq_none]
          intro y hy' e
          have : y.1 = f := by simpa using e
          exact hnd (this ▸ h1 y hy')
        simp [this]
  · rw [hs]
    unfold resolve
    split
    · exact h3
    · rename_i hnd
      simp only [List.map_append, List.map_cons, List.map_nil]
      refine List.nodup_append.mpr ⟨h3, by simp, ?_⟩
      intro a ha b hb e
      simp only [List.mem_singleton] at hb
      rw [hb] at e
      obtain ⟨x, hx, hxa⟩ := List.mem_map.mp ha
      apply hnd
      simp only [isDone, List.any_eq_true]
      exact ⟨x, hx, by simp [hxa, e]⟩

theorem invY_cancel (s : St) (f : Nat) (hi : InvY s) (s' : St)
    (hs : s'.done = (resolve s f .cancelled).done) (hy : s'.yields = s.yields) : InvY s' := by
  obtain ⟨h1, h2, h3⟩ := hi
  have hd : ∀ g, isDone s' g = isDone (resolve s f .cancelled) g := by intro g; simp [isDone, hs]
  refine ⟨?_, ?_, ?_⟩
  · intro y hy'; rw [hy] at hy'; rw [hd]; exact isDone_resolve s f y.1 _ (h1 y hy')
  · intro p hp hpc
    rw [hs] at hp; rw [hy]
    unfold resolve at hp
    split at hp
    · exact h2 p hp hpc
    · simp only [List.mem_append, List.mem_singleton] at hp
      cases hp with
      | inl hp => exact h2 p hp hpc
      | inr hp => subst hp; exact absurd rfl hpc
  · rw [hs]
    unfold resolve
    split
    · exact h3
    · rename_i hnd
      simp only [List.map_append, List.map_cons, List.map_nil]
      refine List.nodup_append.mpr ⟨h3, by simp, ?_⟩
      intro a ha b hb e
      simp only [List.mem_singleton] at hb
      rw [hb] at e
      obtain ⟨x, hx, hxa⟩ := List.mem_map.mp ha
      apply hnd
      simp only [isDone, List.any_eq_true]
      exact ⟨x, hx, by simp [hxa, e]⟩

theorem invY_same (s s' : St) (hi : InvY s) (hd : s'.done = s.done) (hy : s'.yields = s.yields) : InvY s' := by
  obtain ⟨h1, h2, h3⟩ := hi
  exact ⟨by intro y hy'; rw [hy] at hy'; simpa [isDone, hd] using h1 y hy',
         by intro p hp hpc; rw [hd] at hp; rw [hy]; exact h2 p hp hpc, by rw [hd]; exact h3⟩

theorem invY_step (s : St) (a : Act) (s' : St) (hi : InvY s) (h : step s a = some s') : InvY s' := by
  cases a with
  | register f r =>
    simp only [step] at h
    split at h
    · cases h
    · cases h; exact invY_same s _ hi rfl rfl
  | yieldA f o =>
    simp only [step] at h
    split at h
    · cases h
    · rename_i hg
      simp only [not_or] at hg
      cases h
      exact invY_yield s f o hg.1 hi _ rfl (by simp [(resolve_other s f o).2.2.2.2.2.2.2.2.2.2])
  | cancelA f ans =>
    simp only [step] at h
    split at h
    · cases h
    · cases ans with
      | none =>
        simp only at h
        split at h
        · cases h
          split
          · exact invY_cancel s f hi _ rfl (resolve_other s f .cancelled).2.2.2.2.2.2.2.2.2.2
          · refine invY_cancel s f hi _ ?_ ?_
            · simp only [resolve, isDone]; by_cases hc : (s.done.any fun p => p.fst == f) = true <;> simp [hc]
            · exact (resolve_other _ f .cancelled).2.2.2.2.2.2.2.2.2.2
        · cases h
      | some a =>
        simp only at h
        split at h
        · split at h
          · split at h
            · cases h
              refine invY_cancel s f hi _ ?_ ?_
              · simp only [resolve, isDone]; by_cases hc : (s.done.any fun p => p.fst == f) = true <;> simp [hc]
              · exact (resolve_other _ f .cancelled).2.2.2.2.2.2.2.2.2.2
            · cases h; exact invY_same s _ hi rfl rfl
          · cases h
        · cases h
  | dereg f =>
    simp only [step] at h
    split at h
    · cases h; exact invY_same s _ hi rfl rfl
    · cases h
  | resolveRet f =>
    simp only [step] at h
    split at h
    · cases h; exact invY_same s _ hi rfl rfl
    · cases h
  | snapshot =>
    simp only [step] at h
    split at h
    · cases h; exact invY_same s _ hi rfl rfl
    · cases h
  | pollRet =>
    simp only [step] at h
    split at h
    · cases h; exact invY_same s _ hi rfl rfl
    · cases h
  | pollRaise e =>
    simp only [step] at h
    split at h
    · cases h; exact invY_same s _ hi rfl rfl
    · cases h
  | failNext =>
    simp only [step] at h
    split at h
    · rename_i f rest e hw
      cases h
      exact invY_yield s f (.exc e) (by simp) hi _ rfl (by simp [(resolve_other s f (.exc e)).2.2.2.2.2.2.2.2.2.2])
    · cases h; exact invY_same s _ hi rfl rfl
    · cases h
  | notifyA => simp only [step] at h; cases h; exact invY_same s _ hi rfl rfl
  | setE => simp only [step] at h; cases h; exact invY_same s _ hi rfl rfl
  | waitE =>
    simp only [step] at h
    split at h
    · cases h; exact invY_same s _ hi rfl rfl
    · cases h
  | wake =>
    simp only [step] at h
    split at h
    · cases h; exact invY_same s _ hi rfl rfl
    · cases h
  | clearE =>
    simp only [step] at h
    split at h
    · cases h; exact invY_same s _ hi rfl rfl
    · cases h

/-- sleep invariant: a registration / notify that the poll function has not been shown yet keeps the event set
(or the thread is about to take a fresh snapshot) -/
def InvS (s : St) : Prop := s.newSince = true → s.flag = true ∨ s.wpc = .top ∨ 0 < s.pendingSet

theorem resolve_pending (s : St) (f : Nat) (o : Out) : (resolve s f o).pendingSet = s.pendingSet := by
  unfold resolve; split <;> rfl

theorem invS_init (b : Bool) : InvS (init b) := by simp [InvS, init]

theorem invS_step (s : St) (a : Act) (s' : St) (hi : InvS s) (h : step s a = some s') : InvS s' := by
  unfold InvS at *
  cases a with
  | register f r =>
    simp only [step] at h
    split at h
    · cases h
    · cases h; intro _; exact Or.inr (Or.inr (Nat.succ_pos _))
  | yieldA f o =>
    simp only [step] at h
    split at h
    · cases h
    · cases h
      obtain ⟨_, _, _, _, _, _, r7, _, r9, r10, _⟩ := resolve_other s f o
      have r11 := resolve_pending s f o
      simpa [r7, r9, r10, r11] using hi
  | cancelA f ans =>
    simp only [step] at h
    split at h
    · cases h
    · cases ans with
      | none =>
        simp only at h
        split at h
        · cases h
          split
          · obtain ⟨_, _, _, _, _, _, r7, _, r9, r10, _⟩ := resolve_other s f .cancelled
            have r11 := resolve_pending s f .cancelled
            simpa [r7, r9, r10, r11] using hi
          · obtain ⟨_, _, _, _, _, _, r7, _, r9, r10, _⟩ := resolve_other { s with delCancelled := s.delCancelled ++ [f] } f .cancelled
            have r11 := resolve_pending { s with delCancelled := s.delCancelled ++ [f] } f .cancelled
            simpa [r7, r9, r10, r11] using hi
        · cases h
      | some a =>
        simp only at h
        split at h
        · split at h
          · split at h
            · cases h
              rename_i r _ _ _
              obtain ⟨_, _, _, _, _, _, r7, _, r9, r10, _⟩ := resolve_other { s with asks := s.asks ++ [(f, r)] } f .cancelled
              have r11 := resolve_pending { s with asks := s.asks ++ [(f, r)] } f .cancelled
              simpa [r7, r9, r10, r11] using hi
            · cases h; exact hi
          · cases h
        · cases h
  | dereg f =>
    simp only [step] at h
    split at h
    · cases h; exact hi
    · cases h
  | resolveRet f =>
    simp only [step] at h
    split at h
    · cases h; exact hi
    · cases h
  | snapshot =>
    simp only [step] at h
    split at h
    · cases h; intro hn; simp at hn
    · cases h
  | pollRet =>
    simp only [step] at h
    split at h
    · rename_i hw; cases h; intro hn
      rcases hi hn with h | h | h
      · exact Or.inl h
      · rw [hw] at h; cases h
      · exact Or.inr (Or.inr h)
    · cases h
  | pollRaise e =>
    simp only [step] at h
    split at h
    · rename_i hw; cases h; intro hn
      rcases hi hn with h | h | h
      · exact Or.inl h
      · rw [hw] at h; cases h
      · exact Or.inr (Or.inr h)
    · cases h
  | failNext =>
    simp only [step] at h
    split at h
    · rename_i f rest e hw
      cases h
      obtain ⟨_, _, _, _, _, _, r7, _, r9, r10, _⟩ := resolve_other s f (.exc e)
      intro hn
      simp only [r10] at hn
      have r11 := resolve_pending s f (.exc e)
      rcases hi hn with h | h | h
      · exact Or.inl (by simpa [r9] using h)
      · rw [hw] at h; cases h
      · exact Or.inr (Or.inr (by simpa [r11] using h))
    · rename_i e hw; cases h; intro hn
      rcases hi hn with h | h | h
      · exact Or.inl h
      · rw [hw] at h; cases h
      · exact Or.inr (Or.inr h)
    · cases h
  | notifyA => simp only [step] at h; cases h; intro _; exact Or.inr (Or.inr (Nat.succ_pos _))
  | setE => simp only [step] at h; cases h; intro _; exact Or.inl rfl
  | waitE =>
    simp only [step] at h
    split at h
    · rename_i hw; cases h; intro hn
      rcases hi hn with h | h | h
      · exact Or.inl h
      · rw [hw] at h; cases h
      · exact Or.inr (Or.inr h)
    · cases h
  | wake =>
    simp only [step] at h
    split at h
    · rename_i hw; cases h; intro hn
      rcases hi hn with h | h | h
      · exact Or.inl h
      · rw [hw] at h; cases h
      · exact Or.inr (Or.inr h)
    · cases h
  | clearE =>
    simp only [step] at h
    split at h
    · cases h; intro _; exact Or.inr (Or.inl rfl)
    · cases h

end MoreExec.Poll
