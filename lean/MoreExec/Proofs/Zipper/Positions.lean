import MoreExec.Model.Zipper

namespace MoreExec.Zipper
open MoreExec.Gen

def okIn (f : GIn) : Prop := f.cancelled = false ∧ f.exception = none

theorem handleDone_ok (s : ZSt) (i : Nat) (f : GIn) (hd : s.done = false) (hok : okIn f) :
    handleDone s i f =
      if s.remaining - 1 = 0 then
        { fs := s.fs.set i (.value f.result), remaining := s.remaining - 1, done := true,
          out := some (.tuple (s.fs.set i (.value f.result))) }
      else { s with fs := s.fs.set i (.value f.result), remaining := s.remaining - 1 } := by
  obtain ⟨hc, he⟩ := hok
  simp only [handleDone, K6.zipUpdate, hd, hc, he, excTruthy]
  by_cases h : s.remaining - 1 = 0 <;> simp [h]

theorem handleDone_done (s : ZSt) (i : Nat) (f : GIn) (hd : s.done = true) : handleDone s i f = s := by
  cases s
  simp only at hd
  subst hd
  simp [handleDone, K6.zipUpdate]

theorem run_done (s : ZSt) (cs : List (Nat × GIn)) (hd : s.done = true) : run s cs = s := by
  induction cs generalizing s with
  | nil => rfl
  | cons c cs ih => simp only [run, List.foldl_cons, handleDone_done s c.1 c.2 hd]; exact ih s hd

/-- first failure: an exception while undecided decides the output with that exception -/
theorem handleDone_exc (s : ZSt) (i : Nat) (f : GIn) (e : GExc) (hd : s.done = false)
    (hc : f.cancelled = false) (he : f.exception = some e) (ht : e.truthy = true) :
    handleDone s i f = { s with done := true, out := some (.err e) } := by
  simp [handleDone, K6.zipUpdate, hd, hc, he, excTruthy, ht]

theorem handleDone_cancelled (s : ZSt) (i : Nat) (f : GIn) (hd : s.done = false) (hc : f.cancelled = true) :
    handleDone s i f = { s with done := true, out := some .cancelled } := by
  simp [handleDone, K6.zipUpdate, hd, hc]

/-- The slots after the indices in `P` have been filled. -/
def filled (n : Nat) (val : Nat → GVal) (P : List Nat) : List GSlot :=
  (List.range n).map (fun i => if i ∈ P then GSlot.value (val i) else GSlot.future i)

theorem filled_set (n : Nat) (val : Nat → GVal) (P : List Nat) (i : Nat) :
    (filled n val P).set i (.value (val i)) = filled n val (i :: P) := by
  apply List.ext_getElem
  · simp [filled]
  · intro j h1 h2
    simp only [filled, List.length_set, List.length_map, List.length_range] at h1
    simp only [List.getElem_set, filled, List.getElem_map, List.getElem_range, List.mem_cons]
    by_cases hij : i = j
    · subst hij; simp
    · have : ¬ j = i := fun h => hij h.symm
      simp [hij, this]

/-- All inputs succeed: whatever the completion order, the output tuple holds input `i`'s result at position `i`. -/
theorem run_positions (n : Nat) (val : Nat → GVal) (ins : Nat → GIn)
    (hok : ∀ i, okIn (ins i)) (hval : ∀ i, (ins i).result = val i)
    (order P : List Nat) (s : ZSt)
    (hnd : (order ++ P).Nodup) (hlt : ∀ i ∈ order, i < n)
    (hcount : s.remaining = order.length) (hfs : s.fs = filled n val P) (hdone : s.done = false)
    (hne : order ≠ []) :
    (run s (order.map (fun i => (i, ins i)))).out = some (.tuple (filled n val (order.reverse ++ P))) := by
  induction order generalizing s P with
  | nil => exact absurd rfl hne
  | cons i rest ih =>
    simp only [List.map_cons, run, List.foldl_cons]
    have hstep := handleDone_ok s i (ins i) hdone (hok i)
    rw [hval i, hfs, filled_set] at hstep
    by_cases hr : rest = []
    · subst hr
      simp only [hcount, List.length_cons, List.length_nil, Nat.zero_add, Nat.sub_self, if_true] at hstep
      simp [hstep]
    · have hrem : s.remaining - 1 ≠ 0 := by
        rw [hcount]; simp
        exact hr
      simp only [hrem, if_false] at hstep
      rw [hstep]
      have := ih (i :: P) { s with fs := filled n val (i :: P), remaining := s.remaining - 1 }
        (by
          have := hnd
          simp only [List.cons_append, List.nodup_cons, List.mem_append] at this
          rw [List.nodup_append] at this ⊢
          obtain ⟨hni, h1, h2, h3⟩ := this
          refine ⟨h1, ?_, ?_⟩
          · simp only [List.nodup_cons]; exact ⟨fun h => hni (Or.inr h), h2⟩
          · intro a ha b hb
            rcases List.mem_cons.mp hb with rfl | hb
            · intro e; subst e; exact hni (Or.inl ha)
            · exact h3 a ha b hb)
        (fun j hj => hlt j (List.mem_cons_of_mem _ hj))
        (by simp [hcount]) rfl hdone hr
      simp only [run] at this
      rw [this]
      simp [List.reverse_cons, List.append_assoc]

end MoreExec.Zipper
