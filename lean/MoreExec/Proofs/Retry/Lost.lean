/- Invariant bundle 4 of the Retry model: no future is lost, also under client cancels (C03). -/
import MoreExec.Proofs.Retry.Timing

namespace MoreExec.Retry

theorem refused_mono (s : St) (a : Act) (s' : St) (h : step s a = some s') : ∀ d ∈ s.refused, d ∈ s'.refused := by
  intro d hd
  cases a <;> simp only [step] at h <;> (repeat' split at h) <;>
    first
    | (cases h; first | exact hd | exact List.mem_append_left _ hd)
    | cases h

theorem delCancelled_mono (s : St) (a : Act) (s' : St) (h : step s a = some s') : ∀ d ∈ s.delCancelled, d ∈ s'.delCancelled := by
  intro d hd
  cases a <;> simp only [step] at h <;> (repeat' split at h) <;>
    first
    | (cases h; first | exact hd | exact List.mem_append_left _ hd | (simp only; split <;> first | exact hd | exact List.mem_append_left _ hd))
    | cases h


/-- the delegate contract the no-lost-future theorem assumes (DC3 of DESIGN.md): a delegate future whose `cancel()` returned
False to the library (it was running or finished) is never cancelled afterwards -/
def Disj (s : St) : Prop := ∀ d ∈ s.refused, d ∉ s.delCancelled

theorem disj_mono (s : St) (a : Act) (s' : St) (h : step s a = some s') (hd : Disj s') : Disj s :=
  fun d hr hc => hd d (refused_mono s a s' h d hr) (delCancelled_mono s a s' h d hc)

/-- membership in an association list with distinct keys determines the lookup -/
theorem lookup_of_mem {α : Type} (l : List (Nat × α)) (k : Nat) (v : α) (hn : (l.map (·.1)).Nodup) (hm : (k, v) ∈ l) :
    l.lookup k = some v := by
  induction l with
  | nil => cases hm
  | cons p t ih =>
    obtain ⟨k', v'⟩ := p
    have hn' : k' ∉ t.map (·.1) ∧ (t.map (·.1)).Nodup := List.nodup_cons.mp (by simpa using hn)
    simp only [List.lookup_cons]
    cases hm with
    | head => simp
    | tail _ hm' =>
      have hne : k ≠ k' := by
        intro e; subst e
        exact hn'.1 (List.mem_map.mpr ⟨(k, v), hm', rfl⟩)
      have : (k == k') = false := by simpa using hne
      simp only [this]
      exact ih hn'.2 hm'

/-- what a `cancel()` in progress on f knows about f's job -/
structure CancelView (s : St) : Prop where
  keys : (s.cancelling.map (·.1)).Nodup
  excl : ∀ p ∈ s.cancelling, ∀ nj, s.submitting = some nj → nj.fut ≠ p.1
  scan : ∀ f d b, (f, CSt.scanned (some d) b) ∈ s.cancelling → ∀ j ∈ s.jobs, j.fut = f → j.del = some d ∨ j.del = none
  refd : ∀ f, (f, CSt.delegated false) ∈ s.cancelling → ∀ j ∈ s.jobs, j.fut = f → ∀ d, j.del = some d → d ∈ s.refused

/-- a future handed out by submit() is accounted for -/
def Kept (s : St) (f : Nat) : Prop :=
  f ∈ s.done ∨ (∃ j ∈ s.jobs, j.fut = f) ∨ (∃ nj, s.submitting = some nj ∧ nj.fut = f) ∨
  (∃ b, (f, CSt.scanned none b) ∈ s.cancelling) ∨ (f, CSt.delegated true) ∈ s.cancelling ∨
  (∃ d b, (f, CSt.scanned (some d) b) ∈ s.cancelling ∧ d ∈ s.delCancelled) ∨ (∃ d, (f, d) ∈ s.marks)


theorem not_key_of_cancellingF {s : St} {f : Nat} (h : cancellingF s f = false) : ∀ p ∈ s.cancelling, p.1 ≠ f := by
  intro p hp e
  simp only [cancellingF, List.any_eq_false] at h
  exact h p hp (by simpa using e)

theorem holdsF_false_cancelling {s : St} {f : Nat} (h : holdsF s f = false) : cancellingF s f = false := by
  simp only [holdsF, Bool.or_eq_false_iff] at h; exact h.1

theorem nodup_filter_append {α : Type} (l : List (Nat × α)) (f : Nat) (v : α) (h : (l.map (·.1)).Nodup) :
    (((l.filter (fun p => p.1 != f)) ++ [(f, v)]).map (·.1)).Nodup := by
  simp only [List.map_append, List.map_cons, List.map_nil]
  refine List.nodup_append.mpr ⟨?_, by simp, ?_⟩
  · exact List.Nodup.sublist ((List.filter_sublist (l := l)).map _) h
  · intro a ha b hb
    simp only [List.mem_singleton] at hb; subst hb
    obtain ⟨x, hx, rfl⟩ := List.mem_map.mp ha
    have := (List.mem_filter.mp hx).2
    simpa using this

theorem nodup_filter_keys {α : Type} (l : List (Nat × α)) (q : Nat × α → Bool) (h : (l.map (·.1)).Nodup) :
    ((l.filter q).map (·.1)).Nodup :=
  List.Nodup.sublist ((List.filter_sublist (l := l)).map _) h

/-- a second invariant that only concerns who is cancelling what: every cancel in progress is on a submitted future -/
def CSub (s : St) : Prop := ∀ p ∈ s.cancelling, p.1 ∈ s.submitted

theorem csub_step (s : St) (a : Act) (s' : St) (hi : CSub s) (h : step s a = some s') : CSub s' := by
  cases a with
  | submit f =>
    simp only [step] at h
    split at h
    · cases h
    · cases h; intro p hp; exact List.mem_append_left _ (hi p hp)
  | cancelScan f =>
    simp only [step] at h
    split at h
    · rename_i hg
      have hnew : ∀ (c : CSt) (p : Nat × CSt), p ∈ s.cancelling ++ [(f, c)] → p.1 ∈ s.submitted := by
        intro c p hp
        simp only [List.mem_append, List.mem_singleton] at hp
        rcases hp with hp | hp
        · exact hi p hp
        · subst hp; exact hg.1
      split at h
      · cases h; exact hnew _
      · split at h
        · cases h; exact hnew _
        · cases h; exact hnew _
    · cases h
  | cancelDel f b =>
    simp only [step] at h
    split at h
    · rename_i d popped hl
      have hf : f ∈ s.submitted := hi _ (lookup_mem _ _ _ hl)
      have hnew : ∀ (c : CSt) (p : Nat × CSt), p ∈ s.cancelling.filter (fun p => p.1 != f) ++ [(f, c)] → p.1 ∈ s.submitted := by
        intro c p hp
        simp only [List.mem_append, List.mem_singleton] at hp
        rcases hp with hp | hp
        · exact hi p (List.mem_filter.mp hp).1
        · subst hp; exact hf
      split at h
      · split at h
        · cases h; exact hnew _
        · split at h
          · cases h
          · cases h; exact hnew _
      · split at h
        · cases h
        · cases h; exact hnew _
    · cases h
  | cancelEnd f =>
    simp only [step] at h
    split at h
    · cases h; intro p hp; exact hi p (List.mem_filter.mp hp).1
    · cases h; intro p hp; exact hi p (List.mem_filter.mp hp).1
    · cases h; intro p hp; exact hi p (List.mem_filter.mp hp).1
    · cases h
  | submitNow j => simp only [step] at h; (repeat' split at h) <;> first | (cases h; exact hi) | cases h
  | submitApp => simp only [step] at h; (repeat' split at h) <;> first | (cases h; exact hi) | cases h
  | discard j => simp only [step] at h; (repeat' split at h) <;> first | (cases h; exact hi) | cases h
  | ddone d c => simp only [step] at h; (repeat' split at h) <;> first | (cases h; exact hi) | cases h
  | cbCancelled d => simp only [step] at h; (repeat' split at h) <;> first | (cases h; exact hi) | cases h
  | cbPolicy d r => simp only [step] at h; (repeat' split at h) <;> first | (cases h; exact hi) | cases h
  | cbRetry d => simp only [step] at h; (repeat' split at h) <;> first | (cases h; exact hi) | cases h
  | cbFinal d => simp only [step] at h; (repeat' split at h) <;> first | (cases h; exact hi) | cases h
  | cbMark f d inl => simp only [step] at h; (repeat' split at h) <;> first | (cases h; exact hi) | cases h
  | tick t => simp only [step] at h; (repeat' split at h) <;> first | (cases h; exact hi) | cases h


/-- jobs only shrink / keep their (fut, del) pairs; cancelling, submitting, refused unchanged or grown -/
theorem cview_jobs_sub {s s' : St} (hv : CancelView s) (e1 : s'.cancelling = s.cancelling) (e2 : s'.submitting = s.submitting)
    (e3 : ∀ d ∈ s.refused, d ∈ s'.refused)
    (e4 : ∀ x ∈ s'.jobs, (∃ y ∈ s.jobs, y.fut = x.fut ∧ y.del = x.del) ∨ x.del = none) : CancelView s' := by
  obtain ⟨k, ex, sc, rf⟩ := hv
  refine ⟨by rw [e1]; exact k, ?_, ?_, ?_⟩
  · intro p hp nj hnj; rw [e1] at hp; rw [e2] at hnj; exact ex p hp nj hnj
  · intro f d b hm x hx hxf
    rw [e1] at hm
    rcases e4 x hx with ⟨y, hy, hyf, hyd⟩ | hn
    · rw [← hyd]; exact sc f d b hm y hy (hyf.trans hxf)
    · exact Or.inr hn
  · intro f hm x hx hxf d hd
    rw [e1] at hm
    rcases e4 x hx with ⟨y, hy, hyf, hyd⟩ | hn
    · exact e3 d (rf f hm y hy (hyf.trans hxf) d (by rw [hyd]; exact hd))
    · rw [hn] at hd; cases hd

theorem erase_keeps {l : List Job} (j : Job) : ∀ x ∈ l.erase j, (∃ y ∈ l, y.fut = x.fut ∧ y.del = x.del) ∨ x.del = none :=
  fun x hx => Or.inl ⟨x, List.mem_of_mem_erase hx, rfl, rfl⟩

theorem same_keeps {l : List Job} : ∀ x ∈ l, (∃ y ∈ l, y.fut = x.fut ∧ y.del = x.del) ∨ x.del = none :=
  fun x hx => Or.inl ⟨x, hx, rfl, rfl⟩

theorem cview_step (s : St) (a : Act) (s' : St) (i1 : Inv1 s) (cs : CSub s) (hv : CancelView s) (h : step s a = some s') :
    CancelView s' := by
  cases a with
  | submit f =>
    simp only [step] at h
    split at h
    · cases h
    · rename_i hf
      cases h
      obtain ⟨k, ex, sc, rf⟩ := hv
      refine ⟨k, ex, ?_, ?_⟩
      · intro g d b hm x hx hxf
        simp only [List.mem_append, List.mem_singleton] at hx
        rcases hx with hx | hx
        · exact sc g d b hm x hx hxf
        · subst hx; exact Or.inr rfl
      · intro g hm x hx hxf d hd
        simp only [List.mem_append, List.mem_singleton] at hx
        rcases hx with hx | hx
        · exact rf g hm x hx hxf d hd
        · subst hx; cases hd
  | submitNow j =>
    simp only [step] at h
    split at h
    · rename_i hg
      obtain ⟨hj, _, _, _, hhold, hnone⟩ := hg
      split at h
      · cases h; exact cview_jobs_sub hv rfl rfl (fun _ hd => hd) (erase_keeps j)
      · cases h
        obtain ⟨k, ex, sc, rf⟩ := hv
        refine ⟨k, ?_, fun g d b hm x hx hxf => sc g d b hm x (mem_erase_of hx) hxf,
                fun g hm x hx hxf d hd => rf g hm x (mem_erase_of hx) hxf d hd⟩
        intro p hp nj hnj
        simp only [Option.some.injEq] at hnj
        subst hnj
        exact fun e => not_key_of_cancellingF (holdsF_false_cancelling hhold) p hp e.symm
    · cases h
  | submitApp =>
    simp only [step] at h
    split at h
    · rename_i nj hnj
      cases h
      obtain ⟨k, ex, sc, rf⟩ := hv
      refine ⟨k, fun p hp nj' hnj' => (by cases hnj'), ?_, ?_⟩
      · intro g d b hm x hx hxf
        simp only [List.mem_append, List.mem_singleton] at hx
        rcases hx with hx | hx
        · exact sc g d b hm x hx hxf
        · subst hx; exact absurd hxf (ex _ hm x hnj)
      · intro g hm x hx hxf d hd
        simp only [List.mem_append, List.mem_singleton] at hx
        rcases hx with hx | hx
        · exact rf g hm x hx hxf d hd
        · subst hx; exact absurd hxf (ex _ hm x hnj)
    · cases h
  | discard j =>
    simp only [step] at h
    split at h
    · cases h; exact cview_jobs_sub hv rfl rfl (fun _ hd => hd) (erase_keeps j)
    · cases h
  | ddone d c =>
    simp only [step] at h
    split at h
    · cases h; exact cview_jobs_sub hv rfl rfl (fun _ hd => hd) same_keeps
    · cases h
  | cbCancelled d =>
    simp only [step] at h
    split at h
    · rename_i j hjd
      split at h
      · cases h; exact cview_jobs_sub hv rfl rfl (fun _ hd => hd) (erase_keeps j)
      · cases h
    · cases h
  | cbMark f d inl =>
    simp only [step] at h
    (repeat' split at h) <;> first
      | (cases h; exact cview_jobs_sub hv rfl rfl (fun _ hd => hd) same_keeps)
      | cases h
  | cbPolicy d r =>
    simp only [step] at h
    split at h
    · split at h
      · split at h
        · split at h
          · cases h; exact cview_jobs_sub hv rfl rfl (fun _ hd => hd) same_keeps
          · cases h
        · cases h; exact cview_jobs_sub hv rfl rfl (fun _ hd => hd) same_keeps
      · cases h
    · cases h
  | cbRetry d =>
    simp only [step] at h
    split at h
    · rename_i j t hjd _
      cases h
      refine cview_jobs_sub hv rfl rfl (fun _ hd => hd) ?_
      intro x hx
      simp only [List.mem_append, List.mem_singleton] at hx
      rcases hx with hx | hx
      · exact erase_keeps j x hx
      · subst hx; exact Or.inr rfl
    · cases h
  | cbFinal d =>
    simp only [step] at h
    split at h
    · rename_i j hjd _
      cases h; exact cview_jobs_sub hv rfl rfl (fun _ hd => hd) (erase_keeps j)
    · cases h
  | cancelScan f =>
    simp only [step] at h
    split at h
    · rename_i hg
      obtain ⟨hfs, _, hhold⟩ := hg
      have hnk := not_key_of_cancellingF (holdsF_false_cancelling hhold)
      obtain ⟨k, ex, sc, rf⟩ := hv
      have hkeys : ∀ c : CSt, ((s.cancelling ++ [(f, c)]).map (·.1)).Nodup := by
        intro c
        simp only [List.map_append, List.map_cons, List.map_nil]
        refine List.nodup_append.mpr ⟨k, by simp, ?_⟩
        intro a ha b hb
        simp only [List.mem_singleton] at hb; subst hb
        obtain ⟨x, hx, rfl⟩ := List.mem_map.mp ha
        exact hnk x hx
      have hex : ∀ c : CSt, ∀ p ∈ s.cancelling ++ [(f, c)], ∀ nj, s.submitting = some nj → nj.fut ≠ p.1 := by
        intro c p hp nj hnj
        simp only [List.mem_append, List.mem_singleton] at hp
        rcases hp with hp | hp
        · exact ex p hp nj hnj
        · subst hp; exact holdsF_false_submitting hhold nj hnj
      split at h
      · cases h
        refine ⟨hkeys _, hex _, ?_, ?_⟩
        · intro g d b hm x hx hxf
          simp only [List.mem_append, List.mem_singleton] at hm
          rcases hm with hm | hm
          · exact sc g d b hm x hx hxf
          · cases hm
        · intro g hm x hx hxf d hd
          simp only [List.mem_append, List.mem_singleton] at hm
          rcases hm with hm | hm
          · exact rf g hm x hx hxf d hd
          · cases hm
      · rename_i j hsome
        obtain ⟨hj, hjf⟩ := jobOfFut_mem hsome
        split at h
        · cases h
          refine ⟨hkeys _, hex _, ?_, ?_⟩
          · intro g d b hm x hx hxf
            simp only [List.mem_append, List.mem_singleton] at hm
            rcases hm with hm | hm
            · exact sc g d b hm x (mem_erase_of hx) hxf
            · cases hm
          · intro g hm x hx hxf d hd
            simp only [List.mem_append, List.mem_singleton] at hm
            rcases hm with hm | hm
            · exact rf g hm x (mem_erase_of hx) hxf d hd
            · cases hm
        · rename_i dd hdel
          cases h
          refine ⟨hkeys _, hex _, ?_, ?_⟩
          · intro g d b hm x hx hxf
            obtain ⟨y, hy, rfl⟩ := List.mem_map.mp hx
            have hyf : y.fut = g := by split at hxf <;> simpa using hxf
            have hyd : (if y = j then { y with stop := true } else y).del = y.del := by split <;> rfl
            rw [hyd]
            simp only [List.mem_append, List.mem_singleton] at hm
            rcases hm with hm | hm
            · exact sc g d b hm y hy hyf
            · cases hm
              have : y = j := same_job_of_same_fut i1.r1 hy hj (hyf.trans hjf.symm)
              subst this; exact Or.inl hdel
          · intro g hm x hx hxf d hd
            obtain ⟨y, hy, rfl⟩ := List.mem_map.mp hx
            have hyf : y.fut = g := by split at hxf <;> simpa using hxf
            have hyd : (if y = j then { y with stop := true } else y).del = y.del := by split <;> rfl
            rw [hyd] at hd
            simp only [List.mem_append, List.mem_singleton] at hm
            rcases hm with hm | hm
            · exact rf g hm y hy hyf d hd
            · cases hm
    · cases h
  | cancelDel f b =>
    simp only [step] at h
    split at h
    · rename_i d popped hl
      have hmem := lookup_mem _ _ _ hl
      obtain ⟨k, ex, sc, rf⟩ := hv
      have hex : ∀ c : CSt, ∀ p ∈ s.cancelling.filter (fun p => p.1 != f) ++ [(f, c)], ∀ nj, s.submitting = some nj → nj.fut ≠ p.1 := by
        intro c p hp nj hnj
        simp only [List.mem_append, List.mem_singleton] at hp
        rcases hp with hp | hp
        · exact ex p (List.mem_filter.mp hp).1 nj hnj
        · subst hp; exact ex _ hmem nj hnj
      have hsc : ∀ c : CSt, (∀ d' b', c ≠ CSt.scanned (some d') b') → ∀ g d' b', (g, CSt.scanned (some d') b') ∈ s.cancelling.filter (fun p => p.1 != f) ++ [(f, c)] →
          ∀ j ∈ s.jobs, j.fut = g → j.del = some d' ∨ j.del = none := by
        intro c hc g d' b' hm x hx hxf
        simp only [List.mem_append, List.mem_singleton] at hm
        rcases hm with hm | hm
        · exact sc g d' b' (List.mem_filter.mp hm).1 x hx hxf
        · cases hm; exact absurd rfl (hc d' b')
      have hrfold : ∀ g, (g, CSt.delegated false) ∈ s.cancelling.filter (fun p => p.1 != f) →
          ∀ j ∈ s.jobs, j.fut = g → ∀ d', j.del = some d' → d' ∈ s.refused :=
        fun g hm x hx hxf d' hd' => rf g (List.mem_filter.mp hm).1 x hx hxf d' hd'
      split at h
      · split at h
        · cases h
          refine ⟨nodup_filter_append _ f _ k, hex _, hsc _ (by intro _ _ e; cases e), ?_⟩
          intro g hm x hx hxf d' hd'
          simp only [List.mem_append, List.mem_singleton] at hm
          rcases hm with hm | hm
          · exact hrfold g hm x hx hxf d' hd'
          · cases hm
        · split at h
          · cases h
          · cases h
            refine ⟨nodup_filter_append _ f _ k, hex _, hsc _ (by intro _ _ e; cases e), ?_⟩
            intro g hm x hx hxf d' hd'
            simp only [List.mem_append, List.mem_singleton] at hm
            rcases hm with hm | hm
            · exact hrfold g hm x hx hxf d' hd'
            · cases hm
      · split at h
        · cases h
        · cases h
          refine ⟨nodup_filter_append _ f _ k, hex _, hsc _ (by intro _ _ e; cases e), ?_⟩
          intro g hm x hx hxf d' hd'
          simp only [List.mem_append, List.mem_singleton] at hm
          rcases hm with hm | hm
          · exact List.mem_append_left _ (hrfold g hm x hx hxf d' hd')
          · cases hm
            rcases sc f d popped hmem x hx hxf with h1 | h1
            · rw [h1] at hd'; cases hd'; simp
            · rw [h1] at hd'; cases hd'
    · cases h
  | cancelEnd f =>
    simp only [step] at h
    obtain ⟨k, ex, sc, rf⟩ := hv
    have hsub : CancelView { s with cancelling := s.cancelling.filter (fun p => p.1 != f) } :=
      ⟨nodup_filter_keys _ _ k, fun p hp nj hnj => ex p (List.mem_filter.mp hp).1 nj hnj,
       fun g d b hm x hx hxf => sc g d b (List.mem_filter.mp hm).1 x hx hxf,
       fun g hm x hx hxf d hd => rf g (List.mem_filter.mp hm).1 x hx hxf d hd⟩
    split at h
    · cases h; exact ⟨hsub.keys, hsub.excl, hsub.scan, hsub.refd⟩
    · cases h; exact ⟨hsub.keys, hsub.excl, hsub.scan, hsub.refd⟩
    · cases h; exact hsub
    · cases h
  | tick t =>
    simp only [step] at h
    split at h
    · cases h; exact cview_jobs_sub hv rfl rfl (fun _ hd => hd) same_keeps
    · cases h


theorem kept_transfer {s s' : St} {f : Nat} (hk : Kept s f)
    (hdone : ∀ g ∈ s.done, g ∈ s'.done)
    (hjobs : ∀ j ∈ s.jobs, j.fut = f → (∃ j' ∈ s'.jobs, j'.fut = f) ∨ Kept s' f)
    (hsub : ∀ nj, s.submitting = some nj → nj.fut = f → Kept s' f)
    (hc : ∀ c, (f, c) ∈ s.cancelling → (f, c) ∈ s'.cancelling ∨ Kept s' f)
    (hdc : ∀ d ∈ s.delCancelled, d ∈ s'.delCancelled)
    (hm : ∀ d, (f, d) ∈ s.marks → (f, d) ∈ s'.marks ∨ Kept s' f) : Kept s' f := by
  rcases hk with h | ⟨j, hj, hjf⟩ | ⟨nj, hnj, hf⟩ | ⟨b, hb⟩ | h | ⟨d, b, hb, hd⟩ | ⟨d, hd⟩
  · exact Or.inl (hdone f h)
  · rcases hjobs j hj hjf with h | h
    · exact Or.inr (Or.inl h)
    · exact h
  · exact hsub nj hnj hf
  · rcases hc _ hb with h | h
    · exact Or.inr (Or.inr (Or.inr (Or.inl ⟨b, h⟩)))
    · exact h
  · rcases hc _ h with h | h
    · exact Or.inr (Or.inr (Or.inr (Or.inr (Or.inl h))))
    · exact h
  · rcases hc _ hb with h | h
    · exact Or.inr (Or.inr (Or.inr (Or.inr (Or.inr (Or.inl ⟨d, b, h, hdc d hd⟩)))))
    · exact h
  · rcases hm d hd with h | h
    · exact Or.inr (Or.inr (Or.inr (Or.inr (Or.inr (Or.inr ⟨d, h⟩)))))
    · exact h

theorem kept_job {s : St} {f : Nat} {j : Job} (hj : j ∈ s.jobs) (hf : j.fut = f) : Kept s f := Or.inr (Or.inl ⟨j, hj, hf⟩)

theorem cancelling_entry {s : St} {f : Nat} (h : cancellingF s f = true) : ∃ c, (f, c) ∈ s.cancelling := by
  simp only [cancellingF, List.any_eq_true] at h
  obtain ⟨p, hp, he⟩ := h
  have : p.1 = f := by simpa using he
  exact ⟨p.2, by rw [← this]; exact hp⟩

/-- owed `_me_delegate_cancelled` calls are for delegates that really are cancelled -/
def MarksOk (s : St) : Prop := ∀ p ∈ s.marks, p.2 ∈ s.delCancelled

theorem marksok_step (s : St) (a : Act) (s' : St) (hi : MarksOk s) (h : step s a = some s') : MarksOk s' := by
  have hmono := delCancelled_mono s a s' h
  cases a with
  | cbCancelled d =>
    simp only [step] at h
    split at h
    · split at h
      · rename_i hdc
        cases h
        intro p hp
        simp only [List.mem_append, List.mem_singleton] at hp
        rcases hp with hp | hp
        · exact hi p hp
        · subst hp; exact hdc
      · cases h
    · cases h
  | cbMark f d inl =>
    simp only [step] at h
    (repeat' split at h) <;> first
      | (cases h; intro p hp; first | exact hi p (List.mem_of_mem_erase hp) | (simp only; exact hi p (List.mem_of_mem_erase hp)))
      | cases h
  | submit f => simp only [step] at h; (repeat' split at h) <;> first | (cases h; exact hi) | cases h
  | submitNow j => simp only [step] at h; (repeat' split at h) <;> first | (cases h; exact hi) | cases h
  | submitApp => simp only [step] at h; (repeat' split at h) <;> first | (cases h; exact hi) | cases h
  | discard j => simp only [step] at h; (repeat' split at h) <;> first | (cases h; exact hi) | cases h
  | ddone d c =>
    simp only [step] at h
    split at h
    · cases h; intro p hp; simp only; split
      · exact List.mem_append_left _ (hi p hp)
      · exact hi p hp
    · cases h
  | cbPolicy d r => simp only [step] at h; (repeat' split at h) <;> first | (cases h; exact hi) | cases h
  | cbRetry d => simp only [step] at h; (repeat' split at h) <;> first | (cases h; exact hi) | cases h
  | cbFinal d => simp only [step] at h; (repeat' split at h) <;> first | (cases h; exact hi) | cases h
  | cancelScan f => simp only [step] at h; (repeat' split at h) <;> first | (cases h; exact hi) | cases h
  | cancelDel f b =>
    simp only [step] at h
    (repeat' split at h) <;> first
      | (cases h; exact hi)
      | (cases h; intro p hp; exact List.mem_append_left _ (hi p hp))
      | cases h
  | cancelEnd f => simp only [step] at h; (repeat' split at h) <;> first | (cases h; exact hi) | cases h
  | tick t => simp only [step] at h; (repeat' split at h) <;> first | (cases h; exact hi) | cases h

/-- the no-lost-future step: every handed-out future stays accounted for -/
theorem kept_step (s : St) (a : Act) (s' : St) (i1 : Inv1 s) (hv : CancelView s) (mk : MarksOk s)
    (hi : ∀ f ∈ s.submitted, Kept s f) (h : step s a = some s') : ∀ f ∈ s'.submitted, Kept s' f := by
  have keepm : ∀ {s'' : St} {f : Nat}, s''.marks = s.marks → ∀ d, (f, d) ∈ s.marks → (f, d) ∈ s''.marks ∨ Kept s'' f :=
    fun e d hd => Or.inl (by rw [e]; exact hd)
  cases a with
  | submit f0 =>
    simp only [step] at h
    split at h
    · cases h
    · cases h
      intro f hf
      simp only [List.mem_append, List.mem_singleton] at hf
      rcases hf with hf | hf
      · exact kept_transfer (hi f hf) (fun _ h => h) (fun j hj hjf => Or.inl ⟨j, List.mem_append_left _ hj, hjf⟩)
          (fun nj hnj hnf => Or.inr (Or.inr (Or.inl ⟨nj, hnj, hnf⟩))) (fun c hc => Or.inl hc) (fun _ h => h) (keepm rfl)
      · subst hf; exact kept_job (List.mem_append_right _ (List.mem_singleton.mpr rfl)) rfl
  | submitNow j =>
    simp only [step] at h
    split at h
    · rename_i hg
      obtain ⟨hj, _, _, _, _, hnone⟩ := hg
      split at h
      · rename_i hd
        cases h
        intro f hf
        refine kept_transfer (hi f hf) (fun _ h => h) ?_ (fun nj hnj hnf => Or.inr (Or.inr (Or.inl ⟨nj, hnj, hnf⟩)))
          (fun c hc => Or.inl hc) (fun _ h => h) (keepm rfl)
        intro x hx hxf
        by_cases e : x = j
        · subst e; subst hxf; exact Or.inr (Or.inl hd)
        · exact Or.inl ⟨x, (List.mem_erase_of_ne e).mpr hx, hxf⟩
      · cases h
        intro f hf
        refine kept_transfer (hi f hf) (fun _ h => h) ?_ (fun nj hnj _ => by rw [hnone] at hnj; cases hnj)
          (fun c hc => Or.inl hc) (fun _ h => h) (keepm rfl)
        intro x hx hxf
        by_cases e : x = j
        · subst e; exact Or.inr (Or.inr (Or.inr (Or.inl ⟨_, rfl, hxf⟩)))
        · exact Or.inl ⟨x, (List.mem_erase_of_ne e).mpr hx, hxf⟩
    · cases h
  | submitApp =>
    simp only [step] at h
    split at h
    · rename_i nj hnj
      cases h
      intro f hf
      refine kept_transfer (hi f hf) (fun _ h => h) (fun x hx hxf => Or.inl ⟨x, List.mem_append_left _ hx, hxf⟩) ?_
        (fun c hc => Or.inl hc) (fun _ h => h) (keepm rfl)
      intro nj' hnj' hnf
      rw [hnj] at hnj'; cases hnj'
      exact kept_job (List.mem_append_right _ (List.mem_singleton.mpr rfl)) hnf
    · cases h
  | discard j =>
    simp only [step] at h
    split at h
    · cases h
      intro f hf
      refine kept_transfer (hi f hf) (fun g hg => by simp only; split <;> simp [hg]) ?_
        (fun nj hnj hnf => Or.inr (Or.inr (Or.inl ⟨nj, hnj, hnf⟩))) (fun c hc => Or.inl hc) (fun _ h => h) (keepm rfl)
      intro x hx hxf
      by_cases e : x = j
      · subst e; subst hxf; exact Or.inr (Or.inl (by simp only; split <;> simp_all))
      · exact Or.inl ⟨x, (List.mem_erase_of_ne e).mpr hx, hxf⟩
    · cases h
  | ddone d c =>
    simp only [step] at h
    split at h
    · cases h
      intro f hf
      exact kept_transfer (hi f hf) (fun _ h => h) (fun x hx hxf => Or.inl ⟨x, hx, hxf⟩)
        (fun nj hnj hnf => Or.inr (Or.inr (Or.inl ⟨nj, hnj, hnf⟩))) (fun c hc => Or.inl hc)
        (fun g hg => by simp only; split <;> simp [hg]) (keepm rfl)
    · cases h
  | cbCancelled d =>
    simp only [step] at h
    split at h
    · rename_i j hjd
      split at h
      · cases h
        intro f hf
        refine kept_transfer (hi f hf) (fun _ h => h) ?_
          (fun nj hnj hnf => Or.inr (Or.inr (Or.inl ⟨nj, hnj, hnf⟩))) (fun c hc => Or.inl hc) (fun _ h => h)
          (fun d' hd' => Or.inl (List.mem_append_left _ hd'))
        intro x hx hxf
        by_cases e : x = j
        · subst e; subst hxf
          exact Or.inr (Or.inr (Or.inr (Or.inr (Or.inr (Or.inr (Or.inr ⟨d, List.mem_append_right _ (List.mem_singleton.mpr rfl)⟩))))))
        · exact Or.inl ⟨x, (List.mem_erase_of_ne e).mpr hx, hxf⟩
      · cases h
    · cases h
  | cbMark f0 d inl =>
    simp only [step] at h
    split at h
    · rename_i hmem
      have hdc : d ∈ s.delCancelled := mk _ hmem
      split at h
      · -- inline: the cancel() of f0 in progress found delegate d, which is cancelled
        split at h
        · rename_i d' popped hl
          split at h
          · rename_i hdd
            cases h
            subst hdd
            intro f hf
            refine kept_transfer (hi f hf) (fun _ h => h) (fun x hx hxf => Or.inl ⟨x, hx, hxf⟩)
              (fun nj hnj hnf => Or.inr (Or.inr (Or.inl ⟨nj, hnj, hnf⟩))) (fun c hc => Or.inl hc) (fun _ h => h) ?_
            intro d2 hd2
            by_cases e : (f, d2) = (f0, d')
            · cases e
              exact Or.inr (Or.inr (Or.inr (Or.inr (Or.inr (Or.inr (Or.inl ⟨d', popped, lookup_mem _ _ _ hl, hdc⟩))))))
            · exact Or.inl ((List.mem_erase_of_ne e).mpr hd2)
          · cases h
        · cases h
      · split at h
        · cases h
          intro f hf
          refine kept_transfer (hi f hf) (fun g hg => by simp only; split <;> simp [hg]) (fun x hx hxf => Or.inl ⟨x, hx, hxf⟩)
            (fun nj hnj hnf => Or.inr (Or.inr (Or.inl ⟨nj, hnj, hnf⟩))) (fun c hc => Or.inl hc) (fun _ h => h) ?_
          intro d2 hd2
          by_cases e : (f, d2) = (f0, d)
          · cases e
            exact Or.inr (Or.inl (by simp only; split <;> simp_all))
          · exact Or.inl ((List.mem_erase_of_ne e).mpr hd2)
        · cases h
    · cases h
  | cbPolicy d r =>
    simp only [step] at h
    have same : ∀ (s'' : St), s''.jobs = s.jobs → s''.done = s.done → s''.submitting = s.submitting → s''.cancelling = s.cancelling →
        s''.delCancelled = s.delCancelled → s''.submitted = s.submitted → s''.marks = s.marks → ∀ f ∈ s''.submitted, Kept s'' f := by
      intro s'' e1 e2 e3 e4 e5 e6 e7 f hf
      rw [e6] at hf
      exact kept_transfer (hi f hf) (fun g hg => by rw [e2]; exact hg) (fun x hx hxf => Or.inl ⟨x, by rw [e1]; exact hx, hxf⟩)
        (fun nj hnj hnf => Or.inr (Or.inr (Or.inl ⟨nj, by rw [e3]; exact hnj, hnf⟩))) (fun c hc => Or.inl (by rw [e4]; exact hc))
        (fun g hg => by rw [e5]; exact hg) (fun d hd => Or.inl (by rw [e7]; exact hd))
    split at h
    · split at h
      · split at h
        · split at h
          · cases h; exact same _ rfl rfl rfl rfl rfl rfl rfl
          · cases h
        · cases h; exact same _ rfl rfl rfl rfl rfl rfl rfl
      · cases h
    · cases h
  | cbRetry d =>
    simp only [step] at h
    split at h
    · rename_i j t hjd _
      cases h
      intro f hf
      refine kept_transfer (hi f hf) (fun _ h => h) ?_ (fun nj hnj hnf => Or.inr (Or.inr (Or.inl ⟨nj, hnj, hnf⟩)))
        (fun c hc => Or.inl hc) (fun _ h => h) (keepm rfl)
      intro x hx hxf
      by_cases e : x = j
      · subst e; exact Or.inl ⟨_, List.mem_append_right _ (List.mem_singleton.mpr rfl), hxf⟩
      · exact Or.inl ⟨x, List.mem_append_left _ ((List.mem_erase_of_ne e).mpr hx), hxf⟩
    · cases h
  | cbFinal d =>
    simp only [step] at h
    split at h
    · rename_i j hjd _
      cases h
      intro f hf
      refine kept_transfer (hi f hf) (fun g hg => by simp only; split <;> simp [hg]) ?_
        (fun nj hnj hnf => Or.inr (Or.inr (Or.inl ⟨nj, hnj, hnf⟩))) (fun c hc => Or.inl hc) (fun _ h => h) (keepm rfl)
      intro x hx hxf
      by_cases e : x = j
      · subst e; subst hxf; exact Or.inr (Or.inl (by simp only; split <;> simp_all))
      · exact Or.inl ⟨x, (List.mem_erase_of_ne e).mpr hx, hxf⟩
    · cases h
  | cancelScan f0 =>
    simp only [step] at h
    split at h
    · split at h
      · cases h
        intro f hf
        exact kept_transfer (hi f hf) (fun _ h => h) (fun x hx hxf => Or.inl ⟨x, hx, hxf⟩)
          (fun nj hnj hnf => Or.inr (Or.inr (Or.inl ⟨nj, hnj, hnf⟩))) (fun c hc => Or.inl (List.mem_append_left _ hc)) (fun _ h => h)
          (keepm rfl)
      · rename_i j hsome
        obtain ⟨hj, hjf⟩ := jobOfFut_mem hsome
        split at h
        · cases h
          intro f hf
          refine kept_transfer (hi f hf) (fun _ h => h) ?_ (fun nj hnj hnf => Or.inr (Or.inr (Or.inl ⟨nj, hnj, hnf⟩)))
            (fun c hc => Or.inl (List.mem_append_left _ hc)) (fun _ h => h) (keepm rfl)
          intro x hx hxf
          by_cases e : x = j
          · subst e
            have : f0 = f := hjf.symm.trans hxf
            subst this
            exact Or.inr (Or.inr (Or.inr (Or.inr (Or.inl ⟨true, List.mem_append_right _ (List.mem_singleton.mpr rfl)⟩))))
          · exact Or.inl ⟨x, (List.mem_erase_of_ne e).mpr hx, hxf⟩
        · cases h
          intro f hf
          refine kept_transfer (hi f hf) (fun _ h => h) ?_ (fun nj hnj hnf => Or.inr (Or.inr (Or.inl ⟨nj, hnj, hnf⟩)))
            (fun c hc => Or.inl (List.mem_append_left _ hc)) (fun _ h => h) (keepm rfl)
          intro x hx hxf
          refine Or.inl ⟨_, List.mem_map_of_mem (f := fun y => if y = j then { y with stop := true } else y) hx, ?_⟩
          split <;> simpa using hxf
    · cases h
  | cancelDel f0 b =>
    simp only [step] at h
    split at h
    · rename_i d popped hl
      have huniq : ∀ c, (f0, c) ∈ s.cancelling → c = CSt.scanned (some d) popped := by
        intro c hc
        have := lookup_of_mem _ _ _ hv.keys hc
        rw [hl] at this; cases this; rfl
      have other : ∀ (s'' : St) (c0 : CSt), s''.jobs = s.jobs → s''.done = s.done → s''.submitting = s.submitting →
          s''.cancelling = s.cancelling.filter (fun p => p.1 != f0) ++ [(f0, c0)] → (∀ g ∈ s.delCancelled, g ∈ s''.delCancelled) →
          s''.marks = s.marks → ∀ f, f ≠ f0 → Kept s f → Kept s'' f := by
        intro s'' c0 e1 e2 e3 e4 e5 e7 f hne hk
        refine kept_transfer hk (fun g hg => by rw [e2]; exact hg) (fun x hx hxf => Or.inl ⟨x, by rw [e1]; exact hx, hxf⟩)
          (fun nj hnj hnf => Or.inr (Or.inr (Or.inl ⟨nj, by rw [e3]; exact hnj, hnf⟩))) ?_ e5
          (fun d hd => Or.inl (by rw [e7]; exact hd))
        intro c hc
        refine Or.inl ?_
        rw [e4]
        exact List.mem_append_left _ (List.mem_filter.mpr ⟨hc, by simpa using hne⟩)
      split at h
      · have tcase : ∀ (s'' : St), s''.jobs = s.jobs → s''.done = s.done → s''.submitting = s.submitting →
            s''.cancelling = s.cancelling.filter (fun p => p.1 != f0) ++ [(f0, CSt.delegated true)] →
            (∀ g ∈ s.delCancelled, g ∈ s''.delCancelled) → s''.submitted = s.submitted → s''.marks = s.marks →
            ∀ f ∈ s''.submitted, Kept s'' f := by
          intro s'' e1 e2 e3 e4 e5 e6 e7 f hf
          rw [e6] at hf
          by_cases hne : f = f0
          · subst hne
            exact Or.inr (Or.inr (Or.inr (Or.inr (Or.inl (by rw [e4]; exact List.mem_append_right _ (List.mem_singleton.mpr rfl))))))
          · exact other s'' _ e1 e2 e3 e4 e5 e7 f hne (hi f hf)
        split at h
        · cases h; exact tcase _ rfl rfl rfl rfl (fun _ h => h) rfl rfl
        · split at h
          · cases h
          · cases h; exact tcase _ rfl rfl rfl rfl (fun g hg => List.mem_append_left _ hg) rfl rfl
      · split at h
        · cases h
        · rename_i hnc
          cases h
          intro f hf
          by_cases hne : f = f0
          · subst hne
            rcases hi f hf with h | ⟨j, hj, hjf⟩ | ⟨nj, hnj, hnf⟩ | ⟨b', hb'⟩ | h | ⟨d', b', hb', hd'⟩ | ⟨d', hd'⟩
            · exact Or.inl h
            · exact kept_job hj hjf
            · exact Or.inr (Or.inr (Or.inl ⟨nj, hnj, hnf⟩))
            · have := huniq _ hb'; cases this
            · have := huniq _ h; cases this
            · have := huniq _ hb'; cases this; exact absurd hd' hnc
            · exact Or.inr (Or.inr (Or.inr (Or.inr (Or.inr (Or.inr ⟨d', hd'⟩)))))
          · exact other { s with cancelling := (s.cancelling.filter (fun p => p.1 != f0)) ++ [(f0, CSt.delegated false)], refused := s.refused ++ [d] } _ rfl rfl rfl rfl (fun _ h => h) rfl f hne (hi f hf)
    · cases h
  | cancelEnd f0 =>
    simp only [step] at h
    have other : ∀ (s'' : St), s''.jobs = s.jobs → (∀ g ∈ s.done, g ∈ s''.done) → s''.submitting = s.submitting →
        s''.cancelling = s.cancelling.filter (fun p => p.1 != f0) → s''.delCancelled = s.delCancelled → s''.marks = s.marks →
        ∀ f, f ≠ f0 → Kept s f → Kept s'' f := by
      intro s'' e1 e2 e3 e4 e5 e7 f hne hk
      refine kept_transfer hk e2 (fun x hx hxf => Or.inl ⟨x, by rw [e1]; exact hx, hxf⟩)
        (fun nj hnj hnf => Or.inr (Or.inr (Or.inl ⟨nj, by rw [e3]; exact hnj, hnf⟩))) ?_ (fun g hg => by rw [e5]; exact hg)
        (fun d hd => Or.inl (by rw [e7]; exact hd))
      intro c hc
      refine Or.inl ?_
      rw [e4]
      exact List.mem_filter.mpr ⟨hc, by simpa using hne⟩
    split at h
    · cases h
      intro f hf
      by_cases hne : f = f0
      · subst hne; exact Or.inl (by first | (simp only; split <;> simp_all) | (split <;> simp_all))
      · refine other _ ?_ (fun g hg => by first | (simp only; split <;> simp [hg]) | (split <;> simp [hg])) ?_ ?_ ?_ ?_ f hne (hi f hf) <;> rfl
    · cases h
      intro f hf
      by_cases hne : f = f0
      · subst hne; exact Or.inl (by first | (simp only; split <;> simp_all) | (split <;> simp_all))
      · refine other _ ?_ (fun g hg => by first | (simp only; split <;> simp [hg]) | (split <;> simp [hg])) ?_ ?_ ?_ ?_ f hne (hi f hf) <;> rfl
    · rename_i hl
      cases h
      have huniq : ∀ c, (f0, c) ∈ s.cancelling → c = CSt.delegated false := by
        intro c hc
        have := lookup_of_mem _ _ _ hv.keys hc
        rw [hl] at this; cases this; rfl
      intro f hf
      by_cases hne : f = f0
      · subst hne
        rcases hi f hf with h | ⟨j, hj, hjf⟩ | ⟨nj, hnj, hnf⟩ | ⟨b', hb'⟩ | h | ⟨d', b', hb', hd'⟩ | ⟨d', hd'⟩
        · exact Or.inl h
        · exact kept_job hj hjf
        · exact Or.inr (Or.inr (Or.inl ⟨nj, hnj, hnf⟩))
        · have := huniq _ hb'; cases this
        · have := huniq _ h; cases this
        · have := huniq _ hb'; cases this
        · exact Or.inr (Or.inr (Or.inr (Or.inr (Or.inr (Or.inr ⟨d', hd'⟩)))))
      · exact other { s with cancelling := s.cancelling.filter (fun p => p.1 != f0) } rfl (fun _ h => h) rfl rfl rfl rfl f hne (hi f hf)
    · cases h
  | tick t =>
    simp only [step] at h
    split at h
    · cases h
      intro f hf
      exact kept_transfer (hi f hf) (fun _ h => h) (fun x hx hxf => Or.inl ⟨x, hx, hxf⟩)
        (fun nj hnj hnf => Or.inr (Or.inr (Or.inl ⟨nj, hnj, hnf⟩))) (fun c hc => Or.inl hc) (fun _ h => h) (keepm rfl)
    · cases h

/-- everything together -/
structure LInv (s : St) : Prop where
  inv : Inv s
  cs : CSub s
  cv : CancelView s
  mks : MarksOk s
  kept : ∀ f ∈ s.submitted, Kept s f

theorem linv_init : LInv init :=
  ⟨inv_init, by simp [CSub, init], ⟨by simp [init], by simp [init], by simp [init], by simp [init]⟩, by simp [MarksOk, init],
   by simp [init]⟩

theorem linv_step (s : St) (a : Act) (s' : St) (hi : LInv s) (h : step s a = some s') : LInv s' :=
  ⟨inv_step s a s' hi.inv h, csub_step s a s' hi.cs h, cview_step s a s' hi.inv.i1 hi.cs hi.cv h, marksok_step s a s' hi.mks h,
   kept_step s a s' hi.inv.i1 hi.cv hi.mks hi.kept h⟩

end MoreExec.Retry
