/- List lemmas used by the Retry invariants. -/
import MoreExec.Model.Retry

namespace MoreExec.Retry

theorem nodup_map_erase {l : List Job} (j : Job) (h : (l.map (·.fut)).Nodup) : ((l.erase j).map (·.fut)).Nodup :=
  List.Nodup.sublist ((List.erase_sublist (a := j) (l := l)).map _) h

/-- with one job per future, erasing j removes every job of j's future -/
theorem fut_ne_of_mem_erase {l : List Job} {j x : Job} (h : (l.map (·.fut)).Nodup) (hj : j ∈ l) (hx : x ∈ l.erase j) :
    x.fut ≠ j.fut := by
  induction l with
  | nil => cases hj
  | cons a t ih =>
    have hn : a.fut ∉ t.map (·.fut) ∧ (t.map (·.fut)).Nodup := List.nodup_cons.mp (by rw [List.map_cons] at h; exact h)
    by_cases haj : a = j
    · subst haj
      simp only [List.erase_cons_head] at hx
      intro e
      exact hn.1 (by rw [← e]; exact List.mem_map_of_mem hx)
    · have hjt : j ∈ t := by
        cases hj with
        | head => exact absurd rfl haj
        | tail _ h => exact h
      have : (a == j) = false := by simpa using haj
      simp only [List.erase_cons, this] at hx
      cases hx with
      | head =>
        intro e
        exact hn.1 (by rw [e]; exact List.mem_map_of_mem hjt)
      | tail _ hx' => exact ih hn.2 hjt hx'

theorem same_job_of_same_fut {l : List Job} {a b : Job} (h : (l.map (·.fut)).Nodup) (ha : a ∈ l) (hb : b ∈ l)
    (e : a.fut = b.fut) : a = b := by
  induction l with
  | nil => cases ha
  | cons x t ih =>
    have hn : x.fut ∉ t.map (·.fut) ∧ (t.map (·.fut)).Nodup := List.nodup_cons.mp (by rw [List.map_cons] at h; exact h)
    cases ha with
    | head =>
      cases hb with
      | head => rfl
      | tail _ hb' => exact absurd (by rw [e]; exact List.mem_map_of_mem hb') hn.1
    | tail _ ha' =>
      cases hb with
      | head => exact absurd (by rw [← e]; exact List.mem_map_of_mem ha') hn.1
      | tail _ hb' => exact ih hn.2 ha' hb'

theorem nodup_erase_append {l : List Job} {j j' : Job} (h : (l.map (·.fut)).Nodup) (hj : j ∈ l) (e : j'.fut = j.fut) :
    ((l.erase j ++ [j']).map (·.fut)).Nodup := by
  simp only [List.map_append, List.map_cons, List.map_nil]
  refine List.nodup_append.mpr ⟨nodup_map_erase j h, by simp, ?_⟩
  intro a ha b hb
  simp only [List.mem_singleton] at hb
  subst hb
  obtain ⟨x, hx, rfl⟩ := List.mem_map.mp ha
  rw [e]
  exact fut_ne_of_mem_erase h hj hx

theorem jobOfDel_mem {s : St} {d : Nat} {j : Job} (h : jobOfDel s d = some j) : j ∈ s.jobs ∧ j.del = some d := by
  unfold jobOfDel at h
  exact ⟨List.mem_of_find?_eq_some h, by simpa using List.find?_some h⟩

theorem jobOfFut_mem {s : St} {f : Nat} {j : Job} (h : jobOfFut s f = some j) : j ∈ s.jobs ∧ j.fut = f := by
  unfold jobOfFut at h
  exact ⟨List.mem_of_find?_eq_some h, by simpa using List.find?_some h⟩

theorem jobOfFut_none {s : St} {f : Nat} (h : jobOfFut s f = none) : ∀ j ∈ s.jobs, j.fut ≠ f := by
  unfold jobOfFut at h
  intro j hj
  have := List.find?_eq_none.mp h j hj
  simpa using this

end MoreExec.Retry
