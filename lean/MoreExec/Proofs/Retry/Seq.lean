/- Invariant bundle 2 of the Retry model: every delegate future that is not done is the delegate of a job of the
   future it was created for.  With "one job per future" this gives sequential attempts (C05). -/
import MoreExec.Proofs.Retry.Cancel

namespace MoreExec.Retry

/-- delegate p.1, created for future p.2, is the delegate of a job of that future — in the list, or about to be appended by
`_submit_now` (the window between its two sections) -/
def LiveAt (s : St) (p : Nat × Nat) : Prop :=
  (∃ j ∈ s.jobs, j.del = some p.1 ∧ j.fut = p.2) ∨ (∃ nj, s.submitting = some nj ∧ nj.del = some p.1 ∧ nj.fut = p.2)

structure Inv2 (s : St) : Prop where
  live : ∀ p ∈ s.delFut, p.1 ∉ s.delDone → LiveAt s p
  canc : ∀ d ∈ s.delCancelled, d ∈ s.delDone
  decd : ∀ p ∈ s.decs, p.1 ∈ s.delDone

theorem inv2_init : Inv2 init := by constructor <;> simp [init]

theorem lookup_mem {α : Type} (l : List (Nat × α)) (d : Nat) (v : α) (h : l.lookup d = some v) : (d, v) ∈ l := by
  induction l with
  | nil => simp at h
  | cons p t ih =>
    obtain ⟨k, w⟩ := p
    simp only [List.lookup_cons] at h
    split at h
    · rename_i he
      have : d = k := by simpa using he
      cases h; subst this; simp
    · exact List.mem_cons_of_mem _ (ih h)

/-- erasing a job whose delegate (if any) is done keeps every live delegate's job -/
theorem live_erase (s : St) (j : Job) (h : ∀ p ∈ s.delFut, p.1 ∉ s.delDone → LiveAt s p)
    (hd : ∀ d, j.del = some d → d ∈ s.delDone) :
    ∀ p ∈ s.delFut, p.1 ∉ s.delDone →
      (∃ x ∈ s.jobs.erase j, x.del = some p.1 ∧ x.fut = p.2) ∨ (∃ nj, s.submitting = some nj ∧ nj.del = some p.1 ∧ nj.fut = p.2) := by
  intro p hp hnd
  cases h p hp hnd with
  | inl hl =>
    obtain ⟨x, hx, hxd, hxf⟩ := hl
    have hne : x ≠ j := by
      intro e; subst e
      exact hnd (hd _ hxd)
    exact Or.inl ⟨x, (List.mem_erase_of_ne hne).mpr hx, hxd, hxf⟩
  | inr hr => exact Or.inr hr

/-- the same, followed by an append -/
theorem live_erase_append (s : St) (j nj : Job) (h : ∀ p ∈ s.delFut, p.1 ∉ s.delDone → LiveAt s p)
    (hd : ∀ d, j.del = some d → d ∈ s.delDone) :
    ∀ p ∈ s.delFut, p.1 ∉ s.delDone →
      (∃ x ∈ s.jobs.erase j ++ [nj], x.del = some p.1 ∧ x.fut = p.2) ∨ (∃ nj, s.submitting = some nj ∧ nj.del = some p.1 ∧ nj.fut = p.2) :=
  fun p hp hnd => (live_erase s j h hd p hp hnd).imp (fun ⟨x, hx, hxd⟩ => ⟨x, List.mem_append_left _ hx, hxd⟩) id

theorem inv2_step (s : St) (a : Act) (s' : St) (hi : Inv2 s) (h : step s a = some s') : Inv2 s' := by
  obtain ⟨h1, h2, h3⟩ := hi
  cases a with
  | submit f =>
    simp only [step] at h
    split at h
    · cases h
    · cases h
      refine ⟨?_, h2, h3⟩
      intro p hp hnd
      exact (h1 p hp hnd).imp (fun ⟨x, hx, hxd⟩ => ⟨x, List.mem_append_left _ hx, hxd⟩) id
  | submitNow j =>
    simp only [step] at h
    split at h
    · rename_i hg
      obtain ⟨hj, hdel, _, _, _, hnone⟩ := hg
      split at h
      · cases h
        exact ⟨live_erase s j h1 (by intro d hd; rw [hdel] at hd; cases hd), h2, h3⟩
      · cases h
        refine ⟨?_, h2, h3⟩
        intro p hp hnd
        simp only [List.mem_append, List.mem_singleton] at hp
        cases hp with
        | inl hp =>
          cases live_erase s j h1 (by intro d hd; rw [hdel] at hd; cases hd) p hp hnd with
          | inl hl => exact Or.inl hl
          | inr hr => obtain ⟨nj, hnj, _⟩ := hr; rw [hnone] at hnj; cases hnj
        | inr hp =>
          subst hp
          exact Or.inr ⟨_, rfl, rfl, rfl⟩
    · cases h
  | submitApp =>
    simp only [step] at h
    split at h
    · rename_i nj hnj
      cases h
      refine ⟨?_, h2, h3⟩
      intro p hp hnd
      cases h1 p hp hnd with
      | inl hl => obtain ⟨x, hx, hxd⟩ := hl; exact Or.inl ⟨x, List.mem_append_left _ hx, hxd⟩
      | inr hr =>
        obtain ⟨nj', hnj', hd'⟩ := hr
        rw [hnj] at hnj'; cases hnj'
        exact Or.inl ⟨nj, List.mem_append_right _ (List.mem_singleton.mpr rfl), hd'⟩
    · cases h
  | discard j =>
    simp only [step] at h
    split at h
    · rename_i hg
      cases h
      exact ⟨live_erase s j h1 (by intro d hd; rw [hg.2.1] at hd; cases hd), h2, h3⟩
    · cases h
  | ddone d c =>
    simp only [step] at h
    split at h
    · cases h
      refine ⟨?_, ?_, ?_⟩
      · intro p hp hnd
        exact h1 p hp (fun hm => hnd (List.mem_append_left _ hm))
      · intro x hx
        split at hx
        · simp only [List.mem_append, List.mem_singleton] at hx
          cases hx with
          | inl hx => exact List.mem_append_left _ (h2 x hx)
          | inr hx => subst hx; simp
        · exact List.mem_append_left _ (h2 x hx)
      · intro p hp; exact List.mem_append_left _ (h3 p hp)
    · cases h
  | cbCancelled d =>
    simp only [step] at h
    split at h
    · rename_i j hjd
      split at h
      · rename_i hc
        cases h
        obtain ⟨_, hjdel⟩ := jobOfDel_mem hjd
        exact ⟨live_erase s j h1 (by intro d' hd'; rw [hjdel] at hd'; cases hd'; exact h2 _ hc), h2, h3⟩
      · cases h
    · cases h
  | cbMark f d inl =>
    simp only [step] at h
    (repeat' split at h) <;> first
      | (cases h; exact ⟨h1, h2, h3⟩)
      | cases h
  | cbPolicy d r =>
    simp only [step] at h
    split at h
    · split at h
      · rename_i hg
        split at h
        · split at h
          · cases h
            refine ⟨h1, h2, ?_⟩
            intro p hp; simp only [List.mem_append, List.mem_singleton] at hp
            cases hp with
            | inl hp => exact h3 p hp
            | inr hp => subst hp; exact hg.1
          · cases h
        · cases h
          refine ⟨h1, h2, ?_⟩
          intro p hp; simp only [List.mem_append, List.mem_singleton] at hp
          cases hp with
          | inl hp => exact h3 p hp
          | inr hp => subst hp; exact hg.1
      · cases h
    · cases h
  | cbRetry d =>
    simp only [step] at h
    split at h
    · rename_i j t hjd hdec
      cases h
      obtain ⟨_, hjdel⟩ := jobOfDel_mem hjd
      have hdd : d ∈ s.delDone := h3 _ (lookup_mem _ _ _ hdec)
      exact ⟨live_erase_append s j _ h1 (by intro d' hd'; rw [hjdel] at hd'; cases hd'; exact hdd), h2,
             fun p hp => h3 p (List.mem_filter.mp hp).1⟩
    · cases h
  | cbFinal d =>
    simp only [step] at h
    split at h
    · rename_i j hjd hdec
      cases h
      obtain ⟨_, hjdel⟩ := jobOfDel_mem hjd
      have hdd : d ∈ s.delDone := h3 _ (lookup_mem _ _ _ hdec)
      exact ⟨live_erase s j h1 (by intro d' hd'; rw [hjdel] at hd'; cases hd'; exact hdd), h2,
             fun p hp => h3 p (List.mem_filter.mp hp).1⟩
    · cases h
  | cancelScan f =>
    simp only [step] at h
    split at h
    · split at h
      · cases h; exact ⟨h1, h2, h3⟩
      · rename_i j hsome
        split at h
        · rename_i hdel
          cases h
          exact ⟨live_erase s j h1 (by intro d hd; rw [hdel] at hd; cases hd), h2, h3⟩
        · cases h
          refine ⟨?_, h2, h3⟩
          intro p hp hnd
          cases h1 p hp hnd with
          | inr hr => exact Or.inr hr
          | inl hl =>
            obtain ⟨x, hx, hxd, hxf⟩ := hl
            refine Or.inl ⟨_, List.mem_map_of_mem (f := fun x => if x = j then { x with stop := true } else x) hx, ?_, ?_⟩
            · split <;> simpa using hxd
            · split <;> simpa using hxf
    · cases h
  | cancelDel f b =>
    simp only [step] at h
    split at h
    · split at h
      · split at h
        · cases h; exact ⟨h1, h2, h3⟩
        · split at h
          · cases h
          · cases h
            refine ⟨?_, ?_, ?_⟩
            · intro p hp hnd
              exact h1 p hp (fun hm => hnd (List.mem_append_left _ hm))
            · intro x hx
              simp only [List.mem_append, List.mem_singleton] at hx
              cases hx with
              | inl hx => exact List.mem_append_left _ (h2 x hx)
              | inr hx => subst hx; simp
            · intro p hp; exact List.mem_append_left _ (h3 p hp)
      · split at h
        · cases h
        · cases h; exact ⟨h1, h2, h3⟩
    · cases h
  | cancelEnd f =>
    simp only [step] at h
    split at h
    · cases h; exact ⟨h1, h2, h3⟩
    · cases h; exact ⟨h1, h2, h3⟩
    · cases h; exact ⟨h1, h2, h3⟩
    · cases h
  | tick t =>
    simp only [step] at h
    split at h
    · cases h; exact ⟨h1, h2, h3⟩
    · cases h

end MoreExec.Retry
