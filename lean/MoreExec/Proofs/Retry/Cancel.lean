/- Invariant bundle 1 of the Retry model: one job per future; a future on which a cancel scan has run only has
   jobs carrying stop_retry.  Consequence (C06): no delegate.submit for it ever again. -/
import MoreExec.Proofs.Retry.Lists

namespace MoreExec.Retry

/-- the window of `_submit_now` between its pop and its append: the future of the in-flight job was handed out, no cancel
scan has run on it (and none can: the submit thread holds its lock), and it has no job in the list -/
def SG (s : St) : Prop :=
  ∀ nj, s.submitting = some nj → nj.fut ∈ s.submitted ∧ nj.fut ∉ s.cancelReq ∧ (∀ x ∈ s.jobs, x.fut ≠ nj.fut)

structure Inv1 (s : St) : Prop where
  r1 : (s.jobs.map (·.fut)).Nodup
  sub : ∀ j ∈ s.jobs, j.fut ∈ s.submitted
  csub : ∀ f ∈ s.cancelReq, f ∈ s.submitted
  stop : ∀ f ∈ s.cancelReq, ∀ j ∈ s.jobs, j.fut = f → j.stop = true
  sg : SG s

theorem inv1_init : Inv1 init := by constructor <;> simp [init, SG]

theorem mem_erase_of {l : List Job} {j x : Job} (h : x ∈ l.erase j) : x ∈ l := List.mem_of_mem_erase h

/-- steps that keep the window, the cancel requests, and add no job of a new future -/
theorem sg_mono {s s' : St} (h : SG s) (e1 : s'.submitting = s.submitting) (e2 : ∀ f ∈ s.submitted, f ∈ s'.submitted)
    (e3 : s'.cancelReq = s.cancelReq) (e4 : ∀ x ∈ s'.jobs, ∃ y ∈ s.jobs, y.fut = x.fut) : SG s' := by
  intro nj hnj
  rw [e1] at hnj
  obtain ⟨a, b, c⟩ := h nj hnj
  refine ⟨e2 _ a, by rw [e3]; exact b, ?_⟩
  intro x hx
  obtain ⟨y, hy, hyx⟩ := e4 x hx
  rw [← hyx]; exact c y hy

theorem holdsF_false_submitting {s : St} {f : Nat} (h : holdsF s f = false) : ∀ nj, s.submitting = some nj → nj.fut ≠ f := by
  intro nj hnj
  simp only [holdsF, cancellingF, hnj, Option.any_some, Bool.or_eq_false_iff] at h
  simpa using h.2

/-- the scan section of a cancel() on f: needs f's lock, so f is not the future in the window -/
theorem sg_cancel {s s' : St} (h : SG s) (f : Nat) (hf : holdsF s f = false) (e1 : s'.submitting = s.submitting)
    (e2 : s'.submitted = s.submitted) (e3 : s'.cancelReq = s.cancelReq ++ [f])
    (e4 : ∀ x ∈ s'.jobs, ∃ y ∈ s.jobs, y.fut = x.fut) : SG s' := by
  intro nj hnj
  rw [e1] at hnj
  obtain ⟨a, b, c⟩ := h nj hnj
  refine ⟨by rw [e2]; exact a, ?_, ?_⟩
  · rw [e3]; simp only [List.mem_append, List.mem_singleton, not_or]
    exact ⟨b, holdsF_false_submitting hf nj hnj⟩
  · intro x hx
    obtain ⟨y, hy, hyx⟩ := e4 x hx
    rw [← hyx]; exact c y hy

theorem erase_sub {l : List Job} (j : Job) : ∀ x ∈ l.erase j, ∃ y ∈ l, y.fut = x.fut :=
  fun x hx => ⟨x, mem_erase_of hx, rfl⟩

theorem inv1_step (s : St) (a : Act) (s' : St) (hi : Inv1 s) (h : step s a = some s') : Inv1 s' := by
  obtain ⟨h1, h2, h3, h4, h5⟩ := hi
  cases a with
  | submit f =>
    simp only [step] at h
    split at h
    · cases h
    · rename_i hf
      cases h
      refine ⟨?_, ?_, ?_, ?_, ?_⟩
      · simp only [List.map_append, List.map_cons, List.map_nil]
        refine List.nodup_append.mpr ⟨h1, by simp, ?_⟩
        intro a ha b hb
        simp only [List.mem_singleton] at hb; subst hb
        obtain ⟨x, hx, rfl⟩ := List.mem_map.mp ha
        exact fun e => hf (e ▸ h2 x hx)
      · intro j hj
        simp only [List.mem_append, List.mem_singleton] at hj
        cases hj with
        | inl hj => exact List.mem_append_left _ (h2 j hj)
        | inr hj => subst hj; simp
      · intro g hg; exact List.mem_append_left _ (h3 g hg)
      · intro g hg j hj e
        simp only [List.mem_append, List.mem_singleton] at hj
        cases hj with
        | inl hj => exact h4 g hg j hj e
        | inr hj => subst hj; simp only at e; subst e; exact absurd (h3 _ hg) hf
      · intro nj hnj
        obtain ⟨a, b, c⟩ := h5 nj hnj
        refine ⟨List.mem_append_left _ a, b, ?_⟩
        intro x hx
        simp only [List.mem_append, List.mem_singleton] at hx
        cases hx with
        | inl hx => exact c x hx
        | inr hx => subst hx; simp only; exact fun e => hf (e ▸ a)
  | submitNow j =>
    simp only [step] at h
    split at h
    · rename_i hg
      obtain ⟨hj, hdel, hstop, _, _, hnone⟩ := hg
      split at h
      · cases h
        exact ⟨nodup_map_erase j h1, fun x hx => h2 x (mem_erase_of hx), h3, fun g hg x hx e => h4 g hg x (mem_erase_of hx) e,
               sg_mono h5 rfl (fun _ hf => hf) rfl (erase_sub j)⟩
      · cases h
        refine ⟨nodup_map_erase j h1, fun x hx => h2 x (mem_erase_of hx), h3, fun g hg x hx e => h4 g hg x (mem_erase_of hx) e, ?_⟩
        intro nj hnj
        simp only [Option.some.injEq] at hnj
        subst hnj
        refine ⟨h2 j hj, ?_, fun x hx => fut_ne_of_mem_erase (j := j) h1 hj hx⟩
        intro hc
        have := h4 j.fut hc j hj rfl
        rw [hstop] at this; cases this
    · cases h
  | submitApp =>
    simp only [step] at h
    split at h
    · rename_i nj hnj
      cases h
      obtain ⟨a, b, c⟩ := h5 nj hnj
      refine ⟨?_, ?_, h3, ?_, ?_⟩
      · simp only [List.map_append, List.map_cons, List.map_nil]
        refine List.nodup_append.mpr ⟨h1, by simp, ?_⟩
        intro a ha b hb
        simp only [List.mem_singleton] at hb; subst hb
        obtain ⟨x, hx, rfl⟩ := List.mem_map.mp ha
        exact c x hx
      · intro x hx
        simp only [List.mem_append, List.mem_singleton] at hx
        cases hx with
        | inl hx => exact h2 x hx
        | inr hx => subst hx; exact a
      · intro g hg x hx e
        simp only [List.mem_append, List.mem_singleton] at hx
        cases hx with
        | inl hx => exact h4 g hg x hx e
        | inr hx => subst hx; subst e; exact absurd hg b
      · intro nj' hnj'; cases hnj'
    · cases h
  | discard j =>
    simp only [step] at h
    split at h
    · cases h
      exact ⟨nodup_map_erase j h1, fun x hx => h2 x (mem_erase_of hx), h3, fun g hg x hx e => h4 g hg x (mem_erase_of hx) e,
             sg_mono h5 rfl (fun _ hf => hf) rfl (erase_sub j)⟩
    · cases h
  | ddone d c =>
    simp only [step] at h
    split at h
    · cases h; exact ⟨h1, h2, h3, h4, sg_mono h5 rfl (fun _ hf => hf) rfl (fun x hx => ⟨x, hx, rfl⟩)⟩
    · cases h
  | cbCancelled d =>
    simp only [step] at h
    split at h
    · rename_i j hjd
      split at h
      · cases h
        exact ⟨nodup_map_erase j h1, fun x hx => h2 x (mem_erase_of hx), h3, fun g hg x hx e => h4 g hg x (mem_erase_of hx) e,
               sg_mono h5 rfl (fun _ hf => hf) rfl (erase_sub j)⟩
      · cases h
    · cases h
  | cbMark f d inl =>
    simp only [step] at h
    (repeat' split at h) <;> first
      | (cases h; exact ⟨h1, h2, h3, h4, sg_mono h5 rfl (fun _ hf => hf) rfl (fun x hx => ⟨x, hx, rfl⟩)⟩)
      | cases h
  | cbPolicy d r =>
    simp only [step] at h
    split at h
    · split at h
      · split at h
        · split at h
          · cases h; exact ⟨h1, h2, h3, h4, sg_mono h5 rfl (fun _ hf => hf) rfl (fun x hx => ⟨x, hx, rfl⟩)⟩
          · cases h
        · cases h; exact ⟨h1, h2, h3, h4, sg_mono h5 rfl (fun _ hf => hf) rfl (fun x hx => ⟨x, hx, rfl⟩)⟩
      · cases h
    · cases h
  | cbRetry d =>
    simp only [step] at h
    split at h
    · rename_i j t hjd _
      cases h
      obtain ⟨hj, _⟩ := jobOfDel_mem hjd
      refine ⟨nodup_erase_append h1 hj rfl, ?_, h3, ?_, ?_⟩
      · intro x hx
        simp only [List.mem_append, List.mem_singleton] at hx
        cases hx with
        | inl hx => exact h2 x (mem_erase_of hx)
        | inr hx => subst hx; exact h2 j hj
      · intro g hg x hx e
        simp only [List.mem_append, List.mem_singleton] at hx
        cases hx with
        | inl hx => exact h4 g hg x (mem_erase_of hx) e
        | inr hx => subst hx; simp only at e; exact h4 g hg j hj e
      · refine sg_mono h5 rfl (fun _ hf => hf) rfl ?_
        intro x hx
        simp only [List.mem_append, List.mem_singleton] at hx
        cases hx with
        | inl hx => exact ⟨x, mem_erase_of hx, rfl⟩
        | inr hx => subst hx; exact ⟨j, hj, rfl⟩
    · cases h
  | cbFinal d =>
    simp only [step] at h
    split at h
    · rename_i j hjd _
      cases h
      exact ⟨nodup_map_erase j h1, fun x hx => h2 x (mem_erase_of hx), h3, fun g hg x hx e => h4 g hg x (mem_erase_of hx) e,
             sg_mono h5 rfl (fun _ hf => hf) rfl (erase_sub j)⟩
    · cases h
  | cancelScan f =>
    simp only [step] at h
    split at h
    · rename_i hg
      obtain ⟨hfs, _, hhold⟩ := hg
      split at h
      · rename_i hnone
        cases h
        refine ⟨h1, h2, ?_, ?_, sg_cancel h5 f hhold rfl rfl rfl (fun x hx => ⟨x, hx, rfl⟩)⟩
        · intro g hg; simp only [List.mem_append, List.mem_singleton] at hg
          cases hg with
          | inl hg => exact h3 g hg
          | inr hg => subst hg; exact hfs
        · intro g hg x hx e
          simp only [List.mem_append, List.mem_singleton] at hg
          cases hg with
          | inl hg => exact h4 g hg x hx e
          | inr hg => subst hg; exact absurd e (jobOfFut_none hnone x hx)
      · rename_i j hsome
        obtain ⟨hj, hjf⟩ := jobOfFut_mem hsome
        split at h
        · cases h
          refine ⟨nodup_map_erase j h1, fun x hx => h2 x (mem_erase_of hx), ?_, ?_,
                  sg_cancel h5 f hhold rfl rfl rfl (erase_sub j)⟩
          · intro g hg; simp only [List.mem_append, List.mem_singleton] at hg
            cases hg with
            | inl hg => exact h3 g hg
            | inr hg => subst hg; exact hfs
          · intro g hg x hx e
            simp only [List.mem_append, List.mem_singleton] at hg
            cases hg with
            | inl hg => exact h4 g hg x (mem_erase_of hx) e
            | inr hg =>
              subst hg
              exact absurd (e.trans hjf.symm) (fut_ne_of_mem_erase h1 hj hx)
        · cases h
          refine ⟨?_, ?_, ?_, ?_, ?_⟩
          · have : (s.jobs.map (fun x => if x = j then { x with stop := true } else x)).map (·.fut) = s.jobs.map (·.fut) := by
              rw [List.map_map]; apply List.map_congr_left; intro x _; simp only [Function.comp]; split <;> rfl
            rw [this]; exact h1
          · intro x hx
            obtain ⟨y, hy, rfl⟩ := List.mem_map.mp hx
            have := h2 y hy
            split <;> simpa using this
          · intro g hg; simp only [List.mem_append, List.mem_singleton] at hg
            cases hg with
            | inl hg => exact h3 g hg
            | inr hg => subst hg; exact hfs
          · intro g hg x hx e
            obtain ⟨y, hy, rfl⟩ := List.mem_map.mp hx
            simp only [List.mem_append, List.mem_singleton] at hg
            by_cases hyj : y = j
            · simp [hyj]
            · simp only [hyj, ↓reduceIte] at e ⊢
              cases hg with
              | inl hg => exact h4 g hg y hy e
              | inr hg =>
                subst hg
                exact absurd (same_job_of_same_fut h1 hy hj (e.trans hjf.symm)) hyj
          · refine sg_cancel h5 f hhold rfl rfl rfl ?_
            intro x hx
            obtain ⟨y, hy, rfl⟩ := List.mem_map.mp hx
            exact ⟨y, hy, by split <;> rfl⟩
    · cases h
  | cancelDel f b =>
    simp only [step] at h
    split at h
    · split at h
      · split at h
        · cases h; exact ⟨h1, h2, h3, h4, sg_mono h5 rfl (fun _ hf => hf) rfl (fun x hx => ⟨x, hx, rfl⟩)⟩
        · split at h
          · cases h
          · cases h; exact ⟨h1, h2, h3, h4, sg_mono h5 rfl (fun _ hf => hf) rfl (fun x hx => ⟨x, hx, rfl⟩)⟩
      · split at h
        · cases h
        · cases h; exact ⟨h1, h2, h3, h4, sg_mono h5 rfl (fun _ hf => hf) rfl (fun x hx => ⟨x, hx, rfl⟩)⟩
    · cases h
  | cancelEnd f =>
    simp only [step] at h
    split at h
    · cases h; exact ⟨h1, h2, h3, h4, sg_mono h5 rfl (fun _ hf => hf) rfl (fun x hx => ⟨x, hx, rfl⟩)⟩
    · cases h; exact ⟨h1, h2, h3, h4, sg_mono h5 rfl (fun _ hf => hf) rfl (fun x hx => ⟨x, hx, rfl⟩)⟩
    · cases h; exact ⟨h1, h2, h3, h4, sg_mono h5 rfl (fun _ hf => hf) rfl (fun x hx => ⟨x, hx, rfl⟩)⟩
    · cases h
  | tick t =>
    simp only [step] at h
    split at h
    · cases h; exact ⟨h1, h2, h3, h4, sg_mono h5 rfl (fun _ hf => hf) rfl (fun x hx => ⟨x, hx, rfl⟩)⟩
    · cases h

end MoreExec.Retry
