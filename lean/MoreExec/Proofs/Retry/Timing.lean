/- Invariant bundle 3 of the Retry model: attempt accounting and back-off bookkeeping. -/
import MoreExec.Proofs.Retry.Seq

namespace MoreExec.Retry

/-- number of `delegate.submit` calls made so far for future f -/
def nsub (s : St) (f : Nat) : Nat := (s.submits.filter (fun p => p.1 == f)).length

structure Inv3 (s : St) : Prop where
  past : ∀ p ∈ s.finished, p.2 ≤ s.now
  fin : ∀ d ∈ s.delDone, ∃ tf, (d, tf) ∈ s.finished
  due : ∀ j ∈ s.jobs, j.del = none → ∀ d, j.old = some d →
          ∃ t0 sl tf, (j.fut, d, t0, sl) ∈ s.retries ∧ j.whenT = t0 + sl ∧ (d, tf) ∈ s.finished ∧ tf ≤ t0
  att : ∀ j ∈ s.jobs, j.attempt = nsub s j.fut
  atts : ∀ nj, s.submitting = some nj → nj.attempt = nsub s nj.fut ∧ nj.del ≠ none
  subm : ∀ p ∈ s.submits, p.1 ∈ s.submitted

theorem inv3_init : Inv3 init := by constructor <;> simp [init]

theorem nsub_of_not_submitted (s : St) (f : Nat) (h : ∀ p ∈ s.submits, p.1 ∈ s.submitted) (hf : f ∉ s.submitted) : nsub s f = 0 := by
  unfold nsub
  rw [List.length_eq_zero_iff, List.filter_eq_nil_iff]
  intro p hp
  have := h p hp
  intro e
  have : p.1 = f := by simpa using e
  exact hf (this ▸ h p hp)

/-- steps that change neither jobs' relevant fields nor the logs -/
theorem inv3_step (s : St) (a : Act) (s' : St) (i1 : Inv1 s) (i2 : Inv2 s) (hi : Inv3 s) (h : step s a = some s') : Inv3 s' := by
  obtain ⟨h1, h2, h3, h4, h6, h5⟩ := hi
  cases a with
  | submit f =>
    simp only [step] at h
    split at h
    · cases h
    · rename_i hf
      cases h
      refine ⟨h1, h2, ?_, ?_, h6, fun p hp => List.mem_append_left _ (h5 p hp)⟩
      · intro j hj hd d ho
        simp only [List.mem_append, List.mem_singleton] at hj
        cases hj with
        | inl hj => exact h3 j hj hd d ho
        | inr hj => subst hj; cases ho
      · intro j hj
        simp only [List.mem_append, List.mem_singleton] at hj
        cases hj with
        | inl hj => exact h4 j hj
        | inr hj => subst hj; exact (nsub_of_not_submitted s f h5 hf).symm
  | submitNow j =>
    simp only [step] at h
    split at h
    · rename_i hg
      obtain ⟨hj, hdel, _, _, _, hnone⟩ := hg
      split at h
      · cases h
        exact ⟨h1, h2, fun x hx => h3 x (mem_erase_of hx), fun x hx => h4 x (mem_erase_of hx), h6, h5⟩
      · cases h
        refine ⟨h1, h2, fun x hx => h3 x (mem_erase_of hx), ?_, ?_, ?_⟩
        · intro x hx
          have hne := fut_ne_of_mem_erase i1.r1 hj hx
          have := h4 x (mem_erase_of hx)
          simp only [nsub, List.filter_append, List.filter_cons, List.filter_nil, List.length_append] at this ⊢
          have hb : (j.fut == x.fut) = false := by simpa using fun e => hne e.symm
          simp [hb, this]
        · intro nj hnj
          simp only [Option.some.injEq] at hnj
          subst hnj
          refine ⟨?_, by simp⟩
          have := h4 j hj
          simp only [nsub, List.filter_append, List.filter_cons, List.filter_nil, List.length_append] at this ⊢
          simp [this]
        · intro p hp
          simp only [List.mem_append, List.mem_singleton] at hp
          cases hp with
          | inl hp => exact h5 p hp
          | inr hp => subst hp; exact i1.sub j hj
    · cases h
  | submitApp =>
    simp only [step] at h
    split at h
    · rename_i nj hnj
      cases h
      refine ⟨h1, h2, ?_, ?_, ?_, h5⟩
      · intro x hx hd d ho
        simp only [List.mem_append, List.mem_singleton] at hx
        cases hx with
        | inl hx => exact h3 x hx hd d ho
        | inr hx =>
          subst hx
          exact absurd hd (h6 _ hnj).2
      · intro x hx
        simp only [List.mem_append, List.mem_singleton] at hx
        cases hx with
        | inl hx => exact h4 x hx
        | inr hx => subst hx; exact (h6 _ hnj).1
      · intro nj' hnj'; cases hnj'
    · cases h
  | discard j =>
    simp only [step] at h
    split at h
    · cases h
      exact ⟨h1, h2, fun x hx => h3 x (mem_erase_of hx), fun x hx => h4 x (mem_erase_of hx), h6, h5⟩
    · cases h
  | ddone d c =>
    simp only [step] at h
    split at h
    · cases h
      refine ⟨?_, ?_, ?_, h4, h6, h5⟩
      · intro p hp; simp only [List.mem_append, List.mem_singleton] at hp
        cases hp with
        | inl hp => exact h1 p hp
        | inr hp => subst hp; exact Nat.le_refl _
      · intro x hx; simp only [List.mem_append, List.mem_singleton] at hx
        cases hx with
        | inl hx => obtain ⟨tf, htf⟩ := h2 x hx; exact ⟨tf, List.mem_append_left _ htf⟩
        | inr hx => subst hx; exact ⟨s.now, by simp⟩
      · intro j hj hd d' ho
        obtain ⟨t0, sl, tf, a1, a2, a3, a4⟩ := h3 j hj hd d' ho
        exact ⟨t0, sl, tf, a1, a2, List.mem_append_left _ a3, a4⟩
    · cases h
  | cbCancelled d =>
    simp only [step] at h
    split at h
    · split at h
      · cases h
        exact ⟨h1, h2, fun x hx => h3 x (mem_erase_of hx), fun x hx => h4 x (mem_erase_of hx), h6, h5⟩
      · cases h
    · cases h
  | cbMark f d inl =>
    simp only [step] at h
    (repeat' split at h) <;> first
      | (cases h; exact ⟨h1, h2, h3, h4, h6, h5⟩)
      | cases h
  | cbPolicy d r =>
    simp only [step] at h
    split at h
    · split at h
      · split at h
        · split at h
          · cases h; exact ⟨h1, h2, h3, h4, h6, h5⟩
          · cases h
        · cases h; exact ⟨h1, h2, h3, h4, h6, h5⟩
      · cases h
    · cases h
  | cbRetry d =>
    simp only [step] at h
    split at h
    · rename_i j t hjd hdec
      cases h
      obtain ⟨hj, hjdel⟩ := jobOfDel_mem hjd
      have hdd : d ∈ s.delDone := i2.decd _ (lookup_mem _ _ _ hdec)
      obtain ⟨tf, htf⟩ := h2 d hdd
      refine ⟨h1, h2, ?_, ?_, h6, h5⟩
      · intro x hx hd d' ho
        simp only [List.mem_append, List.mem_singleton] at hx
        cases hx with
        | inl hx =>
          obtain ⟨t0, sl, tf', a1, a2, a3, a4⟩ := h3 x (mem_erase_of hx) hd d' ho
          exact ⟨t0, sl, tf', List.mem_append_left _ a1, a2, a3, a4⟩
        | inr hx =>
          subst hx
          simp only at ho; cases ho
          exact ⟨s.now, t, tf, List.mem_append_right _ (by simp), rfl, htf, h1 _ htf⟩
      · intro x hx
        simp only [List.mem_append, List.mem_singleton] at hx
        cases hx with
        | inl hx => exact h4 x (mem_erase_of hx)
        | inr hx => subst hx; exact h4 j hj
    · cases h
  | cbFinal d =>
    simp only [step] at h
    split at h
    · cases h
      exact ⟨h1, h2, fun x hx => h3 x (mem_erase_of hx), fun x hx => h4 x (mem_erase_of hx), h6, h5⟩
    · cases h
  | cancelScan f =>
    simp only [step] at h
    split at h
    · split at h
      · cases h; exact ⟨h1, h2, h3, h4, h6, h5⟩
      · rename_i j hsome
        split at h
        · cases h
          exact ⟨h1, h2, fun x hx => h3 x (mem_erase_of hx), fun x hx => h4 x (mem_erase_of hx), h6, h5⟩
        · cases h
          refine ⟨h1, h2, ?_, ?_, h6, h5⟩
          · intro x hx hd d' ho
            obtain ⟨y, hy, rfl⟩ := List.mem_map.mp hx
            have := h3 y hy
            split at hd <;> split at ho <;> split <;> simp_all
          · intro x hx
            obtain ⟨y, hy, rfl⟩ := List.mem_map.mp hx
            have := h4 y hy
            split <;> simpa [nsub] using this
    · cases h
  | cancelDel f b =>
    simp only [step] at h
    split at h
    · split at h
      · split at h
        · cases h; exact ⟨h1, h2, h3, h4, h6, h5⟩
        · split at h
          · cases h
          · cases h
            refine ⟨?_, ?_, ?_, h4, h6, h5⟩
            · intro p hp; simp only [List.mem_append, List.mem_singleton] at hp
              cases hp with
              | inl hp => exact h1 p hp
              | inr hp => subst hp; exact Nat.le_refl _
            · intro x hx; simp only [List.mem_append, List.mem_singleton] at hx
              cases hx with
              | inl hx => obtain ⟨tf, htf⟩ := h2 x hx; exact ⟨tf, List.mem_append_left _ htf⟩
              | inr hx => subst hx; exact ⟨s.now, by simp⟩
            · intro j hj hd d' ho
              obtain ⟨t0, sl, tf, a1, a2, a3, a4⟩ := h3 j hj hd d' ho
              exact ⟨t0, sl, tf, a1, a2, List.mem_append_left _ a3, a4⟩
      · split at h
        · cases h
        · cases h; exact ⟨h1, h2, h3, h4, h6, h5⟩
    · cases h
  | cancelEnd f =>
    simp only [step] at h
    split at h
    · cases h; exact ⟨h1, h2, h3, h4, h6, h5⟩
    · cases h; exact ⟨h1, h2, h3, h4, h6, h5⟩
    · cases h; exact ⟨h1, h2, h3, h4, h6, h5⟩
    · cases h
  | tick t =>
    simp only [step] at h
    split at h
    · rename_i hle
      cases h
      exact ⟨fun p hp => Nat.le_trans (h1 p hp) hle, h2, h3, h4, h6, h5⟩
    · cases h

/-- the three bundles together -/
structure Inv (s : St) : Prop where
  i1 : Inv1 s
  i2 : Inv2 s
  i3 : Inv3 s

theorem inv_init : Inv init := ⟨inv1_init, inv2_init, inv3_init⟩

theorem inv_step (s : St) (a : Act) (s' : St) (hi : Inv s) (h : step s a = some s') : Inv s' :=
  ⟨inv1_step s a s' hi.i1 h, inv2_step s a s' hi.i2 h, inv3_step s a s' hi.i1 hi.i2 hi.i3 h⟩

end MoreExec.Retry
