/- Facts about the regenerated kernels K1 (ExceptionRetryPolicy) and K2 (`_get_next_job`). -/
import MoreExec.Gen.K1
import MoreExec.Gen.K2

namespace MoreExec.Retry
open MoreExec.Gen

/-- a job the submit thread can act on now: no attempt in flight, and either stopped or due -/
def readyG (now : Nat) (j : GRJob) : Bool := !j.hasDelegate && (j.stopRetry || decide (j.when ≤ now))

/-- candidates for the timed wait: no attempt in flight -/
def waitingG (j : GRJob) : Bool := !j.hasDelegate

theorem loop_spec (now : Nat) (jobs : List GRJob) (m : Option GRJob)
    (hm : ∀ x, m = some x → waitingG x = true ∧ readyG now x = false) :
    (∀ r, (K2.getNextJob_loop1 now jobs m).1 = some r → r ∈ jobs ∧ readyG now r = true) ∧
    ((K2.getNextJob_loop1 now jobs m).1 = none →
        (∀ j ∈ jobs, readyG now j = false) ∧
        (∀ x, (K2.getNextJob_loop1 now jobs m).2 = some x → (m = some x ∨ x ∈ jobs) ∧ waitingG x = true ∧ readyG now x = false) ∧
        ((K2.getNextJob_loop1 now jobs m).2 = none → m = none ∧ ∀ j ∈ jobs, waitingG j = false) ∧
        (∀ x, (K2.getNextJob_loop1 now jobs m).2 = some x →
            (∀ y, m = some y → x.when ≤ y.when) ∧ ∀ j ∈ jobs, waitingG j = true → x.when ≤ j.when)) := by
  induction jobs generalizing m with
  | nil =>
    simp only [K2.getNextJob_loop1]
    refine ⟨by simp, fun _ => ⟨by simp, ?_, by simp, ?_⟩⟩
    · intro x hx; exact ⟨Or.inl hx, hm x hx⟩
    · intro x hx; exact ⟨fun y hy => by rw [hx] at hy; cases hy; exact Nat.le_refl _, by simp⟩
  | cons job rest ih =>
    unfold K2.getNextJob_loop1
    split
    · rename_i hd
      obtain ⟨a, b⟩ := ih m hm
      refine ⟨fun r hr => ⟨List.mem_cons_of_mem _ (a r hr).1, (a r hr).2⟩, fun hn => ?_⟩
      obtain ⟨b1, b2, b3, b4⟩ := b hn
      refine ⟨?_, ?_, ?_, ?_⟩
      · intro j hj; cases hj with
        | head => simp [readyG, hd]
        | tail _ hj => exact b1 j hj
      · intro x hx; obtain ⟨c1, c2⟩ := b2 x hx
        exact ⟨c1.imp id (List.mem_cons_of_mem _), c2⟩
      · intro hx; obtain ⟨c1, c2⟩ := b3 hx
        exact ⟨c1, fun j hj => by cases hj with | head => simp [waitingG, hd] | tail _ hj => exact c2 j hj⟩
      · intro x hx; obtain ⟨c1, c2⟩ := b4 x hx
        exact ⟨c1, fun j hj hw => by cases hj with | head => simp [waitingG, hd] at hw | tail _ hj => exact c2 j hj hw⟩
    · rename_i hd
      split
      · rename_i hs
        exact ⟨fun r hr => by cases hr; exact ⟨List.mem_cons_self, by simp [readyG, hd, hs]⟩, fun hn => by cases hn⟩
      · rename_i hs
        split
        · rename_i hw
          refine ⟨fun r hr => ?_, fun hn => by cases hn⟩
          cases hr
          refine ⟨List.mem_cons_self, ?_⟩
          have hle : job.when ≤ now := by simpa using hw
          simp [readyG, hd, hle]
        · rename_i hw
          have hjob : waitingG job = true ∧ readyG now job = false := by
            simp only [waitingG, readyG]; simp only [Bool.not_eq_true] at hd hs
            simp [hd, hs]; simpa using hw
          split
          · rename_i hmn
            have hmn' : m = none := by cases m <;> simp_all
            obtain ⟨a, b⟩ := ih (some job) (by intro x hx; cases hx; exact hjob)
            refine ⟨fun r hr => ⟨List.mem_cons_of_mem _ (a r hr).1, (a r hr).2⟩, fun hn => ?_⟩
            obtain ⟨b1, b2, b3, b4⟩ := b hn
            refine ⟨?_, ?_, ?_, ?_⟩
            · intro j hj; cases hj with
              | head => exact hjob.2
              | tail _ hj => exact b1 j hj
            · intro x hx; obtain ⟨c1, c2⟩ := b2 x hx
              refine ⟨Or.inr ?_, c2⟩
              cases c1 with
              | inl c1 => cases c1; exact List.mem_cons_self
              | inr c1 => exact List.mem_cons_of_mem _ c1
            · intro hx; obtain ⟨c1, _⟩ := b3 hx; cases c1
            · intro x hx; obtain ⟨c1, c2⟩ := b4 x hx
              refine ⟨fun y hy => (by rw [hmn'] at hy; cases hy), fun j hj hwj => ?_⟩
              cases hj with
              | head => exact c1 job rfl
              | tail _ hj => exact c2 j hj hwj
          · rename_i hmn
            obtain ⟨mj, hmj⟩ : ∃ mj, m = some mj := by cases m with | none => simp at hmn | some v => exact ⟨v, rfl⟩
            subst hmj
            split
            · rename_i hlt
              simp only [Option.map_some, Option.getD_some] at hlt
              have hlt' : job.when < mj.when := by simpa using hlt
              obtain ⟨a, b⟩ := ih (some job) (by intro x hx; cases hx; exact hjob)
              refine ⟨fun r hr => ⟨List.mem_cons_of_mem _ (a r hr).1, (a r hr).2⟩, fun hn => ?_⟩
              obtain ⟨b1, b2, b3, b4⟩ := b hn
              refine ⟨?_, ?_, ?_, ?_⟩
              · intro j hj; cases hj with
                | head => exact hjob.2
                | tail _ hj => exact b1 j hj
              · intro x hx; obtain ⟨c1, c2⟩ := b2 x hx
                refine ⟨Or.inr ?_, c2⟩
                cases c1 with
                | inl c1 => cases c1; exact List.mem_cons_self
                | inr c1 => exact List.mem_cons_of_mem _ c1
              · intro hx; obtain ⟨c1, _⟩ := b3 hx; cases c1
              · intro x hx; obtain ⟨c1, c2⟩ := b4 x hx
                refine ⟨fun y hy => (by cases hy; exact Nat.le_trans (c1 job rfl) (Nat.le_of_lt hlt')), fun j hj hwj => ?_⟩
                cases hj with
                | head => exact c1 job rfl
                | tail _ hj => exact c2 j hj hwj
            · rename_i hlt
              simp only [Option.map_some, Option.getD_some] at hlt
              have hlt' : mj.when ≤ job.when := by simpa using hlt
              obtain ⟨a, b⟩ := ih (some mj) hm
              refine ⟨fun r hr => ⟨List.mem_cons_of_mem _ (a r hr).1, (a r hr).2⟩, fun hn => ?_⟩
              obtain ⟨b1, b2, b3, b4⟩ := b hn
              refine ⟨?_, ?_, ?_, ?_⟩
              · intro j hj; cases hj with
                | head => exact hjob.2
                | tail _ hj => exact b1 j hj
              · intro x hx; obtain ⟨c1, c2⟩ := b2 x hx
                exact ⟨c1.imp id (List.mem_cons_of_mem _), c2⟩
              · intro hx; obtain ⟨c1, _⟩ := b3 hx; cases c1
              · intro x hx; obtain ⟨c1, c2⟩ := b4 x hx
                refine ⟨c1, fun j hj hwj => ?_⟩
                cases hj with
                | head => exact Nat.le_trans (c1 mj rfl) hlt'
                | tail _ hj => exact c2 j hj hwj

/-- `_get_next_job`: (1) whatever it returns is a job of the list with no attempt in flight; (2) if some job is ready
(stopped or due) it returns a ready job; (3) otherwise it returns a waiting job with the smallest due time, and
`none` only when no job is waiting. -/
theorem getNextJob_spec (jobs : List GRJob) (now : Nat) :
    (∀ r, K2.getNextJob jobs now = some r → r ∈ jobs ∧ waitingG r = true) ∧
    ((∃ j ∈ jobs, readyG now j = true) → ∃ r, K2.getNextJob jobs now = some r ∧ readyG now r = true) ∧
    ((∀ j ∈ jobs, readyG now j = false) →
        (∀ r, K2.getNextJob jobs now = some r → ∀ j ∈ jobs, waitingG j = true → r.when ≤ j.when) ∧
        (K2.getNextJob jobs now = none → ∀ j ∈ jobs, waitingG j = false)) := by
  obtain ⟨a, b⟩ := loop_spec now jobs none (by simp)
  simp only [K2.getNextJob]
  refine ⟨?_, ?_, ?_⟩
  · intro r hr
    split at hr
    · rename_i r' _ heq
      cases hr
      obtain ⟨c1, c2⟩ := a r (by rw [heq])
      exact ⟨c1, by simp only [readyG, Bool.and_eq_true] at c2; exact c2.1⟩
    · rename_i mj heq
      obtain ⟨_, b2, _, _⟩ := b (by rw [heq])
      obtain ⟨c1, c2, _⟩ := b2 r (by rw [heq]; exact hr)
      cases c1 with
      | inl c1 => cases c1
      | inr c1 => exact ⟨c1, c2⟩
  · intro ⟨j, hj, hr⟩
    split
    · rename_i r' _ heq
      exact ⟨r', rfl, (a r' (by rw [heq])).2⟩
    · rename_i mj heq
      obtain ⟨b1, _⟩ := b (by rw [heq])
      rw [b1 j hj] at hr; cases hr
  · intro hnr
    split
    · rename_i r' _ heq
      have := (a r' (by rw [heq])).2
      rw [hnr r' (a r' (by rw [heq])).1] at this; cases this
    · rename_i mj heq
      obtain ⟨_, _, b3, b4⟩ := b (by rw [heq])
      refine ⟨fun r hr => (b4 r (by rw [heq]; exact hr)).2, fun hn => (b3 (by rw [heq]; exact hn)).2⟩

/-- K1: the back-off formula of ExceptionRetryPolicy (attempt ≥ 1). -/
theorem sleepTime_spec (p : GPolicy) (k : Nat) :
    K1.sleepTime p k = min (p.sleep * p.exponent ^ (k - 1)) p.maxSleep := rfl

theorem shouldRetry_loop_spec (isinst : Nat → Bool) (base : List Nat) :
    (K1.shouldRetry_loop1 isinst base).1 = if base.any isinst then some true else none := by
  induction base with
  | nil => simp [K1.shouldRetry_loop1]
  | cons k rest ih =>
    unfold K1.shouldRetry_loop1
    split
    · rename_i h; simp [h]
    · rename_i h; simp [h, ih]

/-- K1: retry exactly when the attempt failed (with a truthy exception object), the attempt budget is not used up,
and the exception is an instance of one of the `exception_base` classes. -/
theorem shouldRetry_spec (p : GPolicy) (attempt : Nat) (exc : GExcOpt) (isinst : Nat → Bool) :
    K1.shouldRetry p attempt exc isinst = (excTruthy exc && decide (attempt < p.maxAttempts) && p.base.any isinst) := by
  unfold K1.shouldRetry
  simp only
  split
  · rename_i h; simp at h; simp [h]
  · rename_i h
    have he : excTruthy exc = true := by simpa using h
    split
    · rename_i h2
      have : ¬ attempt < p.maxAttempts := by simpa using h2
      simp [this]
    · rename_i h2
      have h2' : attempt < p.maxAttempts := by simpa using h2
      have hl := shouldRetry_loop_spec isinst p.base
      split
      · rename_i r _ heq
        rw [heq] at hl
        simp only at hl
        split at hl
        · rename_i hany; cases hl; simp [he, h2', hany]
        · cases hl
      · rename_i heq
        rw [heq] at hl
        simp only at hl
        split at hl
        · cases hl
        · rename_i hany; simp [he, h2', hany]

end MoreExec.Retry
