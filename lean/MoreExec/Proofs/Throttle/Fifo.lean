/- FIFO invariant of the Throttle model: hand-over order = submission order minus cancelled entries. -/
import MoreExec.Model.Throttle
import MoreExec.Proofs.Throttle.K4

namespace MoreExec.Throttle
open MoreExec.Gen

def live (s : St) : List Nat := s.enq.filter (fun k => !(s.cancelled.contains k))

structure FInv (s : St) : Prop where
  nodup : s.enq.Nodup
  sub : ∀ k, k ∈ s.cancelled → k ∈ s.enq
  order : s.handed ++ s.committed ++ s.queue = live s

theorem finv_init (c0 : Option Nat) : FInv (init c0) := by
  constructor <;> simp [init, live]

theorem live_nodup (s : St) (h : s.enq.Nodup) : (live s).Nodup := h.filter _

theorem erase_eq_filter_of_nodup (l : List Nat) (k : Nat) (h : l.Nodup) : l.erase k = l.filter (fun x => x != k) := by
  induction l with
  | nil => rfl
  | cons a t ih =>
    have hn := List.nodup_cons.mp h
    by_cases hak : a = k
    · subst hak
      simp only [List.erase_cons_head, bne_self_eq_false, Bool.false_eq_true, not_false_eq_true, List.filter_cons_of_neg]
      symm
      apply List.filter_eq_self.mpr
      intro x hx
      have : x ≠ a := fun e => hn.1 (e ▸ hx)
      simpa using this
    · have : (a == k) = false := by simpa using hak
      simp [this, ih hn.2, hak]

theorem finv_step (s : St) (a : Act) (s' : St) (hi : FInv s) (h : step s a = some s') : FInv s' := by
  obtain ⟨h1, h2, h3⟩ := hi
  cases a with
  | enqueue k =>
    simp only [step] at h
    split at h
    · cases h
    · rename_i hk
      cases h
      refine ⟨?_, ?_, ?_⟩
      · exact List.nodup_append.mpr ⟨h1, by simp, by intro a ha b hb; simp at hb; subst hb; exact fun e => hk (e ▸ ha)⟩
      · intro x hx; simp [h2 x hx]
      · have hkc : ¬ k ∈ s.cancelled := fun hc => hk (h2 k hc)
        simp only [live, List.filter_append, List.filter_cons, List.filter_nil] at *
        simp only [List.contains_eq_mem, hkc, decide_false, Bool.not_false, ↓reduceIte]
        simp only [List.contains_eq_mem] at h3
        rw [← h3]; simp
  | setE => simp only [step] at h; cases h; exact ⟨h1, h2, h3⟩
  | evalW r =>
    simp only [step] at h
    split at h
    · cases h; exact ⟨h1, h2, h3⟩
    · cases h
  | evalS r => simp only [step] at h; cases h; exact ⟨h1, h2, h3⟩
  | readW =>
    simp only [step] at h
    split at h
    · cases h; exact ⟨h1, h2, h3⟩
    · cases h
  | admitPart j =>
    simp only [step] at h
    split at h
    · split at h
      · rename_i hr
        cases h
        obtain ⟨k1, _⟩ := admit_spec (s.queue.take j) s.running s.wThrottle
        refine ⟨h1, h2, ?_⟩
        simp only [live] at *
        rw [← h3]
        rw [hr, List.append_nil] at k1
        rw [← k1]
        simp only [List.append_assoc, List.take_append_drop]
      · cases h
    · cases h
  | admitA =>
    simp only [step] at h
    split at h
    · cases h
      obtain ⟨k1, _⟩ := admit_spec s.queue s.running s.wThrottle
      refine ⟨h1, h2, ?_⟩
      simp only [live] at *
      rw [← h3]
      simp only [List.append_assoc]
      rw [← k1]
    · cases h
  | handOver k =>
    simp only [step] at h
    split at h
    · rename_i j rest hw hcm
      split at h
      · rename_i hjk
        cases h
        refine ⟨h1, h2, ?_⟩
        simp only [live] at *
        rw [← h3, hcm, hjk]; simp
      · cases h
    · cases h
  | handDone =>
    simp only [step] at h
    split at h
    · rename_i hw; cases h
      exact ⟨h1, h2, h3⟩
    · cases h
  | ddone k =>
    simp only [step] at h
    split at h
    · cases h; exact ⟨h1, h2, h3⟩
    · cases h
  | decr k =>
    simp only [step] at h
    split at h
    · cases h; exact ⟨h1, h2, h3⟩
    · cases h
  | cancelQ k =>
    simp only [step] at h
    split at h
    · rename_i hk
      cases h
      have hnd : (s.handed ++ s.committed ++ s.queue).Nodup := h3 ▸ live_nodup s h1
      have hkl : k ∈ live s := h3 ▸ (List.mem_append.mpr (Or.inr hk))
      refine ⟨h1, ?_, ?_⟩
      · intro x hx
        simp only [List.mem_append, List.mem_singleton] at hx
        cases hx with
        | inl hx => exact h2 x hx
        | inr hx => subst hx; exact (List.mem_filter.mp hkl).1
      · have hq : (s.handed ++ s.committed ++ s.queue).erase k = s.handed ++ s.committed ++ s.queue.erase k := by
          have hnot : k ∉ s.handed ++ s.committed := by
            intro hin
            exact (List.nodup_append.mp hnd).2.2 k hin k hk rfl
          rw [List.erase_append_right _ hnot]
        simp only [live] at *
        rw [← hq, erase_eq_filter_of_nodup _ _ hnd, h3, List.filter_filter]
        apply List.filter_congr
        intro x _
        by_cases hxk : x = k
        · simp [hxk]
        · simp [hxk]
    · cases h
  | waitE =>
    simp only [step] at h
    split at h
    · cases h; exact ⟨h1, h2, h3⟩
    · cases h
  | wake =>
    simp only [step] at h
    split at h
    · cases h; exact ⟨h1, h2, h3⟩
    · cases h
  | clearE =>
    simp only [step] at h
    split at h
    · cases h; exact ⟨h1, h2, h3⟩
    · cases h

end MoreExec.Throttle
