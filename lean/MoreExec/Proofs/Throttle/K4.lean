/- Facts about the regenerated admission loop `Gen.K4.admission` (throttle.py `_submit_loop_iter`). -/
import MoreExec.Gen.K4

namespace MoreExec.Throttle
open MoreExec.Gen

/-- What the admission loop does, for any queue, counter and throttle value: it takes a PREFIX of the queue,
counts each taken job once, stops only when the queue is empty or the counter has reached the throttle value,
and never lets the counter exceed the throttle value by taking a job. -/
theorem admit_loop_spec (th : Option Nat) (q ts : List Nat) (r d : Nat) :
    ∃ taken : List Nat,
      (K4.admission_loop1 th q ts r d).2.1 = ts ++ taken ∧
      q = taken ++ (K4.admission_loop1 th q ts r d).1 ∧
      (K4.admission_loop1 th q ts r d).2.2.1 = r + taken.length ∧
      (K4.admission_loop1 th q ts r d).2.2.2 = d + taken.length ∧
      ((K4.admission_loop1 th q ts r d).1 = [] ∨ ∃ c, th = some c ∧ (K4.admission_loop1 th q ts r d).2.2.1 ≥ c) ∧
      (∀ c, th = some c → taken ≠ [] → (K4.admission_loop1 th q ts r d).2.2.1 ≤ c) := by
  induction q generalizing ts r d with
  | nil => exact ⟨[], by simp [K4.admission_loop1]⟩
  | cons job rest ih =>
    unfold K4.admission_loop1
    split
    · rename_i h
      refine ⟨[], by simp, by simp, by simp, by simp, ?_, by simp⟩
      right
      cases th with
      | none => simp at h
      | some c => exact ⟨c, rfl, by simpa using h⟩
    · rename_i h
      obtain ⟨taken, h1, h2, h3, h4, h5, h6⟩ := ih (ts ++ [job]) (r + 1) (d + 1)
      refine ⟨job :: taken, ?_, ?_, ?_, ?_, h5, ?_⟩
      · simpa using h1
      · simpa using h2
      · simp only [h3, List.length_cons]; omega
      · simp only [h4, List.length_cons]; omega
      · intro c hc _
        cases taken with
        | nil =>
          subst hc
          simp only [h3, List.length_nil]
          simp at h
          omega
        | cons t ts' => exact h6 c hc (by simp)

theorem admit_spec (q : List Nat) (r : Nat) (th : Option Nat) :
    q = (K4.admission q r th).1 ++ (K4.admission q r th).2.1 ∧
    (K4.admission q r th).2.2.1 = r + (K4.admission q r th).1.length ∧
    (K4.admission q r th).2.2.2 = (K4.admission q r th).1.length ∧
    ((K4.admission q r th).2.1 = [] ∨ ∃ c, th = some c ∧ (K4.admission q r th).2.2.1 ≥ c) ∧
    (∀ c, th = some c → (K4.admission q r th).1 ≠ [] → (K4.admission q r th).2.2.1 ≤ c) := by
  obtain ⟨taken, h1, h2, h3, h4, h5, h6⟩ := admit_loop_spec th q [] r 0
  simp only [K4.admission]
  try simp only [ite_self]      -- a branch that only notifies (`if to_submit: notify_all()`) leaves both arms equal
  simp only [List.nil_append] at h1
  refine ⟨?_, ?_, ?_, h5, ?_⟩
  · rw [h1]; exact h2
  · rw [h1]; exact h3
  · rw [h1]; simpa using h4
  · intro c hc hne; rw [h1] at hne; exact h6 c hc hne

/-- the two loops generated from the same source section are the same function -/
theorem notifies_loop_eq (th : Option Nat) (q ts : List Nat) (r d : Nat) :
    K4.admissionNotifies_loop1 th q ts r d = K4.admission_loop1 th q ts r d := by
  induction q generalizing ts r d with
  | nil => simp [K4.admissionNotifies_loop1, K4.admission_loop1]
  | cons job rest ih =>
    unfold K4.admissionNotifies_loop1 K4.admission_loop1
    split
    · rfl
    · exact ih _ _ _

/-- (regenerated from `_submit_loop_iter`) the locked section notifies the submitters blocked in `_block_until_ready`
exactly when it has taken at least one job off the queue - i.e. whenever it made room. -/
theorem admissionNotifies_spec (q : List Nat) (r : Nat) (th : Option Nat) :
    K4.admissionNotifies q r th = !(K4.admission q r th).1.isEmpty := by
  simp only [K4.admissionNotifies, K4.admission, notifies_loop_eq]
  try simp only [ite_self]
  split <;> simp_all

end MoreExec.Throttle
