/- Static configuration: global bound and the sleep invariant (no idle capacity while the hand-over thread sleeps). -/
import MoreExec.Model.Throttle
import MoreExec.Proofs.Throttle.K4

namespace MoreExec.Throttle
open MoreExec.Gen

/-- the count callable is the constant `c` (what `ThrottleExecutor(count=c)` builds: `lambda: count`) -/
def StaticAct (c : Option Nat) : Act → Prop
  | .evalW r => r = some c
  | .evalS r => r = some c
  | _ => True

structure SInv (c : Option Nat) (s : St) : Prop where
  last : s.last = c
  wth : s.wpc ≠ .eval → s.wpc ≠ .read → s.wThrottle = c
  bound : ∀ n, c = some n → s.running ≤ n
  sleep : (s.wpc = .hand ∨ s.wpc = .wait ∨ s.wpc = .parked) → s.flag = false → s.pendingSet = 0 →
          (s.queue = [] ∨ ∃ n, c = some n ∧ s.running ≥ n)

theorem sinv_init (c : Option Nat) : SInv c (init c) := by
  constructor <;> simp [init]

theorem erase_nil_of_nil (q : List Nat) (k : Nat) (h : q = []) : q.erase k = [] := by subst h; rfl

theorem sinv_step (c : Option Nat) (s : St) (a : Act) (s' : St) (hs : StaticAct c a) (hi : SInv c s)
    (h : step s a = some s') : SInv c s' := by
  obtain ⟨h1, h2, h3, h4⟩ := hi
  cases a with
  | enqueue k =>
    simp only [step] at h
    split at h
    · cases h
    · cases h; exact ⟨h1, h2, h3, by intro _ _ hp; simp at hp⟩
  | setE => simp only [step] at h; cases h; exact ⟨h1, h2, h3, by intro _ hf; simp at hf⟩
  | evalW r =>
    simp only [step] at h
    split at h
    · cases h
      simp only [StaticAct] at hs
      subst hs
      exact ⟨by simp [evalThrottle], by simp, h3, by intro hp; simp at hp⟩
    · cases h
  | readW =>
    simp only [step] at h
    split at h
    · cases h
      exact ⟨h1, fun _ _ => h1, h3, by intro hp; simp at hp⟩
    · cases h
  | evalS r =>
    simp only [step] at h; cases h
    simp only [StaticAct] at hs
    subst hs
    exact ⟨by simp [evalThrottle], h2, h3, h4⟩
  | admitPart j =>
    simp only [step] at h
    split at h
    · rename_i hw
      split at h
      · cases h
        have hth : s.wThrottle = c := h2 (by rw [hw]; decide) (by rw [hw]; decide)
        obtain ⟨_, k2, _, _, k5⟩ := admit_spec (s.queue.take j) s.running s.wThrottle
        refine ⟨h1, fun _ _ => hth, ?_, by intro hp; simp [hw] at hp⟩
        intro n hn
        cases ht : (K4.admission (s.queue.take j) s.running s.wThrottle).1 with
        | nil =>
          simp only [k2, ht, List.length_nil, Nat.add_zero]
          exact h3 n hn
        | cons j r =>
          exact k5 n (by rw [hth, hn]) (by simp [ht])
      · cases h
    · cases h
  | admitA =>
    simp only [step] at h
    split at h
    · rename_i hw
      cases h
      have hth : s.wThrottle = c := h2 (by rw [hw]; decide) (by rw [hw]; decide)
      obtain ⟨_, k2, _, k4, k5⟩ := admit_spec s.queue s.running s.wThrottle
      refine ⟨h1, fun _ _ => hth, ?_, ?_⟩
      · intro n hn
        cases ht : (K4.admission s.queue s.running s.wThrottle).1 with
        | nil =>
          simp only [k2, ht, List.length_nil, Nat.add_zero]
          exact h3 n hn
        | cons j r =>
          exact k5 n (by rw [hth, hn]) (by simp [ht])
      · intro _ _ _
        cases k4 with
        | inl hq => exact Or.inl hq
        | inr hq =>
          obtain ⟨n, hn, hge⟩ := hq
          exact Or.inr ⟨n, by rw [← hth, hn], hge⟩
    · cases h
  | handOver k =>
    simp only [step] at h
    split at h
    · rename_i j rest hw hcm
      split at h
      · cases h
        exact ⟨h1, h2, h3, fun _ hf hp => h4 (Or.inl hw) hf hp⟩
      · cases h
    · cases h
  | handDone =>
    simp only [step] at h
    split at h
    · rename_i hw; cases h
      exact ⟨h1, fun _ _ => h2 (by rw [hw.1]; decide) (by rw [hw.1]; decide), h3, fun _ hf hp => h4 (Or.inl hw.1) hf hp⟩
    · cases h
  | ddone k =>
    simp only [step] at h
    split at h
    · cases h; exact ⟨h1, h2, h3, h4⟩
    · cases h
  | decr k =>
    simp only [step] at h
    split at h
    · cases h
      exact ⟨h1, h2, fun n hn => Nat.le_trans (Nat.sub_le _ _) (h3 n hn), by intro _ _ hp; simp at hp⟩
    · cases h
  | cancelQ k =>
    simp only [step] at h
    split at h
    · cases h
      refine ⟨h1, h2, h3, ?_⟩
      intro hp hf hz
      cases h4 hp hf hz with
      | inl hq => exact Or.inl (erase_nil_of_nil _ _ hq)
      | inr hq => exact Or.inr hq
    · cases h
  | waitE =>
    simp only [step] at h
    split at h
    · rename_i hw; cases h
      refine ⟨h1, fun _ _ => h2 (by rw [hw]; decide) (by rw [hw]; decide), h3, ?_⟩
      intro _ hf hp
      exact h4 (Or.inr (Or.inl hw)) hf hp
    · cases h
  | wake =>
    simp only [step] at h
    split at h
    · rename_i hw; cases h
      exact ⟨h1, fun _ _ => h2 (by rw [hw]; decide) (by rw [hw]; decide), h3, by intro hp; simp at hp⟩
    · cases h
  | clearE =>
    simp only [step] at h
    split at h
    · cases h
      exact ⟨h1, by simp, h3, by intro hp; simp at hp⟩
    · cases h

end MoreExec.Throttle
