/- Inductive invariants of the Throttle model. -/
import MoreExec.Model.Throttle
import MoreExec.Proofs.Throttle.K4

namespace MoreExec.Throttle
open MoreExec.Gen

/-- counting invariant + commit bound -/
structure Inv (s : St) : Prop where
  count : s.inflight.length + s.committed.length + s.undecr.length = s.running
  commitPc : s.committed ≠ [] → s.wpc = .hand ∨ s.wpc = .adm
  commitBound : s.committed ≠ [] → ∀ c, s.wThrottle = some c → s.running ≤ c

theorem inv_init (c0 : Option Nat) : Inv (init c0) := by
  constructor <;> simp [init]

theorem length_erase_mem (l : List Nat) (k : Nat) (h : k ∈ l) : (l.erase k).length + 1 = l.length := by
  have := List.length_erase_of_mem h
  have : 0 < l.length := List.length_pos_of_mem h
  omega

theorem committed_nil {s : St} (h2 : s.committed ≠ [] → s.wpc = .hand ∨ s.wpc = .adm) (hw : s.wpc ≠ .hand ∧ s.wpc ≠ .adm) :
    s.committed = [] := by
  cases hc : s.committed with
  | nil => rfl
  | cons j r =>
    cases h2 (by simp [hc]) with
    | inl h => exact absurd h hw.1
    | inr h => exact absurd h hw.2

theorem admit_common (s : St) (q1 : List Nat)
    (h1 : s.inflight.length + s.committed.length + s.undecr.length = s.running)
    (h3 : s.committed ≠ [] → ∀ c, s.wThrottle = some c → s.running ≤ c) :
    s.inflight.length + (s.committed ++ (K4.admission q1 s.running s.wThrottle).1).length + s.undecr.length
      = (K4.admission q1 s.running s.wThrottle).2.2.1 ∧
    (s.committed ++ (K4.admission q1 s.running s.wThrottle).1 ≠ [] → ∀ c, s.wThrottle = some c →
      (K4.admission q1 s.running s.wThrottle).2.2.1 ≤ c) := by
  obtain ⟨_, k2, _, _, k5⟩ := admit_spec q1 s.running s.wThrottle
  constructor
  · simp only [List.length_append, k2]; omega
  · intro hne c hcw
    cases ht : (K4.admission q1 s.running s.wThrottle).1 with
    | nil =>
      simp only [ht, List.append_nil] at hne
      simp only [k2, ht, List.length_nil, Nat.add_zero]
      exact h3 hne c hcw
    | cons j r => exact k5 c hcw (by simp [ht])

theorem inv_step (s : St) (a : Act) (s' : St) (hi : Inv s) (h : step s a = some s') : Inv s' := by
  obtain ⟨h1, h2, h3⟩ := hi
  cases a with
  | enqueue k =>
    simp only [step] at h
    split at h
    · cases h
    · cases h; exact ⟨h1, h2, h3⟩
  | setE => simp only [step] at h; cases h; exact ⟨h1, h2, h3⟩
  | evalW r =>
    simp only [step] at h
    split at h
    · rename_i hw
      cases h
      have hc : s.committed = [] := committed_nil h2 (by rw [hw]; decide)
      exact ⟨h1, by simp [hc], by simp [hc]⟩
    · cases h
  | readW =>
    simp only [step] at h
    split at h
    · rename_i hw
      cases h
      have hc : s.committed = [] := committed_nil h2 (by rw [hw]; decide)
      exact ⟨h1, by simp [hc], by simp [hc]⟩
    · cases h
  | evalS r => simp only [step] at h; cases h; exact ⟨h1, h2, h3⟩
  | admitPart j =>
    simp only [step] at h
    split at h
    · rename_i hw
      split at h
      · cases h
        obtain ⟨a1, a2⟩ := admit_common s (s.queue.take j) h1 h3
        exact ⟨a1, fun _ => Or.inr hw, a2⟩
      · cases h
    · cases h
  | admitA =>
    simp only [step] at h
    split at h
    · rename_i hw
      cases h
      obtain ⟨a1, a2⟩ := admit_common s s.queue h1 h3
      exact ⟨a1, fun _ => Or.inl rfl, a2⟩
    · cases h
  | handOver k =>
    simp only [step] at h
    split at h
    · rename_i j rest hw hcm
      split at h
      · cases h
        refine ⟨?_, ?_, ?_⟩
        · simp only [hcm, List.length_cons] at h1
          simp only [List.length_append, List.length_cons, List.length_nil]; omega
        · intro _; exact Or.inl hw
        · intro _ c hcw; exact h3 (by simp [hcm]) c hcw
      · cases h
    · cases h
  | handDone =>
    simp only [step] at h
    split at h
    · rename_i hw; cases h
      exact ⟨h1, by simp [hw.2], by simp [hw.2]⟩
    · cases h
  | ddone k =>
    simp only [step] at h
    split at h
    · rename_i hm; cases h
      refine ⟨?_, h2, h3⟩
      have := length_erase_mem _ _ hm
      simp only [List.length_append, List.length_cons, List.length_nil]; omega
    · cases h
  | decr k =>
    simp only [step] at h
    split at h
    · rename_i hm; cases h
      have := length_erase_mem _ _ hm
      refine ⟨by simp only; omega, h2, ?_⟩
      intro hne c hcw
      have := h3 hne c hcw
      simp only; omega
    · cases h
  | cancelQ k =>
    simp only [step] at h
    split at h
    · cases h; exact ⟨h1, h2, h3⟩
    · cases h
  | waitE =>
    simp only [step] at h
    split at h
    · rename_i hw; cases h
      have hc : s.committed = [] := committed_nil h2 (by rw [hw]; decide)
      exact ⟨h1, by simp [hc], by simp [hc]⟩
    · cases h
  | wake =>
    simp only [step] at h
    split at h
    · rename_i hw; cases h
      have hc : s.committed = [] := committed_nil h2 (by rw [hw]; decide)
      exact ⟨h1, by simp [hc], by simp [hc]⟩
    · cases h
  | clearE =>
    simp only [step] at h
    split at h
    · rename_i hw; cases h
      have hc : s.committed = [] := committed_nil h2 (by rw [hw]; decide)
      exact ⟨h1, by simp [hc], by simp [hc]⟩
    · cases h

end MoreExec.Throttle
