/-
  What the regenerated `_Future` protocol methods (Gen/K16, interpreted by Model/PyFut) do, from ANY state of the future:
  closed forms of every locked part, and the callback pass for callback lists of any length.
-/
import MoreExec.Gen.K16
import MoreExec.Model.PyFut

namespace MoreExec.PyFut
open MoreExec.MeFuture (FSt)
open MoreExec.Gen

/-! ### the callback pass -/

theorem tryLog_callCb (s : S) : exec (.tryLog .callCb) s = ({ s with invoked := s.invoked ++ [s.cur] }, .normal) := by
  simp only [exec]
  by_cases hr : s.raises s.cur <;> simp [hr]

theorem loop_all (body : S → S × Ctl) (hb : ∀ s, body s = ({ s with invoked := s.invoked ++ [s.cur] }, .normal)) (l : List Nat) (s : S) :
    loopCbs body l s = ({ s with cur := (l.getLast?).getD s.cur, invoked := s.invoked ++ l }, .normal) := by
  induction l generalizing s with
  | nil => simp [loopCbs]
  | cons c rest ih =>
    simp only [loopCbs, hb, ih]
    cases rest <;> simp [List.getLast?]

theorem exec_forCbs (b : Stmt) (s : S) : exec (.forCbs b) s = loopCbs (fun s' => exec b s') s.cbs s := by rw [exec]
theorem exec_invoke (b : Stmt) (s : S) :
    exec (.invoke b) s = (match exec b s with | (s1, .returned _) => (s1, .normal) | r => r) := by rw [exec]; rfl
theorem exec_seq (a b : Stmt) (s : S) : exec (.seq a b) s = (match exec a s with | (s1, .normal) => exec b s1 | r => r) := by rw [exec]; rfl

/-- **the regenerated callback pass calls every stored callback exactly once, in order, whichever of them raise, and then drops
the list** - for lists of any length -/
theorem invoke_all (s : S) :
    exec (.invoke K16.invokeBody) s =
      ({ s with cur := (s.cbs.getLast?).getD s.cur, invoked := s.invoked ++ s.cbs, cbs := [] }, .normal) := by
  rw [K16.invokeBody, exec_invoke, exec_seq, exec_forCbs, loop_all _ tryLog_callCb]
  simp [exec]

/-! ### the locked parts, from any state -/

macro "k16_simp" : tactic =>
  `(tactic| simp [exec, evalE, isDone, S.setVar])

/-- `add_done_callback`: test and append are one critical section; a pending future stores the callback and the method ends, a done
future is left untouched and the method goes on to its tail - which is the direct call `fn(self)`, outside the lock -/
theorem add_locked (s : S) :
    exec K16.addDoneCallback.locked s =
      (if s.st = .pending then ({ s with cbs := s.cbs ++ [s.fn] }, .returned none) else (s, .normal)) ∧
    K16.addDoneCallback.tail = .callFn := by
  refine ⟨?_, rfl⟩
  rw [K16.addDoneCallback]
  cases h : s.st <;> k16_simp <;> simp [h]

/-- `cancel()`: one critical section deciding among: already cancelled (True), already finished (False), `_me_cancel()` refuses
(False, nothing changes), and the winning cancel (state change + waiters notified, `out = True`); `_me_cancelling` is clear again
whenever the section ends; the tail runs the callback pass iff `out` and returns `out` -/
theorem cancel_locked (s : S) :
    exec K16.cancel.locked s =
      (match s.st with
       | .cancelled => (s, .returned (some true))
       | .finished => (s, .returned (some false))
       | .pending =>
           if s.meCancelAnswer then
             (({ s with st := .cancelled, notified := true, cancelling := false } : S).setVar K16.cancel_out true, .normal)
           else ({ s with cancelling := false }, .returned (some false))) ∧
    K16.cancel.tail =
      .seq (.ite (.var K16.cancel_out) (.invoke K16.invokeBody) .skip) (.ret (some (.var K16.cancel_out))) := by
  refine ⟨?_, rfl⟩
  rw [K16.cancel]
  cases h : s.st <;> cases hm : s.meCancelAnswer <;> k16_simp <;> simp [h, hm, K16.cancel_out]
  funext j; by_cases hj : j = 0 <;> simp [hj]

/-- `_me_delegate_cancelled()`: a no-op while this future's own `cancel()` is in progress or when it is already done; otherwise
the state change of a winning cancel, followed (outside the lock) by the callback pass -/
theorem delegate_cancelled_locked (s : S) :
    exec K16.meDelegateCancelled.locked s =
      (if s.cancelling || decide (s.st ≠ .pending) then (s, .returned none)
       else ({ s with st := .cancelled, notified := true }, .normal)) ∧
    K16.meDelegateCancelled.tail = .invoke K16.invokeBody := by
  refine ⟨?_, rfl⟩
  rw [K16.meDelegateCancelled]
  cases h : s.st <;> cases hc : s.cancelling <;> k16_simp <;> simp [h, hc]

/-- the plain setters (`_OutputFuture`, `MapFuture`, `RetryFuture`, `PollFuture.set_exception`): the stdlib setter under the lock,
then the callback pass; on a future that is already done the stdlib raises InvalidStateError, nothing changes and the tail is skipped -/
theorem plain_setter_locked (s : S) :
    exec Stmt.superSet s =
      (if s.st = .pending then ({ s with st := .finished, notified := true }, .normal) else (s, .raisedInvalidState)) := by
  cases h : s.st <;> k16_simp <;> simp [h]

theorem plain_setters :
    [K16.outputSetResult, K16.outputSetException, K16.mapSetResult, K16.mapSetException, K16.mapSetExceptionInfo,
     K16.pollSetException, K16.retryTerminate].all (fun m => m = ⟨.superSet, .invoke K16.invokeBody⟩) = true := by decide

/-- `PollFuture.set_result` / `set_exception_info`: a done future is left alone silently (first yield wins), otherwise as the plain setters -/
theorem poll_setter_locked (s : S) :
    exec K16.pollSetResult.locked s =
      (if s.st = .pending then ({ s with st := .finished, notified := true }, .normal) else (s, .returned none)) ∧
    K16.pollSetResult.tail = .invoke K16.invokeBody ∧ K16.pollSetExceptionInfo = K16.pollSetResult := by
  refine ⟨?_, rfl, by decide⟩
  rw [K16.pollSetResult]
  cases h : s.st <;> k16_simp <;> simp [h]

end MoreExec.PyFut
