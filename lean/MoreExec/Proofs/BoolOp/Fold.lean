import MoreExec.Model.BoolOp

namespace MoreExec.BoolOp
open MoreExec.Gen

/-- Exception objects are truthy (Python's default).  A falsy exception object is the known quirk S18. -/
def ExcTruthy (f : GIn) : Prop := ∀ e, f.exception = some e → e.truthy = true

theorem excTruthy_eq (f : GIn) (h : ExcTruthy f) : excTruthy f.exception = f.exception.isSome := by
  unfold excTruthy
  cases he : f.exception with
  | none => simp
  | some e => simp [h e he]

/-- One critical section, when the operation is still undecided. -/
theorem handleDone_undecided (k : Kind) (outId : Nat) (s : BSt) (f : GIn) (hd : s.done = false) (hx : ExcTruthy f) :
    let fs' := s.fs.erase f.id
    handleDone k outId s f =
      if decides k f || fs'.isEmpty then
        { fs := fs', done := true, out := some (outcomeOf f),
          cancels := s.cancels ++ fs' ++ (if f.cancelled then [outId] else []) }
      else { s with fs := fs' } := by
  have hexc := excTruthy_eq f hx
  cases k <;>
  · simp only [handleDone, hd, update, K5.orUpdate, K5.andUpdate, hexc, decides, truthyIn, falsyIn, outcomeOf]
    cases hc : f.cancelled <;> cases he : f.exception <;> cases ht : f.result.truthy <;>
      cases hempty : (s.fs.erase f.id).isEmpty <;> simp_all

theorem handleDone_decided (k : Kind) (outId : Nat) (s : BSt) (f : GIn) (hd : s.done = true) :
    handleDone k outId s f = s := by
  simp [handleDone, hd]

theorem foldl_decided (k : Kind) (outId : Nat) (s : BSt) (ins : List GIn) (hd : s.done = true) :
    ins.foldl (handleDone k outId) s = s := by
  induction ins generalizing s with
  | nil => rfl
  | cons f fs ih => simp only [List.foldl_cons, handleDone_decided k outId s f hd]; exact ih s hd

theorem spec_cons (k : Kind) (f : GIn) (rest : List GIn) :
    spec k (f :: rest) = if decides k f then some (outcomeOf f)
      else if rest = [] then some (outcomeOf f) else spec k rest := by
  cases k
  · simp only [spec, orSpec, decides]
    by_cases hdec : truthyIn f = true
    · simp [List.find?_cons, hdec]
    · simp only [Bool.not_eq_true] at hdec
      cases rest with
      | nil => simp [List.find?_cons, hdec]
      | cons g gs => simp [List.find?_cons, hdec, List.getLast?_cons_cons]
  · simp only [spec, andSpec, decides]
    by_cases hdec : falsyIn f = true
    · simp [List.find?_cons, hdec]
    · simp only [Bool.not_eq_true] at hdec
      cases rest with
      | nil => simp [List.find?_cons, hdec]
      | cons g gs => simp [List.find?_cons, hdec, List.getLast?_cons_cons]

/-- Fold over the remaining completions, from any undecided state whose key set is exactly the ids still to
come (distinct). -/
theorem fold_spec (k : Kind) (outId : Nat) (ins : List GIn) (s : BSt)
    (hne : ins ≠ []) (hd : s.done = false)
    (hnodup : (ins.map (·.id)).Nodup)
    (hfs : s.fs.Perm (ins.map (·.id)))
    (hx : ∀ f ∈ ins, ExcTruthy f) :
    (ins.foldl (handleDone k outId) s).out = spec k ins ∧ (ins.foldl (handleDone k outId) s).done = true := by
  induction ins generalizing s with
  | nil => exact absurd rfl hne
  | cons f rest ih =>
    simp only [List.foldl_cons]
    have hstep := handleDone_undecided k outId s f hd (hx f (List.mem_cons_self))
    simp only at hstep
    have hperm' : (s.fs.erase f.id).Perm (rest.map (·.id)) := by
      have := hfs.erase f.id
      simpa using this
    have hemp : (s.fs.erase f.id).isEmpty = decide (rest = []) := by
      have hl := hperm'.length_eq
      cases hr : rest with
      | nil =>
        subst hr
        have : (s.fs.erase f.id).length = 0 := by simpa using hl
        simp [List.length_eq_zero_iff.mp this]
      | cons g gs =>
        subst hr
        have : (s.fs.erase f.id).length = gs.length + 1 := by simpa using hl
        cases he : s.fs.erase f.id with
        | nil => simp [he] at this
        | cons a b => simp
    rw [spec_cons]
    by_cases hdec : decides k f = true
    · simp only [hdec, Bool.true_or, if_true] at hstep ⊢
      rw [hstep, foldl_decided _ _ _ _ rfl]
      exact ⟨rfl, rfl⟩
    · simp only [Bool.not_eq_true] at hdec
      by_cases hr : rest = []
      · subst hr
        simp only [hdec, hemp, decide_true, Bool.or_true, if_true] at hstep ⊢
        simp [hstep]
      · simp only [hdec, hemp, hr, decide_false, Bool.or_false, Bool.false_eq_true, if_false] at hstep ⊢
        rw [hstep]
        simp only [List.map_cons, List.nodup_cons] at hnodup
        exact ih _ hr hd hnodup.2 hperm' (fun g hg => hx g (List.mem_cons_of_mem _ hg))

end MoreExec.BoolOp

namespace MoreExec.BoolOp
open MoreExec.Gen

/-- Fold-level account of the cancel requests: the run decomposes as `pre ++ f :: post` where `f` is the deciding
completion; exactly the inputs still pending at the decision (`post`, in dict order) receive `cancel()`, plus
the output itself when the decider was a cancelled input. -/
theorem fold_cancels (k : Kind) (outId : Nat) (ins : List GIn) (s : BSt)
    (hne : ins ≠ []) (hd : s.done = false)
    (hnodup : (ins.map (·.id)).Nodup)
    (hfs : s.fs.Perm (ins.map (·.id)))
    (hx : ∀ f ∈ ins, ExcTruthy f) :
    ∃ pre f post, ins = pre ++ f :: post ∧ (∀ g ∈ pre, decides k g = false) ∧ (decides k f = true ∨ post = []) ∧
      ∃ cs, (ins.foldl (handleDone k outId) s).cancels = s.cancels ++ cs ++ (if f.cancelled then [outId] else []) ∧
        cs.Perm (post.map (·.id)) := by
  induction ins generalizing s with
  | nil => exact absurd rfl hne
  | cons f rest ih =>
    simp only [List.foldl_cons]
    have hstep := handleDone_undecided k outId s f hd (hx f (List.mem_cons_self))
    simp only at hstep
    have hperm' : (s.fs.erase f.id).Perm (rest.map (·.id)) := by
      have := hfs.erase f.id
      simpa using this
    by_cases hdec : decides k f = true
    · refine ⟨[], f, rest, rfl, by simp, Or.inl hdec, s.fs.erase f.id, ?_, hperm'⟩
      simp only [hdec, Bool.true_or, if_true] at hstep
      rw [hstep, foldl_decided _ _ _ _ rfl]
    · simp only [Bool.not_eq_true] at hdec
      by_cases hr : rest = []
      · subst hr
        have he : s.fs.erase f.id = [] := by
          have hl : (s.fs.erase f.id).length = 0 := by simpa using hperm'.length_eq
          exact List.length_eq_zero_iff.mp hl
        refine ⟨[], f, [], rfl, by simp, Or.inr rfl, [], ?_, by simp⟩
        simp only [hdec, he, List.isEmpty_nil, Bool.or_true, if_true] at hstep
        simp [hstep, he]
      · have hemp : (s.fs.erase f.id).isEmpty = false := by
          cases he : s.fs.erase f.id with
          | nil => rw [he] at hperm'; simp at hperm'; exact absurd hperm' hr
          | cons a b => rfl
        simp only [hdec, hemp, Bool.or_false, Bool.false_eq_true, if_false] at hstep
        rw [hstep]
        simp only [List.map_cons, List.nodup_cons] at hnodup
        obtain ⟨pre, g, post, h1, h2, h3, cs, h4, h5⟩ :=
          ih { s with fs := s.fs.erase f.id } hr hd hnodup.2 hperm' (fun g hg => hx g (List.mem_cons_of_mem _ hg))
        refine ⟨f :: pre, g, post, by simp [h1], ?_, h3, cs, h4, h5⟩
        intro x hxm
        rcases List.mem_cons.mp hxm with rfl | hxm
        · exact hdec
        · exact h2 x hxm

/-- A client's `cancel()` of the output while undecided: `chain_cancel` forwards it to every input. -/
def cancelOutput (allIds : List Nat) (s : BSt) : BSt :=
  if s.out.isSome then s
  else { s with out := some .cancelled, cancels := s.cancels ++ allIds }

theorem cancelOutput_fans_out (allIds : List Nat) (s : BSt) (h : s.out = none) :
    (cancelOutput allIds s).out = some .cancelled ∧ ∀ i ∈ allIds, i ∈ (cancelOutput allIds s).cancels := by
  simp [cancelOutput, h]
  intro i hi; exact Or.inr hi

/-! keys of the input dict: repeated inputs collapse -/

theorem keysOf_aux (args acc : List Nat) (hacc : acc.Nodup) :
    (args.foldl (fun acc i => if i ∈ acc then acc else acc ++ [i]) acc).Nodup ∧
    ∀ i, i ∈ args.foldl (fun acc i => if i ∈ acc then acc else acc ++ [i]) acc ↔ i ∈ acc ∨ i ∈ args := by
  induction args generalizing acc with
  | nil => simp [hacc]
  | cons a as ih =>
    simp only [List.foldl_cons]
    by_cases h : a ∈ acc
    · simp only [h, if_true]
      refine ⟨(ih acc hacc).1, fun i => ?_⟩
      rw [(ih acc hacc).2 i]; simp only [List.mem_cons]
      constructor
      · rintro (h1 | h1); exact Or.inl h1; exact Or.inr (Or.inr h1)
      · rintro (h1 | h1 | h1); exact Or.inl h1; exact Or.inl (h1 ▸ h); exact Or.inr h1
    · simp only [h, if_false]
      have hn : (acc ++ [a]).Nodup := by
        rw [List.nodup_append]; refine ⟨hacc, by simp, ?_⟩
        intro x hx y hy; simp at hy; subst hy; intro hxy; exact h (hxy ▸ hx)
      refine ⟨(ih _ hn).1, fun i => ?_⟩
      rw [(ih _ hn).2 i]; simp only [List.mem_append, List.mem_cons, List.not_mem_nil, or_false]
      constructor
      · rintro ((h1 | h1) | h1); exact Or.inl h1; exact Or.inr (Or.inl h1); exact Or.inr (Or.inr h1)
      · rintro (h1 | h1 | h1); exact Or.inl (Or.inl h1); exact Or.inl (Or.inr h1); exact Or.inr h1

theorem keysOf_nodup (args : List Nat) : (keysOf args).Nodup := (keysOf_aux args [] List.nodup_nil).1
theorem mem_keysOf (args : List Nat) (i : Nat) : i ∈ keysOf args ↔ i ∈ args := by
  rw [keysOf, (keysOf_aux args [] List.nodup_nil).2 i]; simp

end MoreExec.BoolOp
