/- part of the proof of `run_eq_resolve` (split over four modules so that they build in parallel) -/
import MoreExec.Proofs.MapFut.K15Defs

namespace MoreExec.PyMap
open MoreExec.MapFut MoreExec.Gen

set_option maxHeartbeats 1600000 in
theorem run_err_async (flat : Bool) (fn : Option (Val → FnRes)) (ef : Exc → FnRes) (e : Exc) :
    toRes (runCode ⟨flat, fn, some ef⟩ false (.err e)).1 = some (resolve ⟨flat, fn, some ef⟩ (.err e)) ∧
    (runCode ⟨flat, fn, some ef⟩ false (.err e)).2 = false := by
  cases flat <;> cases fn <;>
    (cases h : ef e with
     | retFut o => cases o <;> k15_simp h
     | _ => k15_simp h)

end MoreExec.PyMap
