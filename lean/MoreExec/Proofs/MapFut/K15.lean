/-
  The regenerated resolution code of MapFuture / FlatMapFuture (Gen/K15, interpreted by Model/PyMap) computes exactly the
  hand-written `MapFut.resolve`: same outcome, same calls of the user functions in the same order, and no exception escapes
  from `_delegate_resolved` (neither from the first call nor from the call made for the flattened future).
-/
import MoreExec.Gen.K15
import MoreExec.Model.PyMap

namespace MoreExec.PyMap
open MoreExec.MapFut MoreExec.Gen

/-- what the constructor stores in `_map_fn` -/
def slotOf (c : Cfg) : FnSlot :=
  match c.fn with
  | some f => .user f
  | none => if c.flat then K15.flatDefault else K15.mapDefault

def progOf (c : Cfg) : Stmt := if c.flat then K15.resolvedFlat else K15.resolvedMap

/-- the code, run on a configuration: final state of `self`, and whether an exception escaped -/
def runCode (c : Cfg) (d : Outcome) : S × Bool := run (progOf c) (slotOf c) c.errFn d

/-- unfold the interpreter on the generated programs -/
macro "k15_simp" h:ident : tactic =>
  `(tactic| simp [runCode, run, progOf, slotOf, K15.resolvedFlat, K15.resolvedMap, K15.mapDefault, K15.flatDefault, start, exec, evalE,
      callSlot, fnResult, $h:ident, S.set, setOut, truthy, toRes, toOut, valOut, excOut, resolve, onMapped, flattened])

set_option maxHeartbeats 1600000 in
theorem run_eq_resolve (c : Cfg) (d : Outcome) :
    toRes (runCode c d).1 = some (resolve c d) ∧ (runCode c d).2 = false := by
  obtain ⟨flat, fn, errFn⟩ := c
  cases d with
  | cancelled => cases flat <;> cases fn <;> cases errFn <;> exact ⟨rfl, rfl⟩
  | ok v =>
      cases fn with
      | none => cases flat <;> cases errFn <;> exact ⟨rfl, rfl⟩
      | some f =>
          cases flat <;> cases errFn <;>
            (cases h : f v with
             | retFut o => cases o <;> k15_simp h
             | _ => k15_simp h)
  | err e =>
      cases errFn with
      | none => cases flat <;> cases fn <;> exact ⟨rfl, rfl⟩
      | some ef =>
          cases flat <;> cases fn <;>
            (cases h : ef e with
             | retFut o => cases o <;> k15_simp h
             | _ => k15_simp h)

end MoreExec.PyMap
