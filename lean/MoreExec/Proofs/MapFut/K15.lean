/-
  The regenerated resolution code of MapFuture / FlatMapFuture (Gen/K15, interpreted by Model/PyMap) computes exactly the
  hand-written `MapFut.resolve`: same outcome, same calls of the user functions in the same order, and no exception escapes
  from `_delegate_resolved` (neither from the first call nor from the call made for the flattened future).
-/
import MoreExec.Proofs.MapFut.K15A
import MoreExec.Proofs.MapFut.K15B
import MoreExec.Proofs.MapFut.K15C
import MoreExec.Proofs.MapFut.K15D

namespace MoreExec.PyMap
open MoreExec.MapFut MoreExec.Gen

theorem run_eq_resolve (c : Cfg) (sync : Bool) (d : Outcome) :
    toRes (runCode c sync d).1 = some (resolve c d) ∧ (runCode c sync d).2 = false := by
  obtain ⟨flat, fn, errFn⟩ := c
  cases d with
  | cancelled => cases sync <;> cases flat <;> cases fn <;> cases errFn <;> exact ⟨rfl, rfl⟩
  | ok v =>
      cases fn with
      | none => cases sync <;> cases flat <;> cases errFn <;> exact ⟨rfl, rfl⟩
      | some f => cases sync; exact run_ok_async flat f errFn v; exact run_ok_sync flat f errFn v
  | err e =>
      cases errFn with
      | none => cases sync <;> cases flat <;> cases fn <;> exact ⟨rfl, rfl⟩
      | some ef => cases sync; exact run_err_async flat fn ef e; exact run_err_sync flat fn ef e

end MoreExec.PyMap
