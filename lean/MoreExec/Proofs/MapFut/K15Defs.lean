/-
  The regenerated resolution code of MapFuture / FlatMapFuture (Gen/K15, interpreted by Model/PyMap) computes exactly the
  hand-written `MapFut.resolve`: same outcome, same calls of the user functions in the same order, and no exception escapes
  from `_delegate_resolved` (neither from the first call nor from the call made for the flattened future).
-/
import MoreExec.Gen.K15
import MoreExec.Model.PyMap

namespace MoreExec.PyMap
open MoreExec.MapFut MoreExec.Gen

/-- what the constructor stores in `_map_fn` -/
def slotOf (c : Cfg) : FnSlot :=
  match c.fn with
  | some f => .user f
  | none => if c.flat then K15.flatDefault else K15.mapDefault

def progOf (c : Cfg) : Stmt := if c.flat then K15.resolvedFlat else K15.resolvedMap

/-- the code, run on a configuration: final state of `self`, and whether an exception escaped; `sync`: the future a user function
returns is already done when it is returned (the second call of `_delegate_resolved` is then nested in the first) -/
def runCode (c : Cfg) (sync : Bool) (d : Outcome) : S × Bool := run (progOf c) (slotOf c) c.errFn sync d

/-- unfold the interpreter on the generated programs -/
macro "k15_simp" h:ident : tactic =>
  `(tactic| simp [runCode, run, stage2, S.frame, progOf, slotOf, K15.resolvedFlat, K15.resolvedMap, K15.mapDefault, K15.flatDefault, start, exec, evalE,
      callSlot, fnResult, $h:ident, S.set, setOut, truthy, toRes, toOut, valOut, excOut, resolve, onMapped, flattened])


end MoreExec.PyMap
