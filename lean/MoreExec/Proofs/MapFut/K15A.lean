/- part of the proof of `run_eq_resolve` (split over four modules so that they build in parallel) -/
import MoreExec.Proofs.MapFut.K15Defs

namespace MoreExec.PyMap
open MoreExec.MapFut MoreExec.Gen

set_option maxHeartbeats 1600000 in
theorem run_ok_async (flat : Bool) (f : Val → FnRes) (errFn : Option (Exc → FnRes)) (v : Val) :
    toRes (runCode ⟨flat, some f, errFn⟩ false (.ok v)).1 = some (resolve ⟨flat, some f, errFn⟩ (.ok v)) ∧
    (runCode ⟨flat, some f, errFn⟩ false (.ok v)).2 = false := by
  cases flat <;> cases errFn <;>
    (cases h : f v with
     | retFut o => cases o <;> k15_simp h
     | _ => k15_simp h)

end MoreExec.PyMap
