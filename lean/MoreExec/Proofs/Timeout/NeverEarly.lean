/- Invariant behind C09 "never early": every job the worker is about to cancel is strictly past its deadline. -/
import MoreExec.Proofs.Timeout.Basic
import MoreExec.Proofs.Timeout.K3

namespace MoreExec.Timeout

structure NEInv (s : St) : Prop where
  od : ∀ j ∈ s.wOverdue, j.deadline < s.now ∧ (j.fut, j.deadline) ∈ s.deadlines
  jobs : ∀ j ∈ s.jobs, (j.fut, j.deadline) ∈ s.deadlines
  att : ∀ a ∈ s.attempts, a.2.1 < a.2.2 ∧ (a.1, a.2.1) ∈ s.deadlines

theorem NEInv_init : NEInv init := by
  constructor <;> simp [init]

theorem NEInv_startOp (s : St) (t : Tid) (e : Ev) (s' : St) (hi : NEInv s) (h : startOp s t e = some s') : NEInv s' := by
  unfold startOp at h
  split at h <;> try (simp at h)
  all_goals (try split at h) <;> try (simp at h)
  all_goals elim_step
  all_goals exact ⟨by simpa [setProg, setFut] using hi.od, by simpa [setProg, setFut] using hi.jobs, by simpa [setProg, setFut] using hi.att⟩


theorem NEInv_execOp (s : St) (t : Tid) (op : Op) (rest : List Op) (l : Lbl) (s' : St) (hi : NEInv s)
    (h : execOp s t op rest l = some s') : NEInv s' := by
  unfold execOp at h
  split at h <;> try (simp at h)
  all_goals (try split at h) <;> try (simp at h)
  all_goals (try split at h) <;> try (simp at h)
  all_goals elim_step
  all_goals first
    | exact ⟨by simpa [setProg, setFut] using hi.od, by simpa [setProg, setFut] using hi.jobs, by simpa [setProg, setFut] using hi.att⟩
    | skip
  all_goals
    have h1 := hi.od; have h2 := hi.jobs; have h3 := hi.att
    have h4 := K3_model_agrees s
    constructor <;> simp [setProg] <;> grind


theorem NEInv_step (s : St) (a : Act) (s' : St) (hi : NEInv s) (h : step s a = some s') : NEInv s' := by
  unfold step at h
  split at h
  · -- idle jump: time only moves forward
    split at h <;> simp at h
    subst h
    rename_i hg
    have h1 := hi.od; have h2 := hi.jobs; have h3 := hi.att
    constructor <;> simp <;> grind
  · split at h
    · split at h
      · exact NEInv_startOp _ _ _ _ hi h
      · simp at h
    · exact NEInv_execOp _ _ _ _ _ _ hi h

end MoreExec.Timeout
