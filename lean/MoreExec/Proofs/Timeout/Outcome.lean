/- Invariant of the Timeout model behind "futures that complete before their deadline keep their outcome" (C09):
   once the MapFuture of a submission is done, its `done` / `cancelled` bits never change again. -/
import MoreExec.Proofs.Timeout.Basic
import MoreExec.Proofs.Timeout.ExactlyOnce

namespace MoreExec.Timeout

/-- a delegate future in a terminal state -/
def dTerminal (d : DState) : Prop := d = .finished ∨ d = .cancelled

/-- what a pending micro-operation presupposes about the delegate it speaks of -/
def opOK (s : St) : Op → Prop
  | .tCancelled k => (getFut s k).dstate = .cancelled
  | .tResolve k => dTerminal (getFut s k).dstate
  | _ => True

structure OInv (s : St) : Prop where
  progs : ∀ p ∈ s.progs, ∀ op ∈ p.2, opOK s op
  futs : ∀ k, (getFut s k).done = true → (getFut s k).fcancelled = false → (getFut s k).dstate = .finished

theorem getFut_setProg (s : St) (t : Tid) (p : List Op) (k : Fid) : getFut (setProg s t p) k = getFut s k := rfl

theorem getFut_setFut (s : St) (k k' : Fid) (f : Fut) :
    getFut (setFut s k f) k' = if k = k' ∧ k < s.futs.length then f else getFut s k' := by
  simp only [getFut, setFut, List.getD_eq_getElem?_getD, List.getElem?_set]
  by_cases h : k = k'
  · subst h
    by_cases hl : k < s.futs.length
    · simp [hl]
    · simp [hl]
  · simp [h]


/-- the worker's partition never selects a future that is done: only not-done jobs past their deadline become cancel attempts -/
theorem overdue_not_done (s : St) : ∀ j ∈ overdue s, (getFut s j.fut).done = false ∧ j.deadline < s.now := by
  intro j hj
  rw [overdue_eq] at hj
  have := (List.mem_filter.mp hj).2
  simpa using this

/-- `cancel()` on a future that is already done (the worker's attempt, or a client's call) changes no future: a finished future keeps
its outcome, a cancelled one stays cancelled; the client is answered `cancelled()` -/
theorem cancel_of_done_noop (s : St) (t : Tid) (k : Fid) (client : Bool) (rest : List Op) (s' : St)
    (hd : (getFut s k).done = true) (h : execOp s t (.tCancelCheck k client) rest .tau = some s') :
    s'.futs = s.futs ∧ getProg s' t = (if client then Op.oRetCancel k (getFut s k).fcancelled :: rest else rest) := by
  simp only [execOp, hd, ↓reduceIte] at h
  cases h
  refine ⟨rfl, ?_⟩
  simp [getProg, setProg]

/-- a delegate that finishes after the MapFuture is done (it was cancelled at its deadline, say) does not change it either -/
theorem resolve_of_done_noop (s : St) (t : Tid) (k : Fid) (rest : List Op) (s' : St)
    (hd : (getFut s k).done = true) (h : execOp s t (.tResolve k) rest .tau = some s') : s'.futs = s.futs := by
  simp only [execOp, hd, or_true, ↓reduceIte] at h
  cases h; rfl


theorem opOK_setProg (s : St) (t : Tid) (p : List Op) (o : Op) : opOK (setProg s t p) o ↔ opOK s o := by
  cases o <;> simp [opOK, getFut_setProg]

/-- opOK looks only at delegate states, and terminal delegate states never change -/
theorem opOK_mono {s s2 : St} (h : ∀ k, dTerminal (getFut s k).dstate → (getFut s2 k).dstate = (getFut s k).dstate) (o : Op) :
    opOK s o → opOK s2 o := by
  cases o <;> simp only [opOK] <;> intro ho
  all_goals first
    | trivial
    | (rename_i k; have := h k ho; rw [this]; exact ho)
    | (rename_i k; have := h k (Or.inr ho); rw [this]; exact ho)

theorem oinv_update {s : St} (hi : OInv s) (t : Tid) (old : List Op) (hold : ∀ o ∈ old, opOK s o) (s2 : St)
    (e : s2.progs = s.progs) (hm : ∀ o, opOK s o → opOK s2 o) (newp : List Op) (hn : ∀ o ∈ newp, o ∈ old ∨ opOK s2 o)
    (hf : ∀ k, (getFut s2 k).done = true → (getFut s2 k).fcancelled = false → (getFut s2 k).dstate = .finished) :
    OInv (setProg s2 t newp) := by
  constructor
  · intro p hp o ho
    rw [opOK_setProg]
    obtain ⟨t', p'⟩ := p
    rcases mem_setProg.mp hp with ⟨rfl, rfl⟩ | ⟨hp', _⟩
    · rcases hn o ho with h1 | h1
      · exact hm o (hold o h1)
      · exact h1
    · rw [e] at hp'
      exact hm o (hi.progs _ hp' o ho)
  · intro k; rw [getFut_setProg]; exact hf k


/-- close `∀ o ∈ newp, o ∈ op :: rest ∨ opOK s2 o` for an explicit new program made of harmless operations followed by `rest`;
stops (leaving a clean goal) at the first operation that needs an argument (`tCancelled`, `tResolve`) -/
macro "newops" : tactic => `(tactic| (
  try simp only [List.cons_append, List.nil_append, resolvedChain, submitProg, List.append_assoc]
  repeat (first
    | exact (fun o ho => Or.inl (List.mem_cons_of_mem _ ho))
    | exact (fun o ho => Or.inl ho)
    | exact (fun o ho => absurd ho List.not_mem_nil)
    | refine List.forall_mem_cons.mpr ⟨Or.inr trivial, ?_⟩)))

/-- a state that differs from `s` in fields other than `futs` and `progs` -/
theorem oinv_same_futs {s : St} (hi : OInv s) (t : Tid) (old : List Op) (hold : ∀ o ∈ old, opOK s o) (s2 : St)
    (e : s2.progs = s.progs) (ef : s2.futs = s.futs) (newp : List Op) (hn : ∀ o ∈ newp, o ∈ old ∨ opOK s2 o) :
    OInv (setProg s2 t newp) := by
  have hg : ∀ k, getFut s2 k = getFut s k := by intro k; simp [getFut, ef]
  refine oinv_update hi t old hold s2 e ?_ newp hn ?_
  · intro o ho
    exact opOK_mono (fun k _ => by rw [hg k]) o ho
  · intro k; rw [hg k]; exact hi.futs k

/-- one future's record changes: the delegate state only moves forward and a done, not cancelled future has a finished delegate -/
theorem oinv_set_fut {s : St} (hi : OInv s) (t : Tid) (old : List Op) (hold : ∀ o ∈ old, opOK s o) (k : Fid) (f : Fut)
    (hd : dTerminal (getFut s k).dstate → f.dstate = (getFut s k).dstate)
    (hf : f.done = true → f.fcancelled = false → f.dstate = .finished)
    (newp : List Op) (hn : ∀ o ∈ newp, o ∈ old ∨ opOK (setFut s k f) o) :
    OInv (setProg (setFut s k f) t newp) := by
  refine oinv_update hi t old hold (setFut s k f) rfl ?_ newp hn ?_
  · intro o ho
    refine opOK_mono ?_ o ho
    intro k' hk'
    rw [getFut_setFut]
    split
    · rename_i hc; obtain ⟨rfl, _⟩ := hc; exact hd hk'
    · rfl
  · intro k'
    rw [getFut_setFut]
    split
    · exact hf
    · exact hi.futs k'


theorem OInv_execOp (s : St) (t : Tid) (op : Op) (rest : List Op) (l : Lbl) (s' : St) (hi : OInv s)
    (hp : getProg s t = op :: rest) (h : execOp s t op rest l = some s') : OInv s' := by
  have hold : ∀ o ∈ op :: rest, opOK s o := fun o ho => hi.progs _ (getProg_mem hp) o ho
  unfold execOp at h
  split at h <;> try (simp at h)
  all_goals (try split at h) <;> try (simp at h)
  all_goals (try split at h) <;> try (simp at h)
  all_goals elim_step
  all_goals first
    | (refine oinv_same_futs hi t _ hold _ ?_ ?_ _ ?_ <;> first | rfl | (newops; done))
    | skip
  · -- oDsubmit: a new future record is appended
    refine oinv_update hi t _ hold _ ?_ ?_ _ ?_ ?_
    · rfl
    · intro o ho
      refine opOK_mono ?_ o ho
      intro k hk
      simp only [getFut, List.getD_eq_getElem?_getD]
      by_cases hl : k < s.futs.length
      · simp [List.getElem?_append_left hl]
      · have : s.futs[k]? = none := List.getElem?_eq_none (Nat.le_of_not_lt hl)
        simp only [getFut, List.getD_eq_getElem?_getD, this, Option.getD_none, dTerminal] at hk
        rcases hk with hk | hk <;> cases hk
    · newops
    · intro k
      simp only [getFut, List.getD_eq_getElem?_getD]
      by_cases hl : k < s.futs.length
      · simp only [List.getElem?_append_left hl]; exact hi.futs k
      · by_cases he : k = s.futs.length
        · subst he; simp
        · have h3 : s.futs.length + 1 ≤ k := Nat.lt_of_le_of_ne (Nat.le_of_not_lt hl) (fun e => he e.symm)
          have : (s.futs ++ [({ created := true, linked := true } : Fut)])[k]? = none :=
            List.getElem?_eq_none (by simpa using h3)
          simp [this]
  · -- oAddcbIn on a delegate that is already done: the resolution chain is pushed
    rename_i hdone
    refine oinv_same_futs hi t _ hold _ ?_ ?_ _ ?_ <;> first | rfl | skip
    newops
    refine List.forall_mem_cons.mpr ⟨Or.inr hdone, ?_⟩
    newops
  · -- oAddcbIn: callback registered
    refine oinv_set_fut hi t _ hold _ _ ?_ ?_ _ ?_
    · intro _; rfl
    · intro h1 h2; exact hi.futs _ h1 h2
    · newops
  · -- inline delegate starts the callable
    refine oinv_set_fut hi t _ hold _ _ ?_ ?_ _ ?_
    · intro hT; simp_all [dTerminal]
    · intro h1 h2; have := hi.futs _ h1 h2; simp_all
    · newops
  · refine oinv_set_fut hi t _ hold _ _ ?_ ?_ _ ?_
    · intro _; rfl
    · intro h1 h2; exact hi.futs _ h1 h2
    · newops
  · refine oinv_set_fut hi t _ hold _ _ ?_ ?_ _ ?_
    · intro _; rfl
    · intro h1 h2; exact hi.futs _ h1 h2
    · newops
  · -- tResolve makes the future done: its delegate is terminal (opOK) and not cancelled (guard), hence finished
    have hT := hold _ List.mem_cons_self
    refine oinv_set_fut hi t _ hold _ _ ?_ ?_ _ ?_
    · intro _; rfl
    · intro _ _; simp only [opOK, dTerminal] at hT; simp_all
    · newops
  · have hT := hold _ List.mem_cons_self
    refine oinv_set_fut hi t _ hold _ _ ?_ ?_ _ ?_
    · intro _; rfl
    · intro _ _; simp only [opOK, dTerminal] at hT; simp_all
    · newops
  · -- tCancelCheck, nothing to cancel
    refine oinv_same_futs hi t _ hold _ ?_ ?_ _ ?_ <;> first | rfl | skip
    split <;> newops
  · -- delegate.cancel() succeeds
    refine oinv_set_fut hi t _ hold _ _ ?_ ?_ _ ?_
    · intro hT; simp_all [dTerminal]
    · intro h1 h2; have := hi.futs _ h1 h2; simp_all
    · newops
  · refine oinv_set_fut hi t _ hold _ _ ?_ ?_ _ ?_
    · intro hT; simp_all [dTerminal]
    · intro h1 h2; have := hi.futs _ h1 h2; simp_all
    · newops
  · -- delegate.cancel() returned True: `tCancelled` is pushed, and the delegate IS cancelled
    refine oinv_same_futs hi t _ hold _ ?_ ?_ _ ?_ <;> first | rfl | skip
    refine List.forall_mem_cons.mpr ⟨Or.inr (by simp_all [opOK]), ?_⟩
    newops
  · refine oinv_same_futs hi t _ hold _ ?_ ?_ _ ?_ <;> first | rfl | skip
    refine List.forall_mem_cons.mpr ⟨Or.inr (by simp_all [opOK]), ?_⟩
    newops
  · -- tCancelled: done and cancelled
    refine oinv_set_fut hi t _ hold _ _ ?_ ?_ _ ?_
    · intro _; rfl
    · intro _ h2; cases h2
    · newops
  · refine oinv_set_fut hi t _ hold _ _ ?_ ?_ _ ?_
    · intro _; rfl
    · intro _ h2; cases h2
    · newops
  · -- the delegate finishes
    refine oinv_set_fut hi t _ hold _ _ ?_ ?_ _ ?_
    · intro hT; simp_all [dTerminal]
    · intro _ _; rfl
    · newops
      refine List.forall_mem_cons.mpr ⟨Or.inr ?_, ?_⟩
      · simp only [opOK, getFut_setFut]
        split
        · exact Or.inl rfl
        · rename_i hne
          simp only [not_and, true_implies] at hne
          have hk : ¬ _ < s.futs.length := hne
          simp_all [getFut, dTerminal]
      · newops
  · refine oinv_set_fut hi t _ hold _ _ ?_ ?_ _ ?_
    · intro hT; simp_all [dTerminal]
    · intro _ _; rfl
    · newops

theorem OInv_startOp (s : St) (t : Tid) (e : Ev) (s' : St) (hi : OInv s) (h : startOp s t e = some s') : OInv s' := by
  have hold : ∀ o ∈ ([] : List Op), opOK s o := fun o ho => absurd ho List.not_mem_nil
  unfold startOp at h
  split at h <;> try (simp at h)
  all_goals (try split at h) <;> try (simp at h)
  all_goals elim_step
  all_goals first
    | exact hi
    | (refine oinv_same_futs hi t _ hold _ ?_ ?_ _ ?_ <;> first | rfl | (newops; done))
    | skip
  · -- a pool worker takes the job: the delegate starts running
    refine oinv_set_fut hi t _ hold _ _ ?_ ?_ _ ?_
    · intro hT; simp_all [dTerminal]
    · intro h1 h2; have := hi.futs _ h1 h2; simp_all
    · newops

theorem OInv_init : OInv init := ⟨by simp [init], by simp [init, getFut]⟩

theorem OInv_step (s : St) (a : Act) (s' : St) (hi : OInv s) (h : step s a = some s') : OInv s' := by
  unfold step at h
  split at h
  · split at h <;> simp at h
    subst h
    exact ⟨hi.progs, hi.futs⟩
  · split at h
    · split at h
      · exact OInv_startOp _ _ _ _ hi h
      · simp at h
    · rename_i hp
      exact OInv_execOp _ _ _ _ _ _ hi hp h


theorem kept_execOp (s : St) (t : Tid) (op : Op) (rest : List Op) (l : Lbl) (s' : St) (hi : OInv s)
    (hp : getProg s t = op :: rest) (h : execOp s t op rest l = some s') (k : Fid) (hd : (getFut s k).done = true) :
    (getFut s' k).done = true ∧ (getFut s' k).fcancelled = (getFut s k).fcancelled := by
  have hold : ∀ o ∈ op :: rest, opOK s o := fun o ho => hi.progs _ (getProg_mem hp) o ho
  unfold execOp at h
  split at h <;> try (simp at h)
  all_goals (try split at h) <;> try (simp at h)
  all_goals (try split at h) <;> try (simp at h)
  all_goals elim_step
  all_goals first
    | exact ⟨hd, rfl⟩
    | (simp only [getFut_setProg, getFut_setFut]; split <;> first | exact ⟨hd, rfl⟩ | (simp_all; done))
    | skip
  · -- oDsubmit appends a record: existing ones are untouched
    have hl : k < s.futs.length := by
      by_cases hl : k < s.futs.length
      · exact hl
      · have : s.futs[k]? = none := List.getElem?_eq_none (Nat.le_of_not_lt hl)
        simp [getFut, List.getD_eq_getElem?_getD, this] at hd
    have e : ∀ (x : Fut) (p : List Op), getFut (setProg { s with futs := s.futs ++ [x] } t p) k = getFut s k := by
      intro x p
      simp only [getFut_setProg]
      simp only [getFut, List.getD_eq_getElem?_getD, List.getElem?_append_left hl]
    rw [e]
    exact ⟨hd, rfl⟩
  all_goals (
    -- tCancelled k0: if k0 is a done future it is already a cancelled one (its delegate is cancelled, not finished)
    have hc := hold _ List.mem_cons_self
    simp only [opOK] at hc
    simp only [getFut_setProg, getFut_setFut]
    split
    · rename_i he
      obtain ⟨rfl, _⟩ := he
      have hf := hi.futs _ hd
      cases hfc : (getFut s _).fcancelled with
      | true => simp
      | false => have := hf hfc; rw [hc] at this; cases this
    · exact ⟨hd, rfl⟩)

theorem kept_startOp (s : St) (t : Tid) (e : Ev) (s' : St) (h : startOp s t e = some s') (k : Fid)
    (hd : (getFut s k).done = true) :
    (getFut s' k).done = true ∧ (getFut s' k).fcancelled = (getFut s k).fcancelled := by
  unfold startOp at h
  split at h <;> try (simp at h)
  all_goals (try split at h) <;> try (simp at h)
  all_goals elim_step
  all_goals first
    | exact ⟨hd, rfl⟩
    | (simp only [getFut_setProg, getFut_setFut]; split <;> first | exact ⟨hd, rfl⟩ | (simp_all; done))

/-- once the future of a submission is done, no step of any thread changes its `done` / `cancelled` bits -/
theorem kept_step (s : St) (a : Act) (s' : St) (hi : OInv s) (h : step s a = some s') (k : Fid)
    (hd : (getFut s k).done = true) :
    (getFut s' k).done = true ∧ (getFut s' k).fcancelled = (getFut s k).fcancelled := by
  unfold step at h
  split at h
  · split at h <;> simp at h
    subst h
    exact ⟨hd, rfl⟩
  · split at h
    · split at h
      · exact kept_startOp _ _ _ _ h k hd
      · simp at h
    · rename_i hp
      exact kept_execOp _ _ _ _ _ _ hi hp h k hd

end MoreExec.Timeout
