/- Basic lemmas about the program store of the Timeout model. -/
import MoreExec.Model.Timeout

namespace MoreExec.Timeout

-- After `simp at h`, a successful step leaves `h : guards ∧ … ∧ newState = s'`; eliminate it.
set_option hygiene false in
macro "elim_step" : tactic => `(tactic| first
  | subst h
  | (rcases h with ⟨hg, rfl⟩)
  | (rcases h with ⟨hg, hg2, rfl⟩)
  | (rcases h with ⟨hg, hg2, hg3, rfl⟩)
  | (rcases h with ⟨hg, hg2, hg3, hg4, rfl⟩)
  | skip)

theorem mem_setProg {s : St} {t : Tid} {p : List Op} {t' : Tid} {p' : List Op} :
    (t', p') ∈ (setProg s t p).progs ↔ (t' = t ∧ p' = p) ∨ ((t', p') ∈ s.progs ∧ t' ≠ t) := by
  simp [setProg, List.mem_filter]

theorem lookup_mem {α β : Type} [BEq α] [LawfulBEq α] (l : List (α × β)) (a : α) (b : β) (h : l.lookup a = some b) :
    (a, b) ∈ l := by
  induction l with
  | nil => simp at h
  | cons x xs ih =>
    obtain ⟨k, v⟩ := x
    simp only [List.lookup_cons] at h
    split at h
    · rename_i heq
      have : a = k := by simpa using heq
      subst this
      simp at h; subst h; simp
    · exact List.mem_cons_of_mem _ (ih h)

theorem getProg_mem {s : St} {t : Tid} {op : Op} {rest : List Op} (h : getProg s t = op :: rest) :
    (t, op :: rest) ∈ s.progs := by
  unfold getProg at h
  split at h
  · rename_i p hp
    subst h
    exact lookup_mem _ _ _ hp
  · cases h

@[simp] theorem setProg_now (s : St) (t : Tid) (p : List Op) : (setProg s t p).now = s.now := rfl
@[simp] theorem setProg_jobs (s : St) (t : Tid) (p : List Op) : (setProg s t p).jobs = s.jobs := rfl
@[simp] theorem setProg_flag (s : St) (t : Tid) (p : List Op) : (setProg s t p).flag = s.flag := rfl
@[simp] theorem setProg_futs (s : St) (t : Tid) (p : List Op) : (setProg s t p).futs = s.futs := rfl
@[simp] theorem setProg_attempts (s : St) (t : Tid) (p : List Op) : (setProg s t p).attempts = s.attempts := rfl
@[simp] theorem setProg_deadlines (s : St) (t : Tid) (p : List Op) : (setProg s t p).deadlines = s.deadlines := rfl
@[simp] theorem setProg_wst (s : St) (t : Tid) (p : List Op) : (setProg s t p).wst = s.wst := rfl
@[simp] theorem setProg_shut (s : St) (t : Tid) (p : List Op) : (setProg s t p).shut = s.shut := rfl
@[simp] theorem setProg_gate (s : St) (t : Tid) (p : List Op) : (setProg s t p).gate = s.gate := rfl
@[simp] theorem setProg_worker (s : St) (t : Tid) (p : List Op) : (setProg s t p).worker = s.worker := rfl
@[simp] theorem setProg_wexited (s : St) (t : Tid) (p : List Op) : (setProg s t p).wexited = s.wexited := rfl
@[simp] theorem setFut_now (s : St) (k : Fid) (f : Fut) : (setFut s k f).now = s.now := rfl
@[simp] theorem setFut_jobs (s : St) (k : Fid) (f : Fut) : (setFut s k f).jobs = s.jobs := rfl
@[simp] theorem setFut_flag (s : St) (k : Fid) (f : Fut) : (setFut s k f).flag = s.flag := rfl
@[simp] theorem setFut_progs (s : St) (k : Fid) (f : Fut) : (setFut s k f).progs = s.progs := rfl
@[simp] theorem setFut_attempts (s : St) (k : Fid) (f : Fut) : (setFut s k f).attempts = s.attempts := rfl
@[simp] theorem setFut_deadlines (s : St) (k : Fid) (f : Fut) : (setFut s k f).deadlines = s.deadlines := rfl
@[simp] theorem setFut_wst (s : St) (k : Fid) (f : Fut) : (setFut s k f).wst = s.wst := rfl
@[simp] theorem setFut_shut (s : St) (k : Fid) (f : Fut) : (setFut s k f).shut = s.shut := rfl
@[simp] theorem setFut_gate (s : St) (k : Fid) (f : Fut) : (setFut s k f).gate = s.gate := rfl
@[simp] theorem setFut_worker (s : St) (k : Fid) (f : Fut) : (setFut s k f).worker = s.worker := rfl
@[simp] theorem setFut_wexited (s : St) (k : Fid) (f : Fut) : (setFut s k f).wexited = s.wexited := rfl

end MoreExec.Timeout
