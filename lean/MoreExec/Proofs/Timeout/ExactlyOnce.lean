/- Invariant behind C09 "exactly once": a job is in exactly one of {_jobs, the worker's overdue list, already
   attempted}; it leaves `_jobs` in the same critical section that classifies it overdue. -/
import MoreExec.Proofs.Timeout.Basic
import MoreExec.Proofs.Timeout.K3

namespace MoreExec.Timeout

/-- futures (submission indices) in the three places a job can be -/
def tracked (s : St) : List Fid :=
  s.attempts.map (·.1) ++ s.wOverdue.map (·.fut) ++ s.jobs.map (·.fut)

structure EOInv (s : St) : Prop where
  nodup : (tracked s).Nodup
  app : ∀ k ∈ tracked s, k ∈ s.deadlines.map (·.1)

theorem EOInv_init : EOInv init := by
  constructor <;> simp [init, tracked]

theorem inj_of_nodup_map {α β : Type} (f : α → β) (l : List α) (h : (l.map f).Nodup) :
    ∀ x ∈ l, ∀ y ∈ l, f x = f y → x = y := by
  induction l with
  | nil => intro x hx; cases hx
  | cons a l ih =>
    simp only [List.map_cons, List.nodup_cons, List.mem_map, not_exists, not_and] at h
    intro x hx y hy hxy
    rcases List.mem_cons.mp hx with hxa | hxl <;> rcases List.mem_cons.mp hy with hya | hyl
    · rw [hxa, hya]
    · subst hxa; exact absurd hxy.symm (h.1 y hyl)
    · subst hya; exact absurd hxy (h.1 x hxl)
    · exact ih h.2 x hxl y hyl hxy

theorem filter_split_nodup {α β : Type} (f : α → β) (p q : α → Bool) (l : List α)
    (hpq : ∀ x, ¬ (p x = true ∧ q x = true)) (h : (l.map f).Nodup) :
    ((l.filter p).map f ++ (l.filter q).map f).Nodup := by
  rw [List.nodup_append]
  refine ⟨(List.filter_sublist.map f).nodup h, (List.filter_sublist.map f).nodup h, ?_⟩
  intro a ha b hb hab
  subst hab
  simp only [List.mem_map, List.mem_filter] at ha hb
  obtain ⟨x, ⟨hx, hpx⟩, rfl⟩ := ha
  obtain ⟨y, ⟨hy, hqy⟩, hfy⟩ := hb
  have := inj_of_nodup_map f l h y hy x hx hfy
  subst this
  exact hpq _ ⟨hpx, hqy⟩

theorem overdue_eq (s : St) : overdue s = s.jobs.filter (fun j => !(getFut s j.fut).done && decide (j.deadline < s.now)) := by
  simp only [overdue, K3_partition_spec, List.filter_map, List.map_map]
  rw [show (ofG ∘ toG s) = id from by funext j; simp [ofG, toG]]
  simp only [List.map_id]
  rfl

theorem pending_eq (s : St) : pendingJobs s = s.jobs.filter (fun j => !(getFut s j.fut).done && !decide (j.deadline < s.now)) := by
  simp only [pendingJobs, K3_partition_spec, List.filter_map, List.map_map]
  rw [show (ofG ∘ toG s) = id from by funext j; simp [ofG, toG]]
  simp only [List.map_id]
  rfl

/-- The two halves of the partition are disjoint sub-lists of `_jobs`. -/
theorem partition_nodup (s : St) (h : (s.jobs.map (·.fut)).Nodup) :
    ((overdue s).map (·.fut) ++ (pendingJobs s).map (·.fut)).Nodup ∧
    (∀ k ∈ (overdue s).map (·.fut) ++ (pendingJobs s).map (·.fut), k ∈ s.jobs.map (·.fut)) := by
  rw [overdue_eq, pending_eq]
  constructor
  · apply filter_split_nodup _ _ _ _ _ h
    intro x ⟨h1, h2⟩
    simp only [Bool.and_eq_true, Bool.not_eq_true', decide_eq_true_eq, decide_eq_false_iff_not] at h1 h2
    exact h2.2 h1.2
  · intro k hk
    simp only [List.mem_append, List.mem_map, List.mem_filter] at hk ⊢
    rcases hk with ⟨a, ⟨ha, _⟩, rfl⟩ | ⟨a, ⟨ha, _⟩, rfl⟩ <;> exact ⟨a, ha, rfl⟩


theorem L1 (A O J : List Nat) (k : Nat) (h : (A ++ O ++ J).Nodup) (hk : k ∉ A ++ O ++ J) :
    (A ++ O ++ (J ++ [k])).Nodup := by
  rw [← List.append_assoc]
  rw [List.nodup_append]
  refine ⟨h, by simp, ?_⟩
  intro a ha b hb
  simp at hb; subst hb
  intro e; subst e; exact hk ha

theorem L2 (A O J O' J' : List Nat) (h : (A ++ O ++ J).Nodup) (h2 : (O' ++ J').Nodup)
    (h3 : ∀ x ∈ O' ++ J', x ∈ J) : (A ++ O' ++ J').Nodup := by
  rw [List.append_assoc, List.nodup_append]
  rw [List.append_assoc, List.nodup_append] at h
  refine ⟨h.1, h2, ?_⟩
  intro a ha b hb
  exact h.2.2 a ha b (List.mem_append_right _ (h3 b hb))

theorem L3 (A O J : List Nat) (j : Nat) (h : (A ++ (j :: O) ++ J).Nodup) : ((A ++ [j]) ++ O ++ J).Nodup := by
  simpa using h

theorem EOInv_startOp (s : St) (t : Tid) (e : Ev) (s' : St) (hi : EOInv s) (h : startOp s t e = some s') : EOInv s' := by
  unfold startOp at h
  split at h <;> try (simp at h)
  all_goals (try split at h) <;> try (simp at h)
  all_goals elim_step
  all_goals first
    | exact hi
    | exact ⟨by simpa [setProg, setFut, tracked] using hi.nodup, by simpa [setProg, setFut, tracked] using hi.app⟩

theorem EOInv_execOp (s : St) (t : Tid) (op : Op) (rest : List Op) (l : Lbl) (s' : St) (hi : EOInv s)
    (h : execOp s t op rest l = some s') : EOInv s' := by
  unfold execOp at h
  split at h <;> try (simp at h)
  all_goals (try split at h) <;> try (simp at h)
  all_goals (try split at h) <;> try (simp at h)
  all_goals elim_step
  all_goals first
    | exact ⟨by simpa [setProg, setFut, tracked] using hi.nodup, by simpa [setProg, setFut, tracked] using hi.app⟩
    | skip
  · -- tAppend: a fresh future joins `_jobs`
    have h1 := hi.nodup; have h2 := hi.app
    rename_i k dl
    have hk : k ∉ tracked s := by
      intro hk; have := h2 k hk
      simp only [List.mem_map] at this
      obtain ⟨⟨a, b⟩, hab, rfl⟩ := this
      exact hg b hab
    constructor
    · simpa [setProg, tracked] using L1 _ _ _ k h1 hk
    · intro x hx
      simp only [setProg, tracked, List.map_append, List.mem_append, List.map_cons, List.map_nil, List.mem_singleton] at hx ⊢
      rcases hx with (hx | hx) | hx | hx
      · exact Or.inl (h2 x (by simp [tracked, hx]))
      · exact Or.inl (h2 x (by simp [tracked, hx]))
      · exact Or.inl (h2 x (by simp [tracked, hx]))
      · exact Or.inr hx
  · -- tPartition: `_jobs` splits into the new `_jobs` and the worker's overdue list
    have h1 := hi.nodup; have h2 := hi.app
    have hJ : (s.jobs.map (·.fut)).Nodup := by
      simp only [tracked] at h1; exact (List.nodup_append.mp h1).2.1
    obtain ⟨p1, p2⟩ := partition_nodup s hJ
    constructor
    · simpa [setProg, tracked] using L2 _ _ _ _ _ h1 p1 p2
    · intro x hx
      simp only [setProg, tracked, List.mem_append] at hx
      rcases hx with (hx | hx) | hx
      · exact h2 x (by simp [tracked, hx])
      · exact h2 x (by simp only [tracked, List.mem_append]; exact Or.inr (p2 x (List.mem_append_left _ hx)))
      · exact h2 x (by simp only [tracked, List.mem_append]; exact Or.inr (p2 x (List.mem_append_right _ hx)))
  · -- tCancelNext: one overdue job moves to `attempted`
    have h1 := hi.nodup; have h2 := hi.app
    rename_i hw _ j js heq
    simp only [tracked, heq] at h1 h2
    constructor
    · simpa [setProg, tracked] using L3 _ _ _ _ h1
    · intro x hx
      apply h2 x
      simp only [setProg, tracked, List.map_append, List.mem_append, List.map_cons, List.map_nil, List.mem_cons,
        List.not_mem_nil, or_false] at hx ⊢
      rcases hx with ((hx | hx) | hx) | hx
      · exact Or.inl (Or.inl hx)
      · exact Or.inl (Or.inr (Or.inl hx))
      · exact Or.inl (Or.inr (Or.inr hx))
      · exact Or.inr hx


theorem EOInv_step (s : St) (a : Act) (s' : St) (hi : EOInv s) (h : step s a = some s') : EOInv s' := by
  unfold step at h
  split at h
  · split at h <;> simp at h
    subst h
    exact ⟨by simpa [tracked] using hi.nodup, by simpa [tracked] using hi.app⟩
  · split at h
    · split at h
      · exact EOInv_startOp _ _ _ _ hi h
      · simp at h
    · exact EOInv_execOp _ _ _ _ _ _ hi h

end MoreExec.Timeout
