/- The sleep invariant of the timeout thread (C03 no-lost-wake-up / C09 "at the deadline"):
   whenever the worker has computed its wait time (or is parked), its event is clear and no producer is between
   its mutation and its `set`, the wake-up time is not later than the deadline of any job in `_jobs`. -/
import MoreExec.Proofs.Timeout.Basic
import MoreExec.Proofs.Timeout.K3

namespace MoreExec.Timeout

/-- Nobody owes a `set`: no thread is between a mutation and the `_jobs_write.set()` that follows it. -/
def NoOwed (s : St) : Prop := ∀ t, (getProg s t).head? ≠ some Op.oSet

def Bound (s : St) (j : Job) : Prop :=
  match s.wst with
  | .none => True
  | .computed wt wk => wt = some 0 ∨ ∃ w, wk = some w ∧ w ≤ j.deadline
  | .parked wk => ∃ w, wk = some w ∧ w ≤ j.deadline

def SI (s : St) : Prop := s.flag = false → NoOwed s → ∀ j ∈ s.jobs, Bound s j

theorem SI_init : SI init := by
  intro _ _ j hj; simp [init] at hj

theorem getProg_setProg (s : St) (t t' : Tid) (p : List Op) :
    getProg (setProg s t p) t' = if t' = t then p else getProg s t' := by
  unfold getProg setProg
  simp only [List.lookup_cons]
  by_cases h : t' = t
  · subst h; simp
  · have hb : (t' == t) = false := by simpa using h
    simp only [hb, h, if_false]
    congr 1
    induction s.progs with
    | nil => rfl
    | cons x xs ih =>
      obtain ⟨k, v⟩ := x
      simp only [List.filter_cons, List.lookup_cons]
      by_cases hk : k = t
      · subst hk
        have : (t' == k) = false := by simpa using h
        simp [this, ih]
      · have hk2 : (k != t) = true := by simpa using hk
        simp only [hk2, if_true, List.lookup_cons]
        split <;> simp_all

/-- Generic preservation for a step of thread `t` whose head operation is not `oSet` and which leaves
`jobs`, `flag`, `wst` and the other threads' programs alone. -/
theorem SI_generic {s s2 : St} (hi : SI s) (t : Tid) (op : Op) (rest p : List Op)
    (hprog : getProg s t = op :: rest) (hop : op ≠ Op.oSet)
    (hjobs : s2.jobs = s.jobs) (hflag : s2.flag = s.flag) (hwst : s2.wst = s.wst)
    (hprogs : ∀ t', getProg s2 t' = getProg s t') : SI (setProg s2 t p) := by
  intro hf hno j hj
  have hno' : NoOwed s := by
    intro t'
    by_cases h : t' = t
    · subst h; rw [hprog]; simpa using hop
    · have := hno t'
      rw [getProg_setProg] at this
      simpa [h, hprogs t'] using this
  have := hi (by simpa [hflag] using hf) hno' j (by simpa [hjobs] using hj)
  simpa [Bound, hwst] using this


theorem SI_wstNone {s2 : St} (t : Tid) (p : List Op) (h : s2.wst = WSt.none) : SI (setProg s2 t p) := by
  intro _ _ j _
  simp [Bound, setProg, h]

theorem SI_flagTrue {s2 : St} (t : Tid) (p : List Op) (h : s2.flag = true) : SI (setProg s2 t p) := by
  intro hf
  simp [setProg, h] at hf

theorem SI_owed {s2 : St} (t : Tid) (rest : List Op) : SI (setProg s2 t (Op.oSet :: rest)) := by
  intro _ hno
  have := hno t
  rw [getProg_setProg] at this
  simp at this

/-- jobs may shrink -/
theorem SI_subjobs {s s2 : St} (hi : SI s) (t : Tid) (op : Op) (rest p : List Op)
    (hprog : getProg s t = op :: rest) (hop : op ≠ Op.oSet)
    (hjobs : ∀ j ∈ s2.jobs, j ∈ s.jobs) (hflag : s2.flag = s.flag) (hwst : s2.wst = s.wst)
    (hprogs : ∀ t', getProg s2 t' = getProg s t') : SI (setProg s2 t p) := by
  intro hf hno j hj
  have hno' : NoOwed s := by
    intro t'
    by_cases h : t' = t
    · subst h; rw [hprog]; simpa using hop
    · have := hno t'
      rw [getProg_setProg] at this
      simpa [h, hprogs t'] using this
  have := hi (by simpa [hflag] using hf) hno' j (hjobs j (by simpa using hj))
  simpa [Bound, hwst] using this

theorem SI_generic0 {s s2 : St} (hi : SI s) (t : Tid) (p : List Op)
    (hprog : getProg s t = [])
    (hjobs : s2.jobs = s.jobs) (hflag : s2.flag = s.flag) (hwst : s2.wst = s.wst)
    (hprogs : ∀ t', getProg s2 t' = getProg s t') : SI (setProg s2 t p) := by
  intro hf hno j hj
  have hno' : NoOwed s := by
    intro t'
    by_cases h : t' = t
    · subst h; rw [hprog]; simp
    · have := hno t'
      rw [getProg_setProg] at this
      simpa [h, hprogs t'] using this
  have := hi (by simpa [hflag] using hf) hno' j (by simpa [hjobs] using hj)
  simpa [Bound, hwst] using this

theorem SI_startOp (s : St) (t : Tid) (e : Ev) (s' : St) (hi : SI s) (hprog : getProg s t = [])
    (h : startOp s t e = some s') : SI s' := by
  unfold startOp at h
  split at h <;> try (simp at h)
  all_goals (try split at h) <;> try (simp at h)
  all_goals elim_step
  all_goals first
    | exact hi
    | exact SI_generic0 hi t _ hprog rfl rfl rfl (fun _ => rfl)

theorem SI_execOp (s : St) (t : Tid) (op : Op) (rest : List Op) (l : Lbl) (s' : St) (hi : SI s)
    (hprog : getProg s t = op :: rest)
    (h : execOp s t op rest l = some s') : SI s' := by
  unfold execOp at h
  split at h <;> try (simp at h)
  all_goals (try split at h) <;> try (simp at h)
  all_goals (try split at h) <;> try (simp at h)
  all_goals (try split at h) <;> try (simp at h)
  all_goals elim_step
  all_goals first
    | exact SI_generic hi t _ rest _ hprog (by simp) rfl rfl rfl (fun _ => rfl)
    | exact SI_owed t _
    | exact SI_flagTrue t _ rfl
    | exact SI_wstNone t _ rfl
    | exact SI_subjobs hi t _ rest _ hprog (by simp) (fun j hj => (K3_model_agrees s).2 j hj) rfl rfl (fun _ => rfl)
    | skip
  · -- tCancelNext with nothing left to cancel: the wait time is computed from the current `_jobs`
    intro hf hno j hj
    simp only [setProg] at hj ⊢
    have hb := (K3_wait_bound (s.jobs.map (fun j => (⟨⟨j.fut, false⟩, j.deadline⟩ : Gen.GJob))) s.now).2
      ⟨⟨j.fut, false⟩, j.deadline⟩ (List.mem_map_of_mem hj)
    obtain ⟨w, hw, hle⟩ := hb
    simp only [Bound, waitTime, hw, Option.map_some]
    by_cases h0 : w = 0
    · left; simp [h0]
    · right; exact ⟨s.now + w, rfl, hle h0⟩
  · -- parking: the bound computed before is the bound while parked
    intro hf hno j hj
    rename_i d wk heq
    have hno' : NoOwed s := by
      intro t'
      by_cases h : t' = t
      · subst h; rw [hprog]; simp
      · have := hno t'
        rw [getProg_setProg] at this
        simpa [h, getProg] using this
    have := hi (by simpa [setProg] using hf) hno' j (by simpa [setProg] using hj)
    simp only [Bound, heq] at this
    simp only [Bound, setProg]
    rcases this with h0 | h1
    · exact absurd h0 hg2.2
    · exact h1


theorem SI_step (s : St) (a : Act) (s' : St) (hi : SI s) (h : step s a = some s') : SI s' := by
  unfold step at h
  split at h
  · split at h <;> simp at h
    subst h
    intro hf hno j hj
    have := hi hf (fun t => by simpa [getProg] using hno t) j hj
    simpa [Bound] using this
  · split at h
    · rename_i hp
      split at h
      · exact SI_startOp _ _ _ _ hi hp h
      · simp at h
    · rename_i op rest hp
      exact SI_execOp _ _ _ _ _ _ hi hp h

end MoreExec.Timeout
