/- Closed-form characterisation of the regenerated kernel K3 (timeout.py `_partition_jobs`, wait time). -/
import MoreExec.Model.Timeout

namespace MoreExec.Timeout
open MoreExec.Gen MoreExec.Gen.K3

theorem loop1_spec (now : Nat) (jobs ov pe : List GJob) :
    partitionJobs_loop1 now jobs ov pe =
      (ov ++ jobs.filter (fun j => !j.future.done && decide (j.deadline < now)),
       pe ++ jobs.filter (fun j => !j.future.done && !decide (j.deadline < now))) := by
  induction jobs generalizing ov pe with
  | nil => simp [partitionJobs_loop1]
  | cons j js ih =>
    simp only [partitionJobs_loop1]
    split
    · rename_i h; rw [ih]; simp [h]
    · rename_i h
      split
      · rename_i h2; rw [ih]; simp [h, h2]
      · rename_i h2; rw [ih]; simp [h, h2]

/-- `_partition_jobs` is a pair of filters: done futures are dropped, the rest split on `deadline < now`. -/
theorem K3_partition_spec (jobs : List GJob) (now : Nat) :
    partitionJobs jobs now =
      (jobs.filter (fun j => !j.future.done && !decide (j.deadline < now)),
       jobs.filter (fun j => !j.future.done && decide (j.deadline < now))) := by
  simp [partitionJobs, loop1_spec]

/-- Everything classified overdue is strictly past its deadline and not done. -/
theorem K3_overdue_strict (jobs : List GJob) (now : Nat) :
    ∀ j ∈ (partitionJobs jobs now).2, j.deadline < now ∧ j.future.done = false ∧ j ∈ jobs := by
  intro j hj
  rw [K3_partition_spec] at hj
  simp at hj
  exact ⟨hj.2.2, hj.2.1, hj.1⟩

theorem listFoldMin_le (xs : List Nat) (x : Nat) (h : x ∈ xs) : listFoldMin xs ≤ x := by
  induction xs with
  | nil => cases h
  | cons y ys ih =>
    cases ys with
    | nil => simp at h; subst h; simp [listFoldMin]
    | cons z zs =>
      simp only [listFoldMin]
      rcases List.mem_cons.mp h with h | h
      · subst h; exact Nat.min_le_left _ _
      · exact Nat.le_trans (Nat.min_le_right _ _) (ih h)

/-- The wait time never overshoots any job in the list it was computed from. -/
theorem K3_wait_bound (pending : List GJob) (now : Nat) :
    (pending = [] → K3.waitTime pending now = none) ∧
    (∀ j ∈ pending, ∃ w, K3.waitTime pending now = some w ∧ (w ≠ 0 → now + w ≤ j.deadline)) := by
  constructor
  · intro h; subst h; simp [K3.waitTime]
  · intro j hj
    have hne : pending ≠ [] := by intro h; subst h; cases hj
    simp only [K3.waitTime]
    have : (!pending.isEmpty) = true := by cases pending <;> simp_all
    simp only [this, if_true]
    refine ⟨_, rfl, ?_⟩
    intro hw
    have hmin := listFoldMin_le (pending.map (fun job => job.deadline)) j.deadline (List.mem_map_of_mem hj)
    omega

/-- The model's view of K3 (what `tPartition` computes). -/
theorem K3_model_agrees (s : St) :
    (∀ j ∈ overdue s, j.deadline < s.now ∧ (getFut s j.fut).done = false ∧ j ∈ s.jobs) ∧
    (∀ j ∈ pendingJobs s, j ∈ s.jobs) := by
  constructor
  · intro j hj
    simp only [overdue, List.mem_map] at hj
    obtain ⟨g, hg, rfl⟩ := hj
    obtain ⟨h1, h2, h3⟩ := K3_overdue_strict _ _ g hg
    simp only [List.mem_map] at h3
    obtain ⟨j', hj', rfl⟩ := h3
    simp [ofG, toG] at *
    exact ⟨h1, h2, hj'⟩
  · intro j hj
    simp only [pendingJobs, List.mem_map] at hj
    obtain ⟨g, hg, rfl⟩ := hj
    rw [K3_partition_spec] at hg
    simp at hg
    obtain ⟨⟨j', hj', rfl⟩, _⟩ := hg
    simpa [ofG, toG] using hj'

end MoreExec.Timeout
