/-
  C06 — Cancel: True means the work never starts; it stops retries; it propagates.
  Theorems over the Retry model (retry clause and forwarding to the delegate) and the Throttle model (queued jobs);
  forwarding through map / flat_map / f_or / f_and / f_zip is proved with those components (C13, C14, C15).
-/
import MoreExec.Proofs.Retry.Timing
import MoreExec.Gen.K2
import MoreExec.Gen.K15
import MoreExec.Proofs.Throttle.Fifo
import MoreExec.Props.C14
import MoreExec.Props.C15

namespace MoreExec.Retry

/-- (retry stops) Once the scan section of ANY `cancel()` call on a future has run — whether that call goes on to
return True or False — no callable is ever handed to the delegate for that future again. -/
theorem C06_retry_stops (as : List Act) (j : Job) (bs : List Act) (s' : St)
    (hrun : run init (as ++ Act.submitNow j :: bs) = some s') :
    ∃ m m', run init as = some m ∧ step m (.submitNow j) = some m' ∧ j.fut ∉ m.cancelReq := by
  refine (transition_property step Inv (fun m a _ => ∀ j, a = Act.submitNow j → j.fut ∉ m.cancelReq)
      inv_step ?_ init inv_init as (.submitNow j) bs s' hrun).imp
    fun m hm => hm.imp fun m' ⟨h1, h2, h3⟩ => ⟨h1, h2, h3 j rfl⟩
  intro m a m' hinv hstep j hj hc
  subst hj
  simp only [step] at hstep
  split at hstep
  · rename_i hg
    obtain ⟨hjm, _, hstop, _⟩ := hg
    have := hinv.i1.stop j.fut hc j hjm rfl
    rw [hstop] at this; cases this
  · cases hstep

/-- (facts of retry.py, regenerated) the sections the model's actions stand for are as the model assumes: `_submit_now` pops, re-checks
`done()`, submits and appends in that order under the future's lock, with the delegate called outside the executor lock and its callback
attached after the lock is released; `_cancel` scans (pops a queued job / sets `stop_retry`) under the executor lock before it calls
`delegate.cancel()` outside it; `_retry` pops, appends and inherits `stop_retry` in one section. -/
theorem C06_source_protocol :
    MoreExec.Gen.K2.submitNowProtocol = true ∧ MoreExec.Gen.K2.cancelScanProtocol = true ∧ MoreExec.Gen.K2.retrySectionProtocol = true := by
  decide

/-- terminal states are for ever -/
theorem done_mono (s : St) (a : Act) (s' : St) (h : step s a = some s') (f : Nat) (hf : f ∈ s.done) : f ∈ s'.done := by
  cases a with
  | submit g => simp only [step] at h; split at h <;> cases h; exact hf
  | submitNow j =>
    simp only [step] at h
    split at h
    · split at h <;> (cases h; exact hf)
    · cases h
  | submitApp => simp only [step] at h; split at h <;> cases h; exact hf
  | discard j =>
    simp only [step] at h
    split at h
    · cases h; simp only; split
      · exact hf
      · exact List.mem_append_left _ hf
    · cases h
  | ddone d c => simp only [step] at h; split at h <;> cases h; exact hf
  | cbCancelled d =>
    simp only [step] at h
    split at h
    · split at h <;> cases h; exact hf
    · cases h
  | cbMark g d i =>
    simp only [step] at h
    (repeat' split at h) <;> first
      | (cases h; exact hf)
      | (cases h; simp only; split <;> first | exact hf | exact List.mem_append_left _ hf)
      | (cases h; exact List.mem_append_left _ hf)
      | cases h
  | cbPolicy d r =>
    simp only [step] at h
    split at h
    · split at h
      · split at h
        · split at h <;> cases h; exact hf
        · cases h; exact hf
      · cases h
    · cases h
  | cbRetry d =>
    simp only [step] at h
    split at h
    · cases h; exact hf
    · cases h
  | cbFinal d =>
    simp only [step] at h
    split at h
    · cases h; simp only; split
      · exact hf
      · exact List.mem_append_left _ hf
    · cases h
  | cancelScan g =>
    simp only [step] at h
    split at h
    · split at h
      · cases h; exact hf
      · split at h <;> (cases h; exact hf)
    · cases h
  | cancelDel g b =>
    simp only [step] at h
    split at h
    · split at h
      · split at h
        · cases h; exact hf
        · split at h
          · cases h
          · cases h; exact hf
      · split at h
        · cases h
        · cases h; exact hf
    · cases h
  | cancelEnd g =>
    simp only [step] at h
    split at h
    · cases h; simp only; split
      · exact hf
      · exact List.mem_append_left _ hf
    · cases h; simp only; split
      · exact hf
      · exact List.mem_append_left _ hf
    · cases h; exact hf
    · cases h
  | tick t => simp only [step] at h; split at h <;> cases h; exact hf

/-- (True sticks) a future that has become terminal (in particular: cancelled by a `cancel()` that returned True)
stays terminal through every later run. -/
theorem C06_terminal_is_forever (s : St) (as : List Act) (s' : St) (h : run s as = some s') (f : Nat) (hf : f ∈ s.done) :
    f ∈ s'.done :=
  invariant_run step (fun x => f ∈ x.done) (fun m a m' hi hs => done_mono m a m' hs f hi) s hf as s' h

/-- (True ⇒ never started again) after a `cancel()` that returned True the future is terminal, and a hand-over for a
terminal future submits nothing (`_submit_now` re-checks `done()` under the future's lock). -/
theorem C06_no_submit_when_done (s s' : St) (j : Job) (h : step s (.submitNow j) = some s') (hd : j.fut ∈ s.done) :
    s'.submits = s.submits ∧ s'.nextDel = s.nextDel := by
  simp only [step, hd, ↓reduceIte] at h
  split at h
  · cases h; exact ⟨rfl, rfl⟩
  · cases h

/-- (forwarding) a `cancel()` on a future whose attempt is in flight issues `cancel()` on exactly that attempt's
delegate future: the only enabled continuation of the scan is `cancelDel` on it. -/
theorem C06_forwards_to_delegate (s s' : St) (f : Nat) (j : Job) (d : Nat) (h : step s (.cancelScan f) = some s')
    (hj : jobOfFut s f = some j) (hd : j.del = some d) :
    s'.cancelling = s.cancelling ++ [(f, .scanned (some d) false)] := by
  simp only [step] at h
  split at h
  · rw [hj] at h
    simp only [hd] at h
    cases h; rfl
  · cases h

end MoreExec.Retry

namespace MoreExec.Throttle

/-- (throttle) a job removed from the queue by `cancel()` is never handed to the delegate: hand-overs are a prefix of
the submissions that were not cancelled. -/
theorem C06_cancelled_queued_never_handed (c0 : Option Nat) (as : List Act) (s : St) (hrun : run (init c0) as = some s)
    (k : Nat) (hk : k ∈ s.cancelled) : k ∉ s.handed := by
  have h := invariant_run step FInv finv_step (init c0) (finv_init c0) as s hrun
  intro hh
  have : k ∈ live s := by rw [← h.order]; simp [hh]
  simp only [live, List.mem_filter, List.contains_eq_mem, Bool.not_eq_true', decide_eq_false_iff_not] at this
  exact this.2 hk

end MoreExec.Throttle

namespace MoreExec.MapFut

/-- (map.py, regenerated) `MapFuture._me_cancel` - the cancel hook of every map / flat_map / timeout / throttle-derived future - forwards
the request to the delegate while there is one, and REFUSES (False) when there is none: a future that is being resolved (its delegate
has finished, the mapping function is running and may be about to return an inner future) has nothing to forward the request to, so
`cancel()` must not claim success. -/
theorem C06_map_cancel_forwards_or_refuses : MoreExec.Gen.K15.meCancelForwardsOrRefuses = true := by decide

end MoreExec.MapFut
