/-
  C16 — f_apply calls the function once, with every argument in its place.  Any arity (structural induction).
-/
import MoreExec.Model.Apply
import MoreExec.Gen.K18

namespace MoreExec.Apply

/-- positional values of a wrapped-argument list, in order -/
def posVals : List (Option Key × Val) → List Val
  | [] => []
  | (none, x) :: as => x :: posVals as
  | (some _, _) :: as => posVals as

/-- keyword bindings of a wrapped-argument list (the closure of a later argument updates the dict first) -/
def kwFold : List (Option Key × Val) → List (Key × Val) → List (Key × Val)
  | [], kw => kw
  | (none, _) :: as, kw => kwFold as kw
  | (some k, x) :: as, kw => kwSet (kwFold as kw) k x

def build (c : Clo) (as : List (Option Key × Val)) : Clo := as.foldl (fun c a => .runner c a.1 a.2) c

theorem callClo_build (c : Clo) (as : List (Option Key × Val)) (pos : List Val) (kw : List (Key × Val)) :
    callClo (build c as) pos kw = callClo c (posVals as ++ pos) (kwFold as kw) := by
  induction as generalizing c with
  | nil => rfl
  | cons a as ih =>
    obtain ⟨k, x⟩ := a
    simp only [build, List.foldl_cons] at ih ⊢
    rw [ih]
    cases k with
    | none => simp [callClo, posVals, kwFold]
    | some k => simp [callClo, posVals, kwFold]

/-- When every input succeeds the nested flat-maps deliver the closure built from all arguments, called with no
further arguments. -/
theorem wrapped_all_ok (c : Clo) (as : List (Option Key × Val)) :
    wrapped (.ok c) (as.map (fun a => (a.1, Outcome.ok a.2))) = .ok (callClo (build c as) [] []) := by
  induction as generalizing c with
  | nil => rfl
  | cons a as ih =>
    simp only [List.map_cons, wrapped, build, List.foldl_cons]
    exact ih _

theorem kwSet_lookup (kw : List (Key × Val)) (k k' : Key) (x : Val) :
    (kwSet kw k x).lookup k' = if k' = k then some x else kw.lookup k' := by
  simp only [kwSet, List.lookup_cons]
  by_cases h : k' = k
  · subst h; simp
  · have hb : (k' == k) = false := by simpa using h
    simp only [hb, h, if_false]
    induction kw with
    | nil => rfl
    | cons p ps ih =>
      obtain ⟨a, b⟩ := p
      simp only [List.filter_cons, List.lookup_cons]
      by_cases ha : a = k
      · subst ha
        have : (k' == a) = false := by simpa using h
        simp [this, ih]
      · have : (a != k) = true := by simpa using ha
        simp only [this, if_true, List.lookup_cons]
        split <;> simp_all

theorem posVals_split (pos : List Val) (kws : List (Key × Val)) :
    posVals (pos.map (fun x => ((none : Option Key), x)) ++ kws.map (fun p => (some p.1, p.2))) = pos := by
  induction pos with
  | nil =>
    simp only [List.map_nil, List.nil_append]
    induction kws with
    | nil => rfl
    | cons p ps ih => simpa [posVals] using ih
  | cons x xs ih => simp [posVals, ih]

theorem kwFold_split (pos : List Val) (kws : List (Key × Val)) (k : Key) :
    (kwFold (pos.map (fun x => ((none : Option Key), x)) ++ kws.map (fun p => (some p.1, p.2))) []).lookup k
      = kws.lookup k := by
  induction pos with
  | nil =>
    simp only [List.map_nil, List.nil_append]
    induction kws with
    | nil => rfl
    | cons p ps ih =>
      obtain ⟨a, b⟩ := p
      simp only [List.map_cons, kwFold, kwSet_lookup, List.lookup_cons]
      by_cases hka : k = a
      · subst hka; simp
      · have hb : (k == a) = false := by simpa using hka
        simp [hka, hb, ih]
  | cons x xs ih => simpa [kwFold] using ih

theorem lookup_of_mem_nodup (kws : List (Key × Val)) (hk : (kws.map (·.1)).Nodup) (p : Key × Val) (hp : p ∈ kws) :
    kws.lookup p.1 = some p.2 := by
  induction kws with
  | nil => cases hp
  | cons q qs ih =>
    obtain ⟨a, b⟩ := q
    simp only [List.map_cons, List.nodup_cons, List.mem_map, not_exists, not_and] at hk
    rcases List.mem_cons.mp hp with rfl | hp
    · simp [List.lookup_cons]
    · have hne : p.1 ≠ a := fun e => hk.1 p hp e
      have hb : (p.1 == a) = false := by simpa using hne
      simp only [List.lookup_cons, hb]
      exact ih hk.2 hp

theorem mem_of_lookup_isSome (kws : List (Key × Val)) (k : Key) (h : (kws.lookup k).isSome) : k ∈ kws.map (·.1) := by
  induction kws with
  | nil => simp at h
  | cons q qs ih =>
    obtain ⟨a, b⟩ := q
    simp only [List.lookup_cons] at h
    by_cases hkq : k = a
    · subst hkq; simp
    · have hb : (k == a) = false := by simpa using hkq
      simp only [hb] at h
      simp only [List.map_cons, List.mem_cons]
      exact Or.inr (ih h)

/-- **Argument order** (any arity): the user's function is finally called with the positional arguments in their
original order and every keyword argument under its own name (and nothing else), when all inputs succeed. -/
theorem C16_argument_order (pos : List Val) (kws : List (Key × Val)) (hk : (kws.map (·.1)).Nodup) :
    ∃ gotPos gotKw,
      fApply (.ok ()) (pos.map .ok) (kws.map (fun p => (p.1, Outcome.ok p.2))) = .ok (gotPos, gotKw) ∧
      gotPos = pos ∧
      (∀ p ∈ kws, gotKw.lookup p.1 = some p.2) ∧
      (∀ k, (gotKw.lookup k).isSome → k ∈ kws.map (·.1)) := by
  have hargs : (pos.map Outcome.ok).map (fun o => ((none : Option Key), o)) ++
      (kws.map (fun p => (p.1, Outcome.ok p.2))).map (fun p => (some p.1, p.2))
      = (pos.map (fun x => ((none : Option Key), x)) ++ kws.map (fun p => (some p.1, p.2))).map
          (fun a => (a.1, Outcome.ok a.2)) := by
    simp [List.map_append, List.map_map, Function.comp_def]
  refine ⟨posVals (pos.map (fun x => ((none : Option Key), x)) ++ kws.map (fun p => (some p.1, p.2))) ++ [],
    kwFold (pos.map (fun x => ((none : Option Key), x)) ++ kws.map (fun p => (some p.1, p.2))) [], ?_, ?_, ?_, ?_⟩
  · simp only [fApply, hargs, wrapped_all_ok, callClo_build, callClo]
  · simp [posVals_split]
  · intro p hp
    rw [kwFold_split]
    exact lookup_of_mem_nodup kws hk p hp
  · intro k hk'
    rw [kwFold_split] at hk'
    exact mem_of_lookup_isSome kws k hk'

/-- **Called once, only after all inputs resolved successfully**: the function is called (the result is `ok`)
iff the function future and every argument future succeeded; otherwise the output carries the exception of one
of the failed inputs (or is cancelled if one was cancelled) and the function is never called. -/
theorem C16_called_iff_all_ok (fnFut : Outcome Clo) (args : List (Option Key × Outcome Val)) :
    (∃ r, wrapped fnFut args = .ok r) ↔
      ((∃ c, fnFut = .ok c) ∧ ∀ a ∈ args, ∃ x, a.2 = .ok x) := by
  induction args generalizing fnFut with
  | nil =>
    cases fnFut <;> simp [wrapped]
  | cons a as ih =>
    obtain ⟨k, fx⟩ := a
    simp only [wrapped]
    rw [ih]
    cases fx <;> cases fnFut <;> simp

/-- **Failure propagates**: if the output failed with `e`, then `e` is the exception of the function future or of
one of the argument futures. -/
theorem C16_failure_from_input (fnFut : Outcome Clo) (args : List (Option Key × Outcome Val)) (e : Exc)
    (h : wrapped fnFut args = .err e) : fnFut = .err e ∨ ∃ a ∈ args, a.2 = .err e := by
  induction args generalizing fnFut with
  | nil => cases fnFut <;> simp_all [wrapped]
  | cons a as ih =>
    obtain ⟨k, fx⟩ := a
    simp only [wrapped] at h
    rcases ih _ h with h1 | ⟨b, hb, hbe⟩
    · cases fx <;> cases fnFut <;> simp_all
    · exact Or.inr ⟨b, List.mem_cons_of_mem _ hb, hbe⟩

/-! Non-vacuity: `f_apply(f_return(fn), a, b, x=c, y=d)` -/
example : fApply (.ok ()) [.ok 1, .ok 2] [(10, .ok 3), (11, .ok 4)] = .ok ([1, 2], [(10, 3), (11, 4)]) := by rfl
example : fApply (.ok ()) [.ok 1, .err 7] [(10, .ok 3)] = .err 7 := by rfl

/-- (the source of futures/apply.py, regenerated) every clause of `Model/Apply.lean` still transcribes the statement it was written
from: `_wrap_args` lists positional arguments first, then keywords; `_wrapped_f_apply` calls `fn()` when nothing is left, otherwise takes
the FIRST remaining argument, wraps the function in `fn_runner` (insert at index 0 of the positional list / set the keyword) by a
flat-map over the argument future around a map over the function future, and recurses on the rest.  The model is hand-written: any
rewrite of these statements, harmless or not, breaks this obligation and sends the check to its differential. -/
theorem C16_source_facts : MoreExec.Gen.K18.allApplyFactsHold = true := by decide

end MoreExec.Apply
