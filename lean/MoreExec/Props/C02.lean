/-
  C02 — Every returned future obeys the concurrent.futures.Future protocol.
  Theorems over Model/MeFuture.lean: all interleavings of any number of threads calling add_done_callback / cancel /
  set_* on one future.
-/
import MoreExec.Model.MeFuture
import MoreExec.Gen.K2

namespace MoreExec.MeFuture

structure Inv (s : St) : Prop where
  nodup : s.registered.Nodup
  part : (s.stored ++ owedList s ++ s.direct.map (·.2) ++ s.invoked).Perm s.registered
  pend : s.st = .pending → s.owed = none ∧ s.direct = [] ∧ s.invoked = [] ∧ s.cancelTrue = 0 ∧ s.notified = false
  done : s.st ≠ .pending → s.stored = [] ∧ s.notified = true
  ctrue : 0 < s.cancelTrue → s.st = .cancelled

theorem inv_init : Inv init := by constructor <;> simp [init, owedList]

theorem permA (a o d i r : List Nat) (c : Nat) (h : (a ++ o ++ d ++ i).Perm r) : (a ++ o ++ (d ++ [c]) ++ i).Perm (r ++ [c]) := by
  refine List.perm_iff_count.mpr (fun x => ?_)
  have := List.perm_iff_count.mp h x
  simp only [List.count_append, List.count_cons, List.count_nil] at *
  omega

theorem permB (a o d d' i r : List Nat) (c : Nat) (hd : d.Perm (c :: d')) (h : (a ++ o ++ d ++ i).Perm r) :
    (a ++ o ++ d' ++ (i ++ [c])).Perm r := by
  refine List.perm_iff_count.mpr (fun x => ?_)
  have h1 := List.perm_iff_count.mp h x
  have h2 := List.perm_iff_count.mp hd x
  simp only [List.count_append, List.count_cons, List.count_nil] at *
  omega

theorem permC (a rest d i r : List Nat) (c : Nat) (h : (a ++ (c :: rest) ++ d ++ i).Perm r) :
    (a ++ rest ++ d ++ (i ++ [c])).Perm r := by
  refine List.perm_iff_count.mpr (fun x => ?_)
  have h1 := List.perm_iff_count.mp h x
  simp only [List.count_append, List.count_cons, List.count_nil] at *
  omega

theorem inv_step (s : St) (a : Act) (s' : St) (hi : Inv s) (h : step s a = some s') : Inv s' := by
  obtain ⟨h1, h2, h3, h4, h5⟩ := hi
  cases a with
  | addStore t c =>
    simp only [step] at h
    split at h
    · rename_i hg; cases h
      obtain ⟨p1, p2, p3, p4, p5⟩ := h3 hg.1
      refine ⟨?_, ?_, fun _ => ⟨p1, p2, p3, p4, p5⟩, (by intro hn; exact absurd hg.1 hn), h5⟩
      · exact List.nodup_append.mpr ⟨h1, by simp, by intro a ha b hb e; simp at hb; subst hb; exact hg.2 (e ▸ ha)⟩
      · simp only [owedList, p1, p2, p3, List.map_nil, List.append_nil] at h2 ⊢
        exact List.Perm.append_right _ h2
    · cases h
  | addDirect t c =>
    simp only [step] at h
    split at h
    · rename_i hg; cases h
      refine ⟨?_, ?_, (by intro hp; exact absurd hp hg.1), h4, h5⟩
      · exact List.nodup_append.mpr ⟨h1, by simp, by intro a ha b hb e; simp at hb; subst hb; exact hg.2 (e ▸ ha)⟩
      · have : owedList { s with direct := s.direct ++ [(t, c)], registered := s.registered ++ [c] } = owedList s := rfl
        rw [this]
        simp only [List.map_append, List.map_cons, List.map_nil]
        exact permA _ _ _ _ _ c h2
    · cases h
  | callDirect t c =>
    simp only [step] at h
    split at h
    · rename_i hg; cases h
      have hne : s.st ≠ .pending := by
        intro hp; have := (h3 hp).2.1; rw [this] at hg; cases hg
      refine ⟨h1, ?_, (by intro hp; exact absurd hp hne), h4, h5⟩
      have hperm : (s.direct.map (·.2)).Perm (c :: (s.direct.erase (t, c)).map (·.2)) := by
        have := (List.perm_cons_erase hg).map (·.2)
        simpa using this
      have : owedList { s with direct := s.direct.erase (t, c), invoked := s.invoked ++ [c] } = owedList s := rfl
      rw [this]
      exact permB _ _ _ _ _ _ c hperm h2
    · cases h
  | finish t =>
    simp only [step] at h
    split at h
    · rename_i hg; cases h
      obtain ⟨p1, p2, p3, p4, p5⟩ := h3 hg
      refine ⟨h1, ?_, (by intro hp; cases hp), fun _ => ⟨rfl, rfl⟩, (by intro hc; rw [p4] at hc; cases hc)⟩
      simpa [owedList, p1, p2, p3] using h2
    · cases h
  | cancelOk t =>
    simp only [step] at h
    split at h
    · rename_i hg; cases h
      obtain ⟨p1, p2, p3, p4, p5⟩ := h3 hg
      refine ⟨h1, ?_, (by intro hp; cases hp), fun _ => ⟨rfl, rfl⟩, fun _ => rfl⟩
      simpa [owedList, p1, p2, p3] using h2
    · cases h
  | cancelNoop t =>
    simp only [step] at h
    split at h
    · rename_i hg; cases h
      exact ⟨h1, h2, (by intro hp; rw [hg] at hp; cases hp), h4, fun _ => hg⟩
    · split at h
      · cases h; exact ⟨h1, h2, h3, h4, h5⟩
      · cases h
  | cancelVeto t =>
    simp only [step] at h
    split at h
    · cases h; exact ⟨h1, h2, h3, h4, h5⟩
    · cases h
  | setLate t =>
    simp only [step] at h
    split at h
    · cases h; exact ⟨h1, h2, h3, h4, h5⟩
    · cases h
  | invokeNext t =>
    simp only [step] at h
    split at h
    · rename_i t' c rest ho
      split at h
      · cases h
        have hne : s.st ≠ .pending := by
          intro hp; have := (h3 hp).1; rw [this] at ho; cases ho
        refine ⟨h1, ?_, (by intro hp; exact absurd hp hne), h4, h5⟩
        have o1 : owedList s = c :: rest := by simp [owedList, ho]
        have o2 : owedList { s with owed := some (t, rest), invoked := s.invoked ++ [c] } = rest := rfl
        rw [o2]; rw [o1] at h2
        exact permC _ _ _ _ _ c h2
      · cases h
    · cases h
  | invokeEnd t =>
    simp only [step] at h
    split at h
    · rename_i t' ho
      split at h
      · cases h
        have hne : s.st ≠ .pending := by
          intro hp; have := (h3 hp).1; rw [this] at ho; cases ho
        refine ⟨h1, ?_, (by intro hp; exact absurd hp hne), h4, h5⟩
        simpa [owedList, ho] using h2
      · cases h
    · cases h

/-- (callbacks: exactly once, only when done) In every reachable state: no callback has been invoked twice, every
invoked callback was registered, none has been invoked while the future is pending; and whenever no thread is in the
middle of its callback duty (nothing owed, no direct call pending) and the future is done, EVERY registered callback —
added before, during or after completion — has been invoked. -/
theorem C02_callback_exactly_once (as : List Act) (s : St) (hrun : run init as = some s) :
    s.invoked.Nodup ∧ (∀ c ∈ s.invoked, c ∈ s.registered) ∧ (s.st = .pending → s.invoked = []) ∧
    (s.st ≠ .pending → s.owed = none → s.direct = [] → s.invoked.Perm s.registered) := by
  have h := invariant_run step Inv inv_step init inv_init as s hrun
  have hnd := h.part.nodup_iff.mpr h.nodup
  refine ⟨?_, ?_, fun hp => (h.pend hp).2.2.1, ?_⟩
  · exact (List.nodup_append.mp hnd).2.1
  · intro c hc; exact h.part.mem_iff.mp (List.mem_append_right _ hc)
  · intro hne ho hd
    have := h.part
    simp only [owedList, ho, hd, (h.done hne).1, List.map_nil, List.append_nil, List.nil_append] at this
    exact this

/-- (terminal outcome set at most once, never changes) every step from a done state leaves the state unchanged. -/
theorem C02_outcome_stable (s s' : St) (a : Act) (h : step s a = some s') (hd : s.st ≠ .pending) : s'.st = s.st := by
  cases a with
  | addStore t c => simp only [step] at h; split at h <;> cases h; rfl
  | addDirect t c => simp only [step] at h; split at h <;> cases h; rfl
  | callDirect t c => simp only [step] at h; split at h <;> cases h; rfl
  | finish t =>
    simp only [step] at h
    split at h
    · rename_i hp; exact absurd hp hd
    · cases h
  | cancelOk t =>
    simp only [step] at h
    split at h
    · rename_i hp; exact absurd hp hd
    · cases h
  | cancelNoop t =>
    simp only [step] at h
    split at h
    · cases h; rfl
    · split at h <;> cases h; rfl
  | cancelVeto t => simp only [step] at h; split at h <;> cases h; rfl
  | setLate t => simp only [step] at h; split at h <;> first | (cases h; rfl) | cases h
  | invokeNext t =>
    simp only [step] at h
    split at h
    · split at h <;> cases h; rfl
    · cases h
  | invokeEnd t =>
    simp only [step] at h
    split at h
    · split at h <;> cases h; rfl
    · cases h

/-- (cancel) `cancel()` never raises (every cancel action of the model returns a boolean); if any `cancel()` has returned
True the future is cancelled, now and — by `C02_outcome_stable` — for ever; on a future that finished normally `cancel()`
returns False (`cancelNoop` does not count as a True return unless the future is cancelled). -/
theorem C02_cancel_true_sticks (as : List Act) (s : St) (hrun : run init as = some s) (hc : 0 < s.cancelTrue) :
    s.st = .cancelled :=
  (invariant_run step Inv inv_step init inv_init as s hrun).ctrue hc

theorem C02_cancel_false_when_finished (s s' : St) (t : Nat) (hf : s.st = .finished) (h : step s (.cancelNoop t) = some s') :
    s'.cancelTrue = s.cancelTrue := by
  simp only [step, hf] at h
  simp at h; cases h; rfl

/-- (waiters) a done future has always notified the `wait()` / `as_completed()` waiters: the library's cancel calls
`set_running_or_notify_cancel()` in the same critical section as `super().cancel()`. -/
theorem C02_waiters_released (as : List Act) (s : St) (hrun : run init as = some s) (hd : s.st ≠ .pending) :
    s.notified = true :=
  ((invariant_run step Inv inv_step init inv_init as s hrun).done hd).2

/-! Non-vacuity -/
def demoRun : List Act :=
  [.addStore 1 10, .addStore 2 11, .cancelVeto 3, .finish 4, .addDirect 1 12, .invokeNext 4, .callDirect 1 12, .setLate 5,
   .cancelNoop 3, .invokeNext 4, .invokeEnd 4]
example : ((run init demoRun).map (fun s => (s.invoked, s.registered, s.owed, s.cancelTrue))) =
    some ([10, 12, 11], [10, 11, 12], none, 0) := by decide

/-- (fact of common.py, regenerated) `_Future.cancel` makes its "already cancelled / already done" checks and calls `_me_cancel()`
while holding the future's own lock: the model's `cancelOk / cancelNoop / cancelVeto` are sections on that lock. -/
theorem C02_cancel_sections_under_lock : MoreExec.Gen.K2.futureCancelUnderLock = true := by decide

end MoreExec.MeFuture
