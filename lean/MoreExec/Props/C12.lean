/-
  C12 — Worker threads and references are reclaimed; pending futures keep working.
  Theorems over Model/Lifecycle.lean (the reference-count bookkeeping and the exit protocol of a worker loop, for every
  placement of the trigger relative to the loop's program counter), plus K14: the facts the model rests on, extracted
  from the current source.  CPython's reference counting, garbage collector and atexit machinery are trusted and appear
  only as counts.
-/
import MoreExec.Model.Lifecycle
import MoreExec.Gen.K14

namespace MoreExec.Lifecycle
open MoreExec.Gen

structure Inv (s : St) : Prop where
  alive : s.collected = true → s.userRefs = 0 ∧ s.pendingRefs = 0 ∧ s.workerHolds = false
  wh : (s.wpc = .working ∨ s.wpc = .releasing) → s.workerHolds = true
  told : mustExit s = true → (s.wpc = .parked ∨ s.wpc = .wait ∨ s.wpc = .releasing) → s.evt = true

theorem inv_init : Inv init := by constructor <;> simp [init, mustExit]

theorem inv_step (s : St) (a : Act) (s' : St) (hi : Inv s) (h : step s a = some s') : Inv s' := by
  obtain ⟨h1, h2, h3⟩ := hi
  cases a with
  | dropUser =>
    simp only [step] at h
    split at h
    · cases h
      refine ⟨?_, h2, h3⟩
      intro hc; obtain ⟨a1, a2, a3⟩ := h1 hc; exact ⟨by simp [a1], a2, a3⟩
    · cases h
  | submitNew =>
    simp only [step] at h
    split at h
    · rename_i hg; cases h
      exact ⟨(by intro hc; simp only at hc; rw [hg.2.1] at hc; cases hc), h2, h3⟩
    · cases h
  | futDone =>
    simp only [step] at h
    split at h
    · cases h
      refine ⟨?_, h2, h3⟩
      intro hc; obtain ⟨a1, a2, a3⟩ := h1 hc; exact ⟨a1, by simp [a2], a3⟩
    · cases h
  | collect =>
    simp only [step] at h
    split at h
    · rename_i hg; cases h
      exact ⟨fun _ => ⟨hg.1, hg.2.1, hg.2.2.1⟩, h2, fun _ _ => rfl⟩
    · cases h
  | atExit => simp only [step] at h; cases h; exact ⟨h1, h2, fun _ _ => rfl⟩
  | shutdownA =>
    simp only [step] at h
    split at h
    · cases h; exact ⟨h1, h2, fun _ _ => rfl⟩
    · cases h
  | wDeref =>
    simp only [step] at h
    split at h
    · rename_i hw
      split at h
      · cases h
        exact ⟨h1, (by intro hp; rcases hp with hp | hp <;> cases hp), (by intro _ hp; rcases hp with hp | hp | hp <;> cases hp)⟩
      · rename_i hc; cases h
        refine ⟨?_, fun _ => rfl, (by intro _ hp; rcases hp with hp | hp | hp <;> cases hp)⟩
        intro hcc; simp only at hcc; exact absurd hcc hc
    · cases h
  | wWork =>
    simp only [step] at h
    split at h
    · rename_i hw
      have hh : s.workerHolds = true := h2 (Or.inl hw)
      split at h
      · cases h
        refine ⟨?_, (by intro hp; rcases hp with hp | hp <;> cases hp), (by intro _ hp; rcases hp with hp | hp | hp <;> cases hp)⟩
        intro hc; obtain ⟨_, _, a3⟩ := h1 hc; rw [hh] at a3; cases a3
      · rename_i hne; cases h
        refine ⟨h1, fun _ => hh, ?_⟩
        intro hm _
        simp only [mustExit, Bool.or_eq_true] at hm
        simp only [Bool.or_eq_true, not_or, Bool.not_eq_true] at hne
        rcases hm with (hm | hm) | hm
        · have := (h1 hm).2.2; rw [hh] at this; cases this
        · rw [hne.1] at hm; cases hm
        · rw [hne.2] at hm; cases hm
    · cases h
  | wRelease =>
    simp only [step] at h
    split at h
    · rename_i hw; cases h
      refine ⟨?_, (by intro hp; rcases hp with hp | hp <;> cases hp), ?_⟩
      · intro hc; obtain ⟨a1, a2, _⟩ := h1 hc; exact ⟨a1, a2, rfl⟩
      · intro hm _; exact h3 hm (Or.inr (Or.inr hw))
    · cases h
  | wWait =>
    simp only [step] at h
    split at h
    · rename_i hw; cases h
      refine ⟨h1, (by intro hp; simp only at hp; split at hp <;> (rcases hp with hp | hp <;> cases hp)), ?_⟩
      intro hm _; exact h3 hm (Or.inr (Or.inl hw))
    · cases h
  | wWake =>
    simp only [step] at h
    split at h
    · cases h
      exact ⟨h1, (by intro hp; rcases hp with hp | hp <;> cases hp), (by intro _ hp; rcases hp with hp | hp | hp <;> cases hp)⟩
    · cases h
  | wClear =>
    simp only [step] at h
    split at h
    · cases h
      exact ⟨h1, (by intro hp; rcases hp with hp | hp <;> cases hp), (by intro _ hp; rcases hp with hp | hp | hp <;> cases hp)⟩
    · cases h

/-- (a pending future keeps enough of its executor alive) the executor object is never collected while a pending future,
a user reference or the worker's own iteration still refers to it. -/
theorem C12_pending_keeps_alive (as : List Act) (s : St) (hrun : run init as = some s) (hp : 0 < s.pendingRefs ∨ 0 < s.userRefs) :
    s.collected = false := by
  have h := invariant_run step Inv inv_step init inv_init as s hrun
  cases hc : s.collected with
  | false => rfl
  | true => obtain ⟨a1, a2, _⟩ := h.alive hc; omega

/-- (the thread is told, whatever it is doing) once the executor has been collected, or shut down, or the interpreter is
exiting, the worker is never parked on - or heading for a wait on - a clear event: the trigger set the event after changing
the state, and only the worker clears it. -/
theorem C12_worker_not_stuck (as : List Act) (s : St) (hrun : run init as = some s) (hm : mustExit s = true) :
    (s.wpc = .parked ∨ s.wpc = .wait ∨ s.wpc = .releasing) → s.evt = true :=
  (invariant_run step Inv inv_step init inv_init as s hrun).told hm

/-- …and from any such state its own steps (no time-out needed) lead to `exited` within eight steps - for EVERY program
counter the trigger may have found it at. -/
theorem C12_worker_exits (s : St) (hm : mustExit s = true)
    (hp : (s.wpc = .parked ∨ s.wpc = .wait ∨ s.wpc = .releasing) → s.evt = true)
    (hc : s.collected = true → s.wpc ≠ .working ∧ s.wpc ≠ .releasing) :
    (workerStep (workerStep (workerStep (workerStep (workerStep (workerStep (workerStep (workerStep s)))))))).wpc = .exited := by
  obtain ⟨u, p, wh, c, sd, ex, ev, w⟩ := s
  cases w <;> cases c <;> cases sd <;> cases ex <;> cases ev <;> simp_all [workerStep, mustExit]

/-- the hypothesis of `C12_worker_exits` about collection is an invariant: a collected executor's worker is not inside an
iteration (it would hold a strong reference) -/
theorem C12_collected_not_in_iteration (as : List Act) (s : St) (hrun : run init as = some s) (hc : s.collected = true) :
    s.wpc ≠ .working ∧ s.wpc ≠ .releasing := by
  have h := invariant_run step Inv inv_step init inv_init as s hrun
  have hf := (h.alive hc).2.2
  constructor <;> (intro hw; have := h.wh (by simp [hw]); rw [hf] at this; cases this)

/-- (source, regenerated) every worker executor hands its thread a weak reference whose callback sets the wake-up event;
every loop dereferences it anew each iteration and drops the strong reference before waiting; done futures clear their
references to delegate, executor and callbacks; the exit hook sets the flag before setting the events. -/
theorem C12_source_facts : K14.allLifecycleFactsHold = true := by decide

/-! Non-vacuity: the user drops the executor while a future is pending and the worker sleeps; the future finishes, the object is
collected, the worker wakes and exits. -/
def demoRun : List Act :=
  [.submitNew, .wDeref, .wWork, .wRelease, .wWait, .dropUser, .futDone, .collect, .wWake, .wClear, .wDeref]
example : ((run init demoRun).map (fun s => (s.collected, s.wpc))) = some (true, .exited) := by decide
/-- collection while the future is pending is not a run -/
example : (run init [.submitNew, .dropUser, .collect]).isSome = false := by decide

end MoreExec.Lifecycle
