/-
  C08 — Poll: one poll at a time, exact descriptor set, first yield wins, prompt polls, cancel function.
  Property theorems only; they quantify over all action sequences of Model/Poll.lean (any number of futures,
  registrations, yields, cancels, poll rounds, in any interleaving).
-/
import MoreExec.Proofs.Poll.Yield
import MoreExec.Gen.K17

namespace MoreExec.Poll

/-- (exact descriptor set) Every snapshot handed to the poll function holds exactly one descriptor — carrying the
delegate's result — for every future registered (its delegate finished successfully) and not yet deregistered
(its resolving call, a yield or a successful cancel, has not run its first callback), in registration order: none
missing, none duplicated, none for a future whose resolving call has already returned. -/
theorem C08_descriptor_set_exact (b : Bool) (as : List Act) (bs : List Act) (s' : St)
    (hrun : run (init b) (as ++ Act.snapshot :: bs) = some s') :
    ∃ m m', run (init b) as = some m ∧ step m .snapshot = some m' ∧
      m'.snap = m.regPairs.filter (fun p => !(m.deregd.contains p.1)) ∧
      (m'.snap.map (·.1)).Nodup ∧
      (∀ f ∈ m.resolvedRet, ∀ p ∈ m'.snap, p.1 ≠ f) := by
  refine (transition_property step InvD (fun m a m' => a = Act.snapshot →
      m'.snap = m.regPairs.filter (fun p => !(m.deregd.contains p.1)) ∧ (m'.snap.map (·.1)).Nodup ∧
      (∀ f ∈ m.resolvedRet, ∀ p ∈ m'.snap, p.1 ≠ f)) invD_step ?_ (init b) (invD_init b) as .snapshot bs s' hrun).imp
    fun m hm => hm.imp fun m' ⟨h1, h2, h3⟩ => ⟨h1, h2, h3 rfl⟩
  intro m a m' hinv hstep ha
  subst ha
  simp only [step] at hstep
  split at hstep
  · cases hstep
    simp only
    refine ⟨hinv.descs, ?_, ?_⟩
    · rw [hinv.descs]
      exact List.Nodup.sublist ((List.filter_sublist (l := m.regPairs)).map _) hinv.nodup
    · intro f hf p hp e
      rw [hinv.descs] at hp
      have := (List.mem_filter.mp hp).2
      have hd := hinv.ret f hf
      simp only [List.contains_eq_mem, Bool.not_eq_true', decide_eq_false_iff_not] at this
      exact this (e ▸ hd)
  · cases hstep

/-- (one poll at a time) the poll function is entered only from the top of the loop of the single poll thread:
a second call cannot begin before the first has returned or raised. -/
theorem C08_single_poll (s s' : St) (h : step s .snapshot = some s') : s.wpc = .top ∧ s'.wpc = .polling := by
  simp only [step] at h
  split at h
  · rename_i hw; cases h; exact ⟨hw, rfl⟩
  · cases h

/-- (first yield wins) In every reachable state, a future that finished with a value or an exception carries exactly
the first outcome ever yielded for it; later yields changed nothing. -/
theorem C08_first_yield_wins (b : Bool) (as : List Act) (s : St) (hrun : run (init b) as = some s)
    (f : Nat) (o : Out) (hd : (f, o) ∈ s.done) (hc : o ≠ .cancelled) :
    s.yields.find? (fun y => y.1 == f) = some (f, o) :=
  (invariant_run step InvY invY_step (init b) (invY_init b) as s hrun).first (f, o) hd hc

/-- …and a future has at most one outcome -/
theorem C08_outcome_unique (b : Bool) (as : List Act) (s : St) (hrun : run (init b) as = some s) :
    (s.done.map (·.1)).Nodup :=
  (invariant_run step InvY invY_step (init b) (invY_init b) as s hrun).keys

/-- (a raising poll function fails exactly the futures it was shown) after `pollRaise e` the poll thread yields the
exception to the futures of the snapshot, in order, each once, and to nothing else, before it goes to sleep. -/
theorem C08_raise_fails_shown (s s' : St) (e : Nat) (h : step s (.pollRaise e) = some s') :
    s'.wpc = .failing (s.snap.map (·.1)) e := by
  simp only [step] at h
  split at h
  · cases h; rfl
  · cases h

theorem C08_raise_step (s s' : St) (f : Nat) (rest : List Nat) (e : Nat) (hw : s.wpc = .failing (f :: rest) e)
    (h : step s .failNext = some s') :
    s'.wpc = .failing rest e ∧ s'.yields = s.yields ++ [(f, .exc e)] := by
  simp only [step, hw] at h
  cases h
  exact ⟨rfl, rfl⟩

/-- (prompt polls) Whenever the poll thread is parked on its event with the event clear, no registration and no
`notify()` has happened since the snapshot of the last poll was taken (and none is between its state change and its
`event.set()`): a newly eligible future or a notify is never
left waiting for the interval to expire. -/
theorem C08_prompt (b : Bool) (as : List Act) (s : St) (hrun : run (init b) as = some s)
    (hp : s.wpc = .parked) (hf : s.flag = false) (hz : s.pendingSet = 0) : s.newSince = false := by
  have h := invariant_run step InvS invS_step (init b) (invS_init b) as s hrun
  cases hn : s.newSince with
  | false => rfl
  | true =>
    rcases h hn with h | h | h
    · rw [hf] at h; cases h
    · rw [hp] at h; cases h
    · rw [hz] at h; cases h

/-- (cancel function) it is consulted only for a future in the polling stage and with the delegate's own result:
every consultation ever made is a registration pair. -/
theorem C08_cancel_fn_argument (b : Bool) (as : List Act) (s : St) (hrun : run (init b) as = some s) :
    ∀ a ∈ s.asks, a ∈ s.regPairs :=
  (invariant_run step InvD invD_step (init b) (invD_init b) as s hrun).asks

/-- …and an answer other than True (False, or an exception) vetoes the cancel: the future is untouched. -/
theorem C08_cancel_fn_veto (s s' : St) (f : Nat) (a : Option Bool) (ha : a ≠ some true)
    (h : step s (.cancelA f (some a)) = some s') : s'.done = s.done ∧ s'.descs = s.descs := by
  simp only [step] at h
  split at h
  · cases h
  · split at h
    · split at h
      · first
          | (cases h; exact ⟨rfl, rfl⟩)
          | (split at h
             · rename_i hat; exact absurd hat ha
             · cases h; exact ⟨rfl, rfl⟩)
      · cases h
    · cases h

/-! Non-vacuity: two futures registered, first poll yields for the first one, second future cancelled with a veto,
then a raising poll fails the remaining one. -/
def demoRun : List Act :=
  [.register 0 10, .setE, .register 1 11, .setE, .snapshot, .yieldA 0 (.val 5), .yieldA 0 (.val 6), .dereg 0, .resolveRet 0, .pollRet, .waitE,
   .clearE, .cancelA 1 (some (some false)), .snapshot, .pollRaise 7, .failNext, .failNext, .dereg 1, .resolveRet 1, .waitE, .wake]

example : (run (init true) demoRun).isSome = true := by decide
example : ((run (init true) demoRun).map (fun s => (s.done, s.polls, s.asks))) =
    some ([(0, .val 5), (1, .exc 7)], [[(0, 10), (1, 11)], [(1, 11)]], [(1, 11)]) := by decide

/-- (the source of poll.py, regenerated) the shapes the model's actions assume: the poll function is handed a copy of the descriptor
list taken under the lock and, if it raises, the exception goes to exactly that copy (`pollRaise` / `failNext`); `_register_poll` is one
section - append, drop the delegate link, set the event (`register`, `setE`); `_deregister_poll` filters under the lock and is the
future's FIRST done-callback (`dereg` inside the resolving call); `notify()` sets the event unconditionally (`notifyA`); a descriptor's
yields go to its own future through the tolerant setters (`yieldA`); the delegate's completion is routed cancelled / failed / register. -/
theorem C08_source_facts : MoreExec.Gen.K17.allPollFactsHold = true := by decide

end MoreExec.Poll
