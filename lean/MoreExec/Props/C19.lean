/-
  C19 — bind / flat_bind chains are equivalent to the executor chain; names propagate.
-/
import MoreExec.Model.Bind

namespace MoreExec.Bind
open MoreExec.Gen

/-- The wiring of the source, as regenerated on this run: every `with_*` propagates the name and goes through
`_customize`; `_customize` re-binds; `flat_bind` is `bind(...).with_flat_map(identity)`; a bound callable submits. -/
theorem C19_wiring :
    (∀ r ∈ K9.withTable, r.2.2 = true) ∧ K9.customizeRebinds = true ∧ K9.flatBindIsBindFlatMapId = true ∧
    K9.bindBuildsBoundCallable = true ∧ K9.boundCallSubmits = true ∧ K9.boundCallableHasName = true := by decide

/-- **bind commutes with chaining** (any chain length): applying `with_*` steps to the bound callable builds exactly
the executor stack that applying them to the executor builds, with the same fn bound — hence the same outcomes and
the same number of invocations (C01 on equal stacks). -/
theorem C19_bind_commutes (e : Ex) (fn : Nat) (steps : List Step) :
    chain true (bind e fn) steps = .bound (runsOn (chain true (.exec e) steps)) fn := by
  induction steps generalizing e with
  | nil => rfl
  | cons st rest ih =>
    simp only [chain, List.foldl_cons, bind, withStep, propagated] at ih ⊢
    exact ih _

theorem shape_chain (b : Bool) (t : Target) (steps : List Step) :
    (runsOn (chain b t steps)).shape = steps.foldl (fun sh st => st.cls :: sh) (runsOn t).shape := by
  induction steps generalizing t with
  | nil => rfl
  | cons st rest ih =>
    simp only [chain, List.foldl_cons] at ih ⊢
    rw [ih]
    cases t <;> simp [withStep, runsOn, Ex.shape]

/-- Even without name propagation through the bound callable the two forms build the same layers in the same
order (names aside): same outcomes and invocation counts. -/
theorem C19_bind_commutes_shape (b : Bool) (e : Ex) (fn : Nat) (steps : List Step) :
    (runsOn (chain b (bind e fn) steps)).shape = (runsOn (chain true (.exec e) steps)).shape := by
  rw [shape_chain, shape_chain]; rfl

/-- **flat_bind** is `bind` followed by `with_flat_map(identity)`: one more FlatMapExecutor layer around the same
executor, the same fn bound; by C13's flat-map law a future returned by fn is flattened rather than nested. -/
theorem C19_flat_bind (e : Ex) (fn : Nat) :
    K9.flatBindIsBindFlatMapId = true ∧
    chain true (bind e fn) [⟨"FlatMapExecutor", none⟩] = .bound (.layer "FlatMapExecutor" e e.name) fn := by
  constructor
  · decide
  · rfl

theorem allNamed_chain (n : String) (t : Target) (steps : List Step)
    (h0 : (runsOn t).allNamed n) (hs : ∀ st ∈ steps, st.explicit = none) :
    (runsOn (chain true t steps)).allNamed n := by
  induction steps generalizing t with
  | nil => exact h0
  | cons st rest ih =>
    simp only [chain, List.foldl_cons] at ih ⊢
    apply ih
    · have hst : st.explicit = none := hs st (List.mem_cons_self)
      have hname : (runsOn t).name = n := by
        cases hr : runsOn t with
        | base m => rw [hr] at h0; exact h0
        | layer c i m => rw [hr] at h0; exact h0.1
      cases t with
      | exec e => simp only [withStep, hst, propagated, Option.getD_some, runsOn, Ex.allNamed]; exact ⟨hname, h0⟩
      | bound e fn => simp only [withStep, hst, propagated, if_true, Option.getD_some, runsOn, Ex.allNamed]; exact ⟨hname, h0⟩
    · intro s hsm; exact hs s (List.mem_cons_of_mem _ hsm)

/-- **Names are inherited**: from a base executor named `n`, every layer created by chaining — before and/or after
`bind` — carries `n` unless a name is given explicitly (thread names are `<Class>-<name>`). -/
theorem C19_name_inherited (n : String) (fn : Nat) (before after : List Step)
    (h1 : ∀ st ∈ before, st.explicit = none) (h2 : ∀ st ∈ after, st.explicit = none) :
    (runsOn (chain true (bind (runsOn (chain true (.exec (.base n)) before)) fn) after)).allNamed n := by
  apply allNamed_chain n _ after _ h2
  exact allNamed_chain n (.exec (.base n)) before rfl h1

/-! Non-vacuity -/
example : runsOn (chain true (bind (.base "x") 1) [⟨"RetryExecutor", none⟩, ⟨"MapExecutor", some "m"⟩]) =
    .layer "MapExecutor" (.layer "RetryExecutor" (.base "x") "x") "m" := by decide

end MoreExec.Bind
