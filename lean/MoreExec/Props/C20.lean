/-
  C20 — Metrics: gauges return to reality at quiescence, counters match events.
  The gauges are ghost fields of the component models, updated by the same steps that the library's inc()/dec() calls
  accompany; the theorems say each gauge EQUALS the quantity it reports in every reachable state (hence is never negative
  and is exact at quiescence).
-/
import MoreExec.Proofs.Retry.Timing
import MoreExec.Proofs.Throttle.Inv
import MoreExec.Props.C02
import MoreExec.Props.C11
import MoreExec.Gen.K13

namespace MoreExec.Metrics
open MoreExec.Gen

theorem length_erase_int {α : Type} [DecidableEq α] (l : List α) (a : α) (h : a ∈ l) : ((l.erase a).length : Int) = (l.length : Int) - 1 := by
  have := List.length_erase_of_mem h
  have hp : 0 < l.length := List.length_pos_of_mem h
  omega

/-- (retry_queue) the gauge equals the number of jobs in `_jobs`, always. -/
theorem retry_gauge_step (s : Retry.St) (a : Retry.Act) (s' : Retry.St) (hi : s.qGauge = s.jobs.length)
    (h : Retry.step s a = some s') : s'.qGauge = s'.jobs.length := by
  cases a with
  | submit f =>
    simp only [Retry.step] at h
    split at h
    · cases h
    · cases h; simp only [List.length_append, List.length_cons, List.length_nil]; omega
  | submitNow j =>
    simp only [Retry.step] at h
    split at h
    · rename_i hg
      split at h
      · cases h; simp only; rw [length_erase_int _ _ hg.1]; omega
      · cases h; simp only
        have := length_erase_int _ _ hg.1; omega
    · cases h
  | submitApp =>
    simp only [Retry.step] at h
    split at h
    · cases h; simp only [List.length_append, List.length_cons, List.length_nil]; omega
    · cases h
  | discard j =>
    simp only [Retry.step] at h
    split at h
    · rename_i hg; cases h; simp only; rw [length_erase_int _ _ hg.1]; omega
    · cases h
  | ddone d c => simp only [Retry.step] at h; split at h <;> cases h; exact hi
  | cbCancelled d =>
    simp only [Retry.step] at h
    split at h
    · rename_i j hjd
      split at h
      · cases h; simp only; rw [length_erase_int _ _ (Retry.jobOfDel_mem hjd).1]; omega
      · cases h
    · cases h
  | cbMark g d i =>
    simp only [Retry.step] at h
    (repeat' split at h) <;> first | (cases h; exact hi) | cases h
  | cbPolicy d r =>
    simp only [Retry.step] at h
    split at h
    · split at h
      · split at h
        · split at h <;> cases h; exact hi
        · cases h; exact hi
      · cases h
    · cases h
  | cbRetry d =>
    simp only [Retry.step] at h
    split at h
    · rename_i j t hjd _
      cases h; simp only [List.length_append, List.length_cons, List.length_nil]
      have := length_erase_int _ _ (Retry.jobOfDel_mem hjd).1; omega
    · cases h
  | cbFinal d =>
    simp only [Retry.step] at h
    split at h
    · rename_i j hjd _
      cases h; simp only; rw [length_erase_int _ _ (Retry.jobOfDel_mem hjd).1]; omega
    · cases h
  | cancelScan f =>
    simp only [Retry.step] at h
    split at h
    · split at h
      · cases h; exact hi
      · rename_i j hsome
        split at h
        · cases h; simp only; rw [length_erase_int _ _ (Retry.jobOfFut_mem hsome).1]; omega
        · cases h; simp only [List.length_map]; exact hi
    · cases h
  | cancelDel f b =>
    simp only [Retry.step] at h
    split at h
    · split at h
      · split at h
        · cases h; exact hi
        · split at h
          · cases h
          · cases h; exact hi
      · split at h
        · cases h
        · cases h; exact hi
    · cases h
  | cancelEnd f =>
    simp only [Retry.step] at h
    split at h <;> first | (cases h; exact hi) | cases h
  | tick t => simp only [Retry.step] at h; split at h <;> cases h; exact hi

theorem C20_gauge_retry_queue (as : List Retry.Act) (s : Retry.St) (hrun : Retry.run Retry.init as = some s) :
    s.qGauge = s.jobs.length ∧ 0 ≤ s.qGauge := by
  have := invariant_run Retry.step (fun x => x.qGauge = x.jobs.length) retry_gauge_step Retry.init (by simp [Retry.init]) as s hrun
  exact ⟨this, by rw [this]; exact Int.natCast_nonneg _⟩

/-- (throttle_queue) the gauge equals the length of `_to_submit`, always; the decrements of the hand-over thread are the
`qdec` output of the regenerated admission kernel K4. -/
theorem throttle_gauge_step (s : Throttle.St) (a : Throttle.Act) (s' : Throttle.St) (hi : s.qGauge = s.queue.length)
    (h : Throttle.step s a = some s') : s'.qGauge = s'.queue.length := by
  cases a with
  | enqueue k =>
    simp only [Throttle.step] at h
    split at h
    · cases h
    · cases h; simp only [List.length_append, List.length_cons, List.length_nil]; omega
  | setE => simp only [Throttle.step] at h; cases h; exact hi
  | evalW r => simp only [Throttle.step] at h; split at h <;> cases h; exact hi
  | readW => simp only [Throttle.step] at h; split at h <;> cases h; exact hi
  | evalS r => simp only [Throttle.step] at h; cases h; exact hi
  | admitPart j =>
    simp only [Throttle.step] at h
    split at h
    · split at h
      · rename_i hr
        cases h
        obtain ⟨k1, _, k3, _⟩ := Throttle.admit_spec (s.queue.take j) s.running s.wThrottle
        simp only
        rw [hr, List.append_nil] at k1
        rw [k3, ← k1, List.length_take, List.length_drop]
        omega
      · cases h
    · cases h
  | admitA =>
    simp only [Throttle.step] at h
    split at h
    · cases h
      obtain ⟨k1, _, k3, _⟩ := Throttle.admit_spec s.queue s.running s.wThrottle
      simp only
      have hl : s.queue.length = (K4.admission s.queue s.running s.wThrottle).1.length + (K4.admission s.queue s.running s.wThrottle).2.1.length := by
        conv => lhs; rw [k1]
        simp
      rw [k3]; omega
    · cases h
  | handOver k =>
    simp only [Throttle.step] at h
    split at h
    · split at h <;> cases h; exact hi
    · cases h
  | handDone => simp only [Throttle.step] at h; split at h <;> cases h; exact hi
  | ddone k => simp only [Throttle.step] at h; split at h <;> cases h; exact hi
  | decr k => simp only [Throttle.step] at h; split at h <;> cases h; exact hi
  | cancelQ k =>
    simp only [Throttle.step] at h
    split at h
    · rename_i hk; cases h; simp only; rw [length_erase_int _ _ hk]; omega
    · cases h
  | waitE => simp only [Throttle.step] at h; split at h <;> cases h; exact hi
  | wake => simp only [Throttle.step] at h; split at h <;> cases h; exact hi
  | clearE => simp only [Throttle.step] at h; split at h <;> cases h; exact hi

theorem C20_gauge_throttle_queue (c0 : Option Nat) (as : List Throttle.Act) (s : Throttle.St)
    (hrun : Throttle.run (Throttle.init c0) as = some s) : s.qGauge = s.queue.length ∧ 0 ≤ s.qGauge := by
  have := invariant_run Throttle.step (fun x => x.qGauge = x.queue.length) throttle_gauge_step (Throttle.init c0)
    (by simp [Throttle.init]) as s hrun
  exact ⟨this, by rw [this]; exact Int.natCast_nonneg _⟩

/-- (exec_inprogress) one per executor from construction until the first shutdown flips the flag, zero afterwards, never
negative - however many threads call shutdown() how many times. -/
theorem exec_gauge_step (s : Shutdown.St) (a : Shutdown.Act) (s' : Shutdown.St)
    (hi : s.execGauge = if s.flag then 0 else 1) (h : Shutdown.step s a = some s') : s'.execGauge = if s'.flag then 0 else 1 := by
  cases a with
  | sdFlip t w =>
    simp only [Shutdown.step] at h
    split at h
    · rename_i hg; cases h; simp only [hi, hg.2]; simp
    · cases h
  | subEnter t => simp only [Shutdown.step] at h; split at h <;> cases h; exact hi
  | subRefuse t => simp only [Shutdown.step] at h; split at h <;> cases h; exact hi
  | subExit t => simp only [Shutdown.step] at h; split at h <;> cases h; exact hi
  | sdNoop t => simp only [Shutdown.step] at h; split at h <;> cases h; exact hi
  | sdSet t =>
    simp only [Shutdown.step] at h
    split at h
    · split at h <;> cases h; exact hi
    · cases h
  | sdDelegate t =>
    simp only [Shutdown.step] at h
    split at h
    · split at h <;> cases h; exact hi
    · cases h
  | sdJoined t =>
    simp only [Shutdown.step] at h
    split at h
    · split at h <;> cases h; exact hi
    · cases h
  | sdRet t =>
    simp only [Shutdown.step] at h
    split at h
    · split at h <;> cases h; exact hi
    · cases h
  | setE => simp only [Shutdown.step] at h; cases h; exact hi
  | wTop => simp only [Shutdown.step] at h; split at h <;> cases h; exact hi
  | wWork => simp only [Shutdown.step] at h; split at h <;> cases h; exact hi
  | wWait => simp only [Shutdown.step] at h; split at h <;> cases h; exact hi
  | wWake => simp only [Shutdown.step] at h; split at h <;> cases h; exact hi
  | wClear => simp only [Shutdown.step] at h; split at h <;> cases h; exact hi

theorem C20_gauge_exec_inprogress (b : Bool) (as : List Shutdown.Act) (s : Shutdown.St) (hrun : Shutdown.run (Shutdown.init b) as = some s) :
    s.execGauge = if s.flag then 0 else 1 :=
  invariant_run Shutdown.step (fun x => x.execGauge = if x.flag then 0 else 1) exec_gauge_step (Shutdown.init b)
    (by simp [Shutdown.init]) as s hrun

/-- (future_inprogress) `track_future` increments the gauge and registers `record_done` as a done-callback; by C02 that
callback runs exactly once and only when the future is done: at most once ever, and exactly once in every quiescent done
state.  Hence the gauge equals the number of futures not yet done (plus those whose completing thread is still in its
callback pass) and is never negative. -/
theorem C20_gauge_future_inprogress (as : List MeFuture.Act) (s : MeFuture.St) (hrun : MeFuture.run MeFuture.init as = some s)
    (c : Nat) (hc : c ∈ s.registered) :
    s.invoked.count c ≤ 1 ∧ (s.st = .pending → s.invoked.count c = 0) ∧
    (s.st ≠ .pending → s.owed = none → s.direct = [] → s.invoked.count c = 1) := by
  obtain ⟨h1, _, h3, h4⟩ := MeFuture.C02_callback_exactly_once as s hrun
  refine ⟨List.nodup_iff_count.mp h1 c, fun hp => by rw [h3 hp]; rfl, fun hne ho hd => ?_⟩
  have hperm := h4 hne ho hd
  have hmem : c ∈ s.invoked := hperm.mem_iff.mpr hc
  have := List.nodup_iff_count.mp h1 c
  have hpos : 0 < s.invoked.count c := List.count_pos_iff.mpr hmem
  omega

/-- (source, regenerated) every executor increments `exec_inprogress` once in its constructor and decrements it once inside
the `self._shutdown()` guard; retry enqueues/dequeues only through `_append_job` / `_pop_job`, which pair inc with dec; the
throttle queue is decremented where a job is removed by cancel. -/
theorem C20_source_facts : K13.allMetricPairsWellFormed = true := by decide

end MoreExec.Metrics
