/-
  C17 — f_proxy is transparent for forwarded operations; f_nocancel shields cancel.
-/
import MoreExec.Model.Proxy

namespace MoreExec.Proxy
open MoreExec.Gen

/-- **Transparent** (operator form): for EVERY semantics of the operand types (`py`), every operator and all
operands, a proxy method written as the operator expression on the result gives exactly what the operator gives on
the result — value, exception type, and the reflected fall-back included. -/
theorem C17_transparent (py : Py) (name : String) (result other : Val) :
    proxyViaOperator py name result other = binop py name result other := rfl

/-- A direct dunder call is transparent exactly when the result's type has the method and it does not return
NotImplemented (or the reflected method cannot help either) … -/
theorem C17_direct_dunder_agrees_iff (py : Py) (name : String) (result other : Val) (r : Val)
    (h : py.dunder name result [other] = some (.val r)) :
    proxyViaDirectDunder py name result other = binop py name result other := by
  simp [proxyViaDirectDunder, binop, h]

/-- … and it is NOT transparent in general: there are operand types (e.g. `int / float`: `int.__truediv__` returns
NotImplemented, `float.__rtruediv__` computes the quotient) for which the operator succeeds and the direct call
raises TypeError. -/
theorem C17_direct_dunder_not_transparent :
    ∃ (py : Py) (result other : Val),
      binop py "__truediv__" result other = .val 42 ∧
      proxyViaDirectDunder py "__truediv__" result other = .raise "TypeError" := by
  refine ⟨⟨fun n _ _ => if n = "__truediv__" then some .notImplemented else if n = "__rtruediv__" then some (.val 42) else none,
           fun n => if n = "__truediv__" then "__rtruediv__" else n⟩, 2, 3, ?_, ?_⟩ <;> simp [binop, proxyViaDirectDunder]

/-- `math.trunc(x)` on a type without `__trunc__` is a TypeError; the direct call raises AttributeError instead. -/
theorem C17_direct_trunc_not_transparent :
    ∃ (py : Py) (result : Val),
      builtin1 py "__trunc__" result = .raise "TypeError" ∧
      proxyBuiltinViaDirectDunder py "__trunc__" result = .raise "AttributeError" := by
  refine ⟨⟨fun _ _ _ => none, fun n => n⟩, 0, ?_, ?_⟩ <;> simp [builtin1, proxyBuiltinViaDirectDunder]

/-- **The regenerated table is transparent**: no Python-3-reachable forwarded method of `ProxyFuture` is implemented
by a direct dunder call (or by anything else that is not the operator / builtin applied to the result). -/
theorem C17_table_all_transparent :
    ∀ e ∈ K8.proxyTable, py3Forwarded e.1 = true → transparentKind e.2 = true := by decide

/-- **Non-blocking**: truth-testing is a constant, unknown double-underscore look-ups are refused before the
result is touched, and repr / str / equality / hashing are not forwarded at all. -/
theorem C17_nonblocking :
    K8.proxyTable.lookup "__bool__" = some .const ∧
    K8.proxyTable.lookup "__getattr__" = some (.getattr true) ∧
    (∀ n ∈ ["__repr__", "__str__", "__eq__", "__ne__", "__hash__"], K8.proxyTable.lookup n = none) := by decide

/-- **f_nocancel**: `cancel()` is the constant False — it neither cancels the wrapper nor reaches the input. -/
theorem C17_nocancel : K8.nocancelCancelIsConstFalse = true := by decide

end MoreExec.Proxy
