/-
  C14 — f_and / f_or are `and` / `or` folds over the order in which inputs finish.

  The decision logic runs inside `handle_done`'s critical section, so any concurrent execution is linearised by
  the order of those sections (which extends the real-time order of non-overlapping completions, because the
  sections exclude each other).  Theorems quantify over EVERY completion order `ins` (any length, any outcomes).
  The decision function is the kernel K5 regenerated from futures/bool.py on every run.
-/
import MoreExec.Proofs.BoolOp.Fold

namespace MoreExec.BoolOp
open MoreExec.Gen

/-- **f_or is an `or` fold**: for every order `ins` in which the (distinct) inputs finish, the output is
resolved with the outcome of the first input to finish truthy, otherwise of the last input to finish. -/
theorem C14_or_fold (outId : Nat) (ins : List GIn) (ids : List Nat)
    (hne : ins ≠ []) (hnodup : (ins.map (·.id)).Nodup) (hids : ids.Perm (ins.map (·.id)))
    (hx : ∀ f ∈ ins, ExcTruthy f) :
    (ins.foldl (handleDone .or outId) (initSt ids)).out = orSpec ins :=
  (fold_spec .or outId ins (initSt ids) hne rfl hnodup hids hx).1

/-- **f_and is an `and` fold**: first input to finish falsy (false value, exception or cancellation),
otherwise the last input to finish. -/
theorem C14_and_fold (outId : Nat) (ins : List GIn) (ids : List Nat)
    (hne : ins ≠ []) (hnodup : (ins.map (·.id)).Nodup) (hids : ids.Perm (ins.map (·.id)))
    (hx : ∀ f ∈ ins, ExcTruthy f) :
    (ins.foldl (handleDone .and outId) (initSt ids)).out = andSpec ins :=
  (fold_spec .and outId ins (initSt ids) hne rfl hnodup hids hx).1

/-- **Losers are cancelled as soon as the output is decided**: exactly the inputs still pending at the decision
receive `cancel()` (and the output itself when the decider was a cancelled input), nothing else, ever. -/
theorem C14_losers_cancelled (k : Kind) (outId : Nat) (ins : List GIn) (ids : List Nat)
    (hne : ins ≠ []) (hnodup : (ins.map (·.id)).Nodup) (hids : ids.Perm (ins.map (·.id)))
    (hx : ∀ f ∈ ins, ExcTruthy f) :
    ∃ pre f post, ins = pre ++ f :: post ∧ (∀ g ∈ pre, decides k g = false) ∧ (decides k f = true ∨ post = []) ∧
      ∃ cs, (ins.foldl (handleDone k outId) (initSt ids)).cancels = cs ++ (if f.cancelled then [outId] else []) ∧
        cs.Perm (post.map (·.id)) := by
  obtain ⟨pre, f, post, h1, h2, h3, cs, h4, h5⟩ := fold_cancels k outId ins (initSt ids) hne rfl hnodup hids hx
  exact ⟨pre, f, post, h1, h2, h3, cs, by simpa [initSt] using h4, h5⟩

/-- **Decided once**: after the decision, later completions change nothing (outcome set at most once). -/
theorem C14_decided_once (k : Kind) (outId : Nat) (s : BSt) (later : List GIn) (h : s.done = true) :
    later.foldl (handleDone k outId) s = s :=
  foldl_decided k outId s later h

/-- **Cancelling the output fans out** to every input. -/
theorem C14_output_cancel_fans_out (allIds : List Nat) (s : BSt) (h : s.out = none) :
    (cancelOutput allIds s).out = some .cancelled ∧ ∀ i ∈ allIds, i ∈ (cancelOutput allIds s).cancels :=
  cancelOutput_fans_out allIds s h

/-- **K5 in closed form**: one undecided critical section decides iff the input is a decider or the last one. -/
theorem C14_step_closed_form (k : Kind) (outId : Nat) (s : BSt) (f : GIn) (hd : s.done = false) (hx : ExcTruthy f) :
    handleDone k outId s f =
      if decides k f || (s.fs.erase f.id).isEmpty then
        { fs := s.fs.erase f.id, done := true, out := some (outcomeOf f),
          cancels := s.cancels ++ s.fs.erase f.id ++ (if f.cancelled then [outId] else []) }
      else { s with fs := s.fs.erase f.id } :=
  handleDone_undecided k outId s f hd hx

/-! Non-vacuity: three inputs finishing in the order falsy-value, exception, truthy-value. -/
example :
    let a : GIn := ⟨0, false, none, ⟨10, false⟩⟩
    let b : GIn := ⟨1, false, some ⟨7, true⟩, ⟨0, false⟩⟩
    let c : GIn := ⟨2, false, none, ⟨12, true⟩⟩
    ((([b, a, c].foldl (handleDone .or 99) (initSt [0, 1, 2])).out = some (.ok ⟨12, true⟩)) ∧
     (([b, a, c].foldl (handleDone .and 99) (initSt [0, 1, 2])).out = some (.err ⟨7, true⟩)) ∧
     (([b, a, c].foldl (handleDone .and 99) (initSt [0, 1, 2])).cancels = [0, 2])) := by decide

/-- **Repeated inputs**: `f_or(a, a, b)` / `f_and(…)` with the same future passed several times behaves as with each distinct
input once - the inputs are kept as dict keys (`keysOf`), and one `handle_done` is registered per key (regenerated fact).  For
every argument list `args` (repetitions allowed) and every order `ins` in which the distinct inputs finish, the output is the
`or` / `and` fold over that order. -/
theorem C14_repeated_inputs (k : Kind) (outId : Nat) (args : List Nat) (ins : List GIn)
    (hne : ins ≠ []) (hnodup : (ins.map (·.id)).Nodup) (hsame : ∀ i, i ∈ args ↔ i ∈ ins.map (·.id))
    (hx : ∀ f ∈ ins, ExcTruthy f) :
    K5.registersOncePerKey = true ∧
    (ins.foldl (handleDone k outId) (initSt (keysOf args))).out = spec k ins := by
  refine ⟨by decide, (fold_spec k outId ins (initSt (keysOf args)) hne rfl hnodup ?_ hx).1⟩
  exact (List.perm_ext_iff_of_nodup (keysOf_nodup args) hnodup).2 (fun i => by rw [mem_keysOf]; exact hsame i)

/-! Non-vacuity: three arguments, two distinct futures. -/
example : keysOf [4, 4, 7] = [4, 7] := by decide

/-- (futures/bool.py, regenerated) `handle_done`: the decided test, the key deletion and the decision K5 are ONE section on the
operation's lock - which is why a completion order exists to fold over -, the writes it decided follow outside the lock. -/
theorem C14_source_facts : K5.handleDoneGlue = true := by decide

end MoreExec.BoolOp
