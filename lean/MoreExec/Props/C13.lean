/-
  C13 — map / flat_map laws.  Theorems over every input outcome and every behaviour of fn / error_fn
  (arbitrary total functions).
-/
import MoreExec.Model.MapFut

namespace MoreExec.MapFut

/-- **Spec**: the resolution procedure computes exactly what the property states, for map and flat_map, every input
outcome and every behaviour of the user functions (return, raise new, re-raise same, return a future in any state,
return a non-future). -/
theorem C13_spec (c : Cfg) (d : Outcome) : (resolve c d).out = spec c d := by
  cases d with
  | cancelled => rfl
  | ok v =>
    simp only [resolve, spec]
    cases hf : c.fn with
    | none => cases c.flat <;> rfl
    | some f =>
      simp only [onMapped]
      cases f v with
      | ret v' => cases c.flat <;> rfl
      | retFut o => cases c.flat <;> cases o <;> rfl
      | raiseNew e => rfl
      | raiseSame => rfl
  | err e =>
    simp only [resolve, spec]
    cases hf : c.errFn with
    | none => rfl
    | some f =>
      simp only [onMapped]
      cases f e with
      | ret v' => cases c.flat <;> rfl
      | retFut o => cases c.flat <;> cases o <;> rfl
      | raiseNew e => rfl
      | raiseSame => rfl

/-- **Calls**: `fn` and `error_fn` are each called at most once, only for their own case, with the input's own
result / exception — also when the future returned to flat_map fails afterwards. -/
theorem C13_calls (c : Cfg) (d : Outcome) :
    (resolve c d).fnCalls = (match d, c.fn with | .ok v, some _ => [v] | _, _ => []) ∧
    (resolve c d).errCalls = (match d, c.errFn with | .err e, some _ => [e] | _, _ => []) := by
  cases d with
  | cancelled => exact ⟨rfl, rfl⟩
  | ok v =>
    simp only [resolve]
    cases hf : c.fn with
    | none => cases c.flat <;> exact ⟨rfl, rfl⟩
    | some f =>
      simp only [onMapped]
      cases f v with
      | ret v' => cases c.flat <;> exact ⟨rfl, rfl⟩
      | retFut o => cases c.flat <;> cases o <;> exact ⟨rfl, rfl⟩
      | raiseNew e => exact ⟨rfl, rfl⟩
      | raiseSame => exact ⟨rfl, rfl⟩
  | err e =>
    simp only [resolve]
    cases hf : c.errFn with
    | none => exact ⟨rfl, rfl⟩
    | some f =>
      simp only [onMapped]
      cases f e with
      | ret v' => cases c.flat <;> exact ⟨rfl, rfl⟩
      | retFut o => cases c.flat <;> cases o <;> exact ⟨rfl, rfl⟩
      | raiseNew e => exact ⟨rfl, rfl⟩
      | raiseSame => exact ⟨rfl, rfl⟩

/-- **Identity**: omitted functions act as identity; the original exception object is propagated unchanged. -/
theorem C13_identity (flat : Bool) (d : Outcome) :
    (resolve ⟨flat, none, none⟩ d).out = (match d with | .ok v => .ok v | .err e => .err e | .cancelled => .cancelled) := by
  cases d <;> cases flat <;> rfl

/-- **Composition**: mapping with `g` then `h` equals mapping with `h` after `g` (exceptions of the input and of
`g` pass through the second stage untouched). -/
theorem C13_compose (g h : Val → FnRes) (d : Outcome) (hg : ∀ v o, g v ≠ .retFut o) (hg2 : ∀ v, g v ≠ .raiseSame) :
    ((asOutcome (resolve ⟨false, some g, none⟩ d).out).map (fun o => (resolve ⟨false, some h, none⟩ o).out))
      = some (resolve ⟨false, some (comp h g), none⟩ d).out := by
  cases d with
  | cancelled => rfl
  | err e => rfl
  | ok v =>
    simp only [resolve, onMapped, comp]
    cases hgv : g v with
    | ret v' =>
      cases hh : h v' <;> simp [asOutcome, resolve, onMapped, hh]
    | retFut o => exact absurd hgv (hg v o)
    | raiseNew e => simp [asOutcome, resolve]
    | raiseSame => exact absurd hgv (hg2 v)

/-- **Exceptions preserved**: re-raising the same exception from error_fn keeps that very object. -/
theorem C13_reraise_same (flat : Bool) (ef : Exc → FnRes) (e : Exc) (h : ef e = .raiseSame) (fn : Option (Val → FnRes)) :
    (resolve ⟨flat, fn, some ef⟩ (.err e)).out = .err e := by
  simp [resolve, onMapped, h]

/-- **flat_map of a non-future** is a TypeError. -/
theorem C13_flat_nonfuture (f : Val → FnRes) (v v' : Val) (h : f v = .ret v') (ef : Option (Exc → FnRes)) :
    (resolve ⟨true, some f, ef⟩ (.ok v)).out = .typeError := by
  simp [resolve, onMapped, h]

/-! Non-vacuity. -/
example : (resolve ⟨true, some (fun v => .retFut (.err (v + 1))), some (fun _ => .ret 0)⟩ (.ok 5)) =
    { out := .err 6, fnCalls := [5], errCalls := [] } := by decide

end MoreExec.MapFut
