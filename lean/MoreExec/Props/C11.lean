/-
  C11 — Shutdown: submit refuses afterwards, idempotent, propagates once with the same arguments, joins, returns.
  Theorems over Model/Shutdown.lean (all interleavings of submitters, shutdown callers, other producers and the
  worker), plus the facts K10 extracted from every executor's `shutdown()` / worker loop in the current source.
-/
import MoreExec.Model.Shutdown
import MoreExec.Gen.K10

namespace MoreExec.Shutdown
open MoreExec.Gen

structure Inv (s : St) : Prop where
  gate : s.flag = true → s.gate = none
  pre : s.flag = false → s.shutter = none ∧ s.returned = [] ∧ s.delegateCalls = []
  one : s.delegateCalls.length ≤ 1
  sh : ∀ d, s.shutter = some d → s.returned = [] ∧ (d.didDelegate = true → s.delegateCalls = [d.wait]) ∧
        (d.didDelegate = false → s.delegateCalls = []) ∧ (d.joined = true → s.wpc = .exited) ∧
        (d.didSet = true → (s.wpc = .parked ∨ s.wpc = .wait ∨ s.wpc = .working) → s.evt = true)
  ret : ∀ p ∈ s.returned, s.flag = true ∧ s.shutter = none ∧ s.delegateCalls = [p.2] ∧ s.returned = [p] ∧
        (s.hasWorker = true → p.2 = true → s.wpc = .exited)
  exited : s.wpc = .exited → s.flag = true

theorem inv_init (b : Bool) : Inv (init b) := by constructor <;> simp [init]

theorem inv_step (s : St) (a : Act) (s' : St) (hi : Inv s) (h : step s a = some s') : Inv s' := by
  obtain ⟨h1, h2, h3, h4, h5, h6⟩ := hi
  have hflag_of_sh : ∀ d, s.shutter = some d → s.flag = true := by
    intro d hd
    cases hf : s.flag with
    | true => rfl
    | false => have := (h2 hf).1; rw [this] at hd; cases hd
  cases a with
  | subEnter t =>
    simp only [step] at h
    split at h
    · rename_i hg; cases h
      exact ⟨(by intro hf; rw [hg.2] at hf; cases hf), h2, h3, h4, h5, h6⟩
    · cases h
  | subRefuse t =>
    simp only [step] at h
    split at h
    · cases h; exact ⟨h1, h2, h3, h4, h5, h6⟩
    · cases h
  | subExit t =>
    simp only [step] at h
    split at h
    · cases h; exact ⟨fun _ => rfl, h2, h3, h4, h5, h6⟩
    · cases h
  | sdFlip t w =>
    simp only [step] at h
    split at h
    · rename_i hg; cases h
      obtain ⟨p1, p2, p3⟩ := h2 hg.2
      refine ⟨fun _ => hg.1, (by intro hf; cases hf), h3, ?_, (by intro p hp; rw [p2] at hp; cases hp), fun _ => rfl⟩
      intro d hd; cases hd
      exact ⟨p2, (by intro hh; cases hh), fun _ => p3, (by intro hh; cases hh), (by intro hh; cases hh)⟩
    · cases h
  | sdNoop t =>
    simp only [step] at h
    split at h
    · cases h; exact ⟨h1, h2, h3, h4, h5, h6⟩
    · cases h
  | sdSet t =>
    simp only [step] at h
    split at h
    · rename_i d hd
      split at h
      · cases h
        obtain ⟨q1, q2, q3, q4, q5⟩ := h4 d hd
        have hf := hflag_of_sh d hd
        refine ⟨h1, (by intro hh; rw [hf] at hh; cases hh), h3, ?_, (by intro p hp; rw [q1] at hp; cases hp), h6⟩
        intro d' hd'; cases hd'
        exact ⟨q1, q2, q3, q4, fun _ _ => rfl⟩
      · cases h
    · cases h
  | sdDelegate t =>
    simp only [step] at h
    split at h
    · rename_i d hd
      split at h
      · rename_i hg; cases h
        obtain ⟨q1, q2, q3, q4, q5⟩ := h4 d hd
        have hf := hflag_of_sh d hd
        have hdc := q3 hg.2
        refine ⟨h1, (by intro hh; rw [hf] at hh; cases hh), (by simp [hdc]), ?_, (by intro p hp; rw [q1] at hp; cases hp), h6⟩
        intro d' hd'; cases hd'
        exact ⟨q1, fun _ => (by simp [hdc]), (by intro hh; cases hh), q4, q5⟩
      · cases h
    · cases h
  | sdJoined t =>
    simp only [step] at h
    split at h
    · rename_i d hd
      split at h
      · rename_i hg; cases h
        obtain ⟨q1, q2, q3, q4, q5⟩ := h4 d hd
        have hf := hflag_of_sh d hd
        refine ⟨h1, (by intro hh; rw [hf] at hh; cases hh), h3, ?_, (by intro p hp; rw [q1] at hp; cases hp), h6⟩
        intro d' hd'; cases hd'
        exact ⟨q1, q2, q3, fun _ => hg.2.2.2.2.2, q5⟩
      · cases h
    · cases h
  | sdRet t =>
    simp only [step] at h
    split at h
    · rename_i d hd
      split at h
      · rename_i hg; cases h
        obtain ⟨q1, q2, q3, q4, q5⟩ := h4 d hd
        have hf := hflag_of_sh d hd
        refine ⟨h1, (by intro hh; rw [hf] at hh; cases hh), h3, (by intro d' hd'; cases hd'), ?_, h6⟩
        intro p hp
        simp only [q1, List.nil_append, List.mem_singleton] at hp
        subst hp
        refine ⟨hf, rfl, q2 hg.2.2.1, by simp [q1], ?_⟩
        intro hw hwait
        exact q4 (hg.2.2.2 (by simp only [needsJoin, Bool.and_eq_true]; exact ⟨hw, hwait⟩))
      · cases h
    · cases h
  | setE =>
    simp only [step] at h; cases h
    refine ⟨h1, h2, h3, ?_, h5, h6⟩
    intro d hd
    obtain ⟨q1, q2, q3, q4, q5⟩ := h4 d hd
    exact ⟨q1, q2, q3, q4, fun _ _ => rfl⟩
  | wTop =>
    simp only [step] at h
    split at h
    · rename_i hg; cases h
      refine ⟨h1, h2, h3, ?_, ?_, ?_⟩
      · intro d hd
        obtain ⟨q1, q2, q3, q4, q5⟩ := h4 d hd
        have hf := hflag_of_sh d hd
        refine ⟨q1, q2, q3, fun _ => (by simp [hf]), ?_⟩
        intro _ hp; simp only [hf, ↓reduceIte] at hp; rcases hp with hp | hp | hp <;> cases hp
      · intro p hp
        obtain ⟨r1, r2, r3, r4, r5⟩ := h5 p hp
        exact ⟨r1, r2, r3, r4, fun _ _ => (by simp [r1])⟩
      · intro he
        cases hf : s.flag with
        | true => rfl
        | false => simp [hf] at he
    · cases h
  | wWork =>
    simp only [step] at h
    split at h
    · rename_i hg; cases h
      refine ⟨h1, h2, h3, ?_, ?_, (by intro he; cases he)⟩
      · intro d hd
        obtain ⟨q1, q2, q3, q4, q5⟩ := h4 d hd
        exact ⟨q1, q2, q3, (by intro hj; have := q4 hj; rw [hg] at this; cases this), fun hs _ => q5 hs (Or.inr (Or.inr hg))⟩
      · intro p hp
        obtain ⟨r1, r2, r3, r4, r5⟩ := h5 p hp
        exact ⟨r1, r2, r3, r4, (by intro hw hwt; have := r5 hw hwt; rw [hg] at this; cases this)⟩
    · cases h
  | wWait =>
    simp only [step] at h
    split at h
    · rename_i hg; cases h
      refine ⟨h1, h2, h3, ?_, ?_, (by intro he; simp only at he; split at he <;> cases he)⟩
      · intro d hd
        obtain ⟨q1, q2, q3, q4, q5⟩ := h4 d hd
        refine ⟨q1, q2, q3, (by intro hj; have := q4 hj; rw [hg] at this; cases this), ?_⟩
        intro hs _
        exact q5 hs (Or.inr (Or.inl hg))
      · intro p hp
        obtain ⟨r1, r2, r3, r4, r5⟩ := h5 p hp
        exact ⟨r1, r2, r3, r4, (by intro hw hwt; have := r5 hw hwt; rw [hg] at this; cases this)⟩
    · cases h
  | wWake =>
    simp only [step] at h
    split at h
    · rename_i hg; cases h
      refine ⟨h1, h2, h3, ?_, ?_, (by intro he; cases he)⟩
      · intro d hd
        obtain ⟨q1, q2, q3, q4, q5⟩ := h4 d hd
        exact ⟨q1, q2, q3, (by intro hj; have := q4 hj; rw [hg] at this; cases this), (by intro _ hp; rcases hp with hp | hp | hp <;> cases hp)⟩
      · intro p hp
        obtain ⟨r1, r2, r3, r4, r5⟩ := h5 p hp
        exact ⟨r1, r2, r3, r4, (by intro hw hwt; have := r5 hw hwt; rw [hg] at this; cases this)⟩
    · cases h
  | wClear =>
    simp only [step] at h
    split at h
    · rename_i hg; cases h
      refine ⟨h1, h2, h3, ?_, ?_, (by intro he; cases he)⟩
      · intro d hd
        obtain ⟨q1, q2, q3, q4, q5⟩ := h4 d hd
        exact ⟨q1, q2, q3, (by intro hj; have := q4 hj; rw [hg] at this; cases this), (by intro _ hp; rcases hp with hp | hp | hp <;> cases hp)⟩
      · intro p hp
        obtain ⟨r1, r2, r3, r4, r5⟩ := h5 p hp
        exact ⟨r1, r2, r3, r4, (by intro hw hwt; have := r5 hw hwt; rw [hg] at this; cases this)⟩
    · cases h

/-- (refuses afterwards) once any `shutdown()` has returned, the flag is set: every later `submit()` is refused
(`RuntimeError`), none is accepted — and a racing submit either got in before the flip or is refused. -/
theorem C11_refuses_after (b : Bool) (as : List Act) (s : St) (hrun : run (init b) as = some s) (hr : s.returned ≠ []) :
    s.flag = true ∧ (∀ t, step s (.subEnter t) = none) := by
  have h := invariant_run step Inv inv_step (init b) (inv_init b) as s hrun
  obtain ⟨p, hp⟩ := List.exists_mem_of_ne_nil _ hr
  have hf := (h.ret p hp).1
  exact ⟨hf, fun t => by simp [step, hf]⟩

/-- (idempotent; propagates exactly once with the same arguments) at every moment the wrapped executor has received at
most one `shutdown` call; when the shutdown has returned it has received exactly one, carrying the `wait` argument of
the call that performed the shutdown; further calls (`sdNoop`) do nothing. -/
theorem C11_propagates_once (b : Bool) (as : List Act) (s : St) (hrun : run (init b) as = some s) :
    s.delegateCalls.length ≤ 1 ∧ ∀ p ∈ s.returned, s.delegateCalls = [p.2] := by
  have h := invariant_run step Inv inv_step (init b) (inv_init b) as s hrun
  exact ⟨h.one, fun p hp => (h.ret p hp).2.2.1⟩

theorem C11_second_call_is_noop (s s' : St) (t : Nat) (h : step s (.sdNoop t) = some s') : s' = s := by
  simp only [step] at h
  split at h <;> cases h; rfl

/-- (join) with wait=True on an executor with a worker thread, `shutdown()` returning implies the worker has exited. -/
theorem C11_join_means_exited (as : List Act) (s : St) (hrun : run (init true) as = some s) (t : Nat)
    (hr : (t, true) ∈ s.returned) : s.wpc = .exited := by
  have h := invariant_run step Inv inv_step (init true) (inv_init true) as s hrun
  have hw : s.hasWorker = true := by
    have : ∀ (as : List Act) (s0 s : St), s0.hasWorker = true → run s0 as = some s → s.hasWorker = true := by
      intro as
      induction as with
      | nil => intro s0 s h0 hr; simp only [run, runFrom] at hr; cases hr; exact h0
      | cons a as ih =>
        intro s0 s h0 hr
        simp only [run, runFrom] at hr
        cases hs : step s0 a with
        | none => simp [hs] at hr
        | some s1 =>
          simp only [hs] at hr
          refine ih s1 s ?_ hr
          cases a <;> simp only [step] at hs <;> (try split at hs) <;> (try split at hs) <;> first | (cases hs; exact h0) | cases hs
    exact this as (init true) s rfl hrun
  exact (h.ret (t, true) hr).2.2.2.2 hw rfl

/-- (shutdown always returns — the part that is not a time bound) once the flag is set and the shutdown has executed its
`event.set()`, the worker can never be parked on (or heading for a wait on) a clear event: whatever it was doing — queued work, sleeping between
retries, polling — its wait returns, it clears, re-reads the flag at the top of the loop and exits. -/
theorem C11_worker_not_stuck (b : Bool) (as : List Act) (s : St) (hrun : run (init b) as = some s) (d : Sd)
    (hd : s.shutter = some d) (hset : d.didSet = true) : (s.wpc = .parked ∨ s.wpc = .wait ∨ s.wpc = .working) → s.evt = true :=
  ((invariant_run step Inv inv_step (init b) (inv_init b) as s hrun).sh d hd).2.2.2.2 hset

/-- …and from any such state the worker's own steps (no time-out needed) lead to `exited` within six steps. -/
theorem C11_worker_exits (s : St) (hf : s.flag = true) (hp : (s.wpc = .parked ∨ s.wpc = .wait ∨ s.wpc = .working) → s.evt = true) :
    (workerStep (workerStep (workerStep (workerStep (workerStep (workerStep s)))))).wpc = .exited := by
  cases hw : s.wpc <;> cases he : s.evt <;> simp_all [workerStep]

/-- the hypothesis of `C11_worker_exits` is stable under every action of the other threads (nobody but the worker
clears the event, and the flag is never reset) -/
theorem C11_not_stuck_stable (s s' : St) (a : Act) (h : step s a = some s') (hf : s.flag = true)
    (hp : (s.wpc = .parked ∨ s.wpc = .wait ∨ s.wpc = .working) → s.evt = true)
    (hother : a ≠ .wTop ∧ a ≠ .wWork ∧ a ≠ .wWait ∧ a ≠ .wWake ∧ a ≠ .wClear) :
    s'.flag = true ∧ ((s'.wpc = .parked ∨ s'.wpc = .wait ∨ s'.wpc = .working) → s'.evt = true) := by
  cases a with
  | wTop => exact absurd rfl hother.1
  | wWork => exact absurd rfl hother.2.1
  | wWait => exact absurd rfl hother.2.2.1
  | wWake => exact absurd rfl hother.2.2.2.1
  | wClear => exact absurd rfl hother.2.2.2.2
  | setE => simp only [step] at h; cases h; exact ⟨hf, fun _ => rfl⟩
  | subEnter t => simp only [step] at h; split at h <;> cases h; exact ⟨hf, hp⟩
  | subRefuse t => simp only [step] at h; split at h <;> cases h; exact ⟨hf, hp⟩
  | subExit t => simp only [step] at h; split at h <;> cases h; exact ⟨hf, hp⟩
  | sdFlip t w => simp only [step] at h; split at h <;> cases h; exact ⟨rfl, hp⟩
  | sdNoop t => simp only [step] at h; split at h <;> cases h; exact ⟨hf, hp⟩
  | sdSet t =>
    simp only [step] at h
    split at h
    · split at h <;> cases h; exact ⟨hf, fun _ => rfl⟩
    · cases h
  | sdDelegate t =>
    simp only [step] at h
    split at h
    · split at h <;> cases h; exact ⟨hf, hp⟩
    · cases h
  | sdJoined t =>
    simp only [step] at h
    split at h
    · split at h <;> cases h; exact ⟨hf, hp⟩
    · cases h
  | sdRet t =>
    simp only [step] at h
    split at h
    · split at h <;> cases h; exact ⟨hf, hp⟩
    · cases h

/-- (down the chain) through any number of layers, each forwarding only its first shutdown call unchanged, the base
executor receives exactly the first call's arguments, once — however many times the top is shut down. -/
theorem C11_chain (n : Nat) (calls : List Bool) : chain n calls = if n = 0 then calls else calls.take 1 := by
  induction n generalizing calls with
  | zero => simp [chain]
  | succ n ih =>
    simp only [chain, ih, forward]
    cases n <;> simp [List.take_take]

/-- (the source of every executor, regenerated) each `shutdown()` tests `self._shutdown()` before anything else, wakes
its worker only after that, forwards `(wait, **kwargs)` to the delegate, joins only when `wait`; each worker loop tests
the flag at the top of every iteration and clears its event only after waiting on it. -/
theorem C11_source_facts : K10.allShutdownsWellFormed = true ∧ K10.allLoopsWellFormed = true := by decide

/-! Non-vacuity -/
def demoRun : List Act :=
  [.wTop, .wWork, .wWait, .subEnter 1, .subExit 1, .setE, .wWake, .wClear, .wTop, .wWork, .wWait, .sdFlip 2 true, .subRefuse 1,
   .sdSet 2, .sdDelegate 2, .wWake, .wClear, .wTop, .sdJoined 2, .sdRet 2, .sdNoop 3]
example : ((run (init true) demoRun).map (fun s => (s.returned, s.delegateCalls, s.wpc, s.refused))) =
    some ([(2, true)], [true], .exited, 1) := by decide

end MoreExec.Shutdown
