/-
  C10 — Cancel-on-shutdown covers every future the executor ever accepted.
  Theorems over Model/CancelOnShutdown.lean: all interleavings of any number of submitters, completions and
  shutdown callers.
-/
import MoreExec.Gen.K10
import MoreExec.Model.CancelOnShutdown

namespace MoreExec.CoS

structure Inv (s : St) : Prop where
  gate : s.flag = true → s.gate = none
  acc : ∀ f ∈ s.accepted, f ∈ s.tracked ∨ f ∈ s.doneF
  nodup : s.tracked.Nodup
  sub : ∀ f ∈ s.tracked, f ∈ s.accepted
  pre : s.flag = false → s.shutter = none ∧ s.returned = [] ∧ s.cancels = [] ∧ s.delegateShut = 0 ∧ s.snapped = false
  flipped : ∀ t, s.shutter = some (t, .flipped) → s.cancels = [] ∧ s.delegateShut = 0 ∧ s.snapped = false ∧ s.returned = []
  sweeping : ∀ t rest, s.shutter = some (t, .sweeping rest) → (s.cancels ++ rest).Perm s.snapshot ∧ s.delegateShut = 0 ∧ s.snapped = true ∧ s.returned = []
  finishing : ∀ t, s.shutter = some (t, .finishing) → s.cancels.Perm s.snapshot ∧ s.delegateShut = 1 ∧ s.snapped = true ∧ s.returned = []
  ret : s.returned ≠ [] → s.cancels.Perm s.snapshot ∧ s.delegateShut = 1 ∧ s.snapped = true ∧ s.shutter = none ∧ s.flag = true
  snapNodup : s.snapshot.Nodup
  covered : s.snapped = true → ∀ f ∈ s.accepted, f ∈ s.snapshot ∨ f ∈ s.doneAtSnap

theorem inv_init : Inv init := by constructor <;> simp [init]

theorem inv_step (s : St) (a : Act) (s' : St) (hi : Inv s) (h : step s a = some s') : Inv s' := by
  obtain ⟨h1, h2, h3, h4, h5, h6, h7, h8, h9, h10, h11⟩ := hi
  cases a with
  | subEnter t =>
    simp only [step] at h
    split at h
    · rename_i hg; cases h
      exact ⟨(by intro hf; rw [hg.2] at hf; cases hf), h2, h3, h4, h5, h6, h7, h8, h9, h10, h11⟩
    · cases h
  | subRefuse t =>
    simp only [step] at h
    split at h
    · cases h; exact ⟨h1, h2, h3, h4, h5, h6, h7, h8, h9, h10, h11⟩
    · cases h
  | subAdd t f =>
    simp only [step] at h
    split at h
    · rename_i hg; cases h
      have hflag : s.flag = false := by
        cases hf : s.flag with
        | false => rfl
        | true => have := h1 hf; rw [this] at hg; cases hg.1
      obtain ⟨p1, p2, p3, p4, p5⟩ := h5 hflag
      refine ⟨h1, ?_, ?_, ?_, h5, h6, h7, h8, h9, h10, ?_⟩
      · intro g hg2; simp only [List.mem_append, List.mem_singleton] at hg2
        cases hg2 with
        | inl hg2 => exact (h2 g hg2).imp (List.mem_append_left _) id
        | inr hg2 => subst hg2; exact Or.inl (by simp)
      · refine List.nodup_append.mpr ⟨h3, by simp, ?_⟩
        intro a ha b hb e; simp only [List.mem_singleton] at hb; rw [hb] at e
        exact hg.2 (e ▸ h4 a ha)
      · intro g hg2; simp only [List.mem_append, List.mem_singleton] at hg2 ⊢
        exact hg2.imp (h4 g) id
      · intro hs; rw [p5] at hs; cases hs
    · cases h
  | subExit t =>
    simp only [step] at h
    split at h
    · cases h; exact ⟨fun _ => rfl, h2, h3, h4, h5, h6, h7, h8, h9, h10, h11⟩
    · cases h
  | fdone f =>
    simp only [step] at h
    split at h
    · rename_i hg; cases h
      refine ⟨h1, ?_, h3, h4, h5, h6, h7, h8, h9, h10, h11⟩
      intro g hg2
      exact (h2 g hg2).imp id (List.mem_append_left _)
    · cases h
  | discard f =>
    simp only [step] at h
    split at h
    · rename_i hg; cases h
      refine ⟨h1, ?_, h3.erase f, fun g hg2 => h4 g (List.mem_of_mem_erase hg2), h5, h6, h7, h8, h9, h10, h11⟩
      intro g hg2
      by_cases e : g = f
      · subst e; exact Or.inr hg
      · exact (h2 g hg2).imp (fun h => (List.mem_erase_of_ne e).mpr h) id
    · cases h
  | sdFlip t =>
    simp only [step] at h
    split at h
    · rename_i hg; cases h
      obtain ⟨p1, p2, p3, p4, p5⟩ := h5 hg.2
      refine ⟨fun _ => hg.1, h2, h3, h4, (by intro hf; cases hf), ?_, (by intro t' rest hs; cases hs), (by intro t' hs; cases hs),
              (by intro hr; exact absurd p2 hr), h10, h11⟩
      intro t' _; exact ⟨p3, p4, p5, p2⟩
    · cases h
  | sdNoop t =>
    simp only [step] at h
    split at h
    · cases h; exact ⟨h1, h2, h3, h4, h5, h6, h7, h8, h9, h10, h11⟩
    · cases h
  | sdSnap t =>
    simp only [step] at h
    split at h
    · rename_i t' hs
      split at h
      · rename_i ht; subst ht; cases h
        obtain ⟨p1, p2, p3, p4⟩ := h6 t' hs
        have hflag : s.flag = true := by
          cases hf : s.flag with
          | true => rfl
          | false => have := (h5 hf).1; rw [this] at hs; cases hs
        refine ⟨h1, h2, h3, h4, (by intro hf; rw [hflag] at hf; cases hf), (by intro t2 hs2; cases hs2), ?_, (by intro t2 hs2; cases hs2),
                (by intro hr; exact absurd p4 hr), h3, ?_⟩
        · intro t2 rest hs2; cases hs2; exact ⟨by simp [p1], p2, rfl, p4⟩
        · intro _ f hf; exact h2 f hf
      · cases h
    · cases h
  | sdCancel t f =>
    simp only [step] at h
    split at h
    · rename_i t' rest hs
      split at h
      · rename_i ht; obtain ⟨ht1, hfr⟩ := ht; subst ht1; cases h
        obtain ⟨p1, p2, p3, p4⟩ := h7 t' _ hs
        have hflag : s.flag = true := by
          cases hf : s.flag with
          | true => rfl
          | false => have := (h5 hf).1; rw [this] at hs; cases hs
        refine ⟨h1, h2, h3, h4, (by intro hf; rw [hflag] at hf; cases hf), (by intro t2 hs2; cases hs2), ?_, (by intro t2 hs2; cases hs2),
                (by intro hr; exact absurd p4 hr), h10, h11⟩
        intro t2 rest2 hs2; cases hs2
        refine ⟨?_, p2, p3, p4⟩
        have : (s.cancels ++ [f] ++ rest.erase f).Perm (s.cancels ++ rest) := by
          rw [List.append_assoc]
          exact List.Perm.append_left _ (List.perm_cons_erase hfr).symm
        exact this.trans p1
      · cases h
    · cases h
  | sdDelegate t =>
    simp only [step] at h
    split at h
    · rename_i t' hs
      split at h
      · rename_i ht; subst ht; cases h
        obtain ⟨p1, p2, p3, p4⟩ := h7 t' _ hs
        have hflag : s.flag = true := by
          cases hf : s.flag with
          | true => rfl
          | false => have := (h5 hf).1; rw [this] at hs; cases hs
        refine ⟨h1, h2, h3, h4, (by intro hf; rw [hflag] at hf; cases hf), (by intro t2 hs2; cases hs2), (by intro t2 r hs2; cases hs2), ?_,
                (by intro hr; exact absurd p4 hr), h10, h11⟩
        intro t2 _; exact ⟨by simpa using p1, by simp [p2], p3, p4⟩
      · cases h
    · cases h
  | sdRet t =>
    simp only [step] at h
    split at h
    · rename_i t' hs
      split at h
      · rename_i ht; subst ht; cases h
        obtain ⟨p1, p2, p3, p4⟩ := h8 t' hs
        have hflag : s.flag = true := by
          cases hf : s.flag with
          | true => rfl
          | false => have := (h5 hf).1; rw [this] at hs; cases hs
        exact ⟨h1, h2, h3, h4, (by intro hf; rw [hflag] at hf; cases hf), (by intro t2 hs2; cases hs2), (by intro t2 r hs2; cases hs2),
               (by intro t2 hs2; cases hs2), fun _ => ⟨p1, p2, p3, rfl, hflag⟩, h10, h11⟩
      · cases h
    · cases h

/-- (sweep covers, race linearises) When `shutdown()` has returned: the wrapped executor has been shut down exactly
once; `cancel()` was invoked exactly once on each future of the copy (no duplicates); and EVERY future the executor
ever accepted — in any interleaving with the shutdown — is in that copy or was already done when the copy was taken.
No accepted future escapes the sweep. -/
theorem C10_sweep_covers (as : List Act) (s : St) (hrun : run init as = some s) (hret : s.returned ≠ []) :
    s.delegateShut = 1 ∧ s.cancels.Perm s.snapshot ∧ s.cancels.Nodup ∧
    ∀ f ∈ s.accepted, f ∈ s.cancels ∨ f ∈ s.doneAtSnap := by
  have h := invariant_run step Inv inv_step init inv_init as s hrun
  obtain ⟨p1, p2, p3, _, _⟩ := h.ret hret
  exact ⟨p2, p1, p1.nodup_iff.mpr h.snapNodup, fun f hf => (h.covered p3 f hf).imp (fun hm => p1.mem_iff.mpr hm) id⟩

/-- (a racing submit raises or is covered) once the flag is set no submit is inside its critical section and none can
enter: a submit either entered before the flip — then its future is registered before the copy is taken — or it is
refused. -/
theorem C10_race_linearises (as : List Act) (s : St) (hrun : run init as = some s) (hf : s.flag = true) :
    s.gate = none ∧ ∀ t, step s (.subEnter t) = none := by
  have h := invariant_run step Inv inv_step init inv_init as s hrun
  exact ⟨h.gate hf, fun t => by simp [step, hf]⟩

/-- …and after the flip the set of accepted futures never grows -/
theorem C10_no_accept_after_flip (s s' : St) (a : Act) (hi : Inv s) (hf : s.flag = true) (h : step s a = some s') :
    s'.accepted = s.accepted := by
  have hg := hi.gate hf
  cases a with
  | subAdd t f =>
    simp only [step] at h
    split at h
    · rename_i hh; rw [hg] at hh; cases hh.1
    · cases h
  | subEnter t => simp only [step] at h; split at h <;> cases h; rfl
  | subRefuse t => simp only [step] at h; split at h <;> cases h; rfl
  | subExit t => simp only [step] at h; split at h <;> cases h; rfl
  | fdone f => simp only [step] at h; split at h <;> cases h; rfl
  | discard f => simp only [step] at h; split at h <;> cases h; rfl
  | sdFlip t => simp only [step] at h; split at h <;> cases h; rfl
  | sdNoop t => simp only [step] at h; split at h <;> cases h; rfl
  | sdSnap t =>
    simp only [step] at h
    split at h
    · split at h <;> cases h; rfl
    · cases h
  | sdCancel t =>
    simp only [step] at h
    split at h
    · split at h <;> cases h; rfl
    · cases h
  | sdDelegate t =>
    simp only [step] at h
    split at h
    · split at h <;> cases h; rfl
    · cases h
  | sdRet t =>
    simp only [step] at h
    split at h
    · split at h <;> cases h; rfl
    · cases h

/-! Non-vacuity: two accepted futures, one completes, shutdown sweeps the other; a late submit is refused. -/
def demoRun : List Act :=
  [.subEnter 1, .subAdd 1 10, .subExit 1, .subEnter 2, .subAdd 2 11, .subExit 2, .fdone 10, .discard 10, .sdFlip 3, .subRefuse 1,
   .sdSnap 3, .sdCancel 3 11, .sdDelegate 3, .sdRet 3, .sdNoop 4]
example : ((run init demoRun).map (fun s => (s.cancels, s.delegateShut, s.returned, s.refused))) = some ([11], 1, [3], 1) := by decide

/-- (the source of `CancelOnShutdownExecutor`, regenerated) the sweep works on a copy of the set taken under `_lock`, asks every
member of the copy to cancel - one unconditional `cancel()` each, no early exit -, shuts the delegate down only afterwards; `submit()`
tracks the future under `_lock` inside the gate and untracks it by a done-callback: the shape the model's `copy` / `sweep` / `add`
actions assume. -/
theorem C10_source_facts : MoreExec.Gen.K10.cosSweepWellFormed = true := by decide

end MoreExec.CoS
