/-
  C05 — Retry: exact attempt accounting, sequential attempts, exact back-off.
  Property theorems only.  They quantify over ALL action sequences of Model/Retry.lean: any number of submissions,
  attempts, completions, policy answers and cancels, in any interleaving.
-/
import MoreExec.Proofs.Retry.Timing
import MoreExec.Proofs.Retry.K

namespace MoreExec.Retry
open MoreExec.Gen

/-- an action hands a callable to the delegate executor -/
def effectiveSubmit (m : St) (j : Job) : Prop := j.fut ∉ m.done

/-- (sequential attempts) Whenever a callable is handed to the delegate, every delegate future created earlier for
the same submission is done: at most one attempt of a submission is ever in flight. -/
theorem C05_attempts_sequential (as : List Act) (j : Job) (bs : List Act) (s' : St)
    (hrun : run init (as ++ Act.submitNow j :: bs) = some s') :
    ∃ m m', run init as = some m ∧ step m (.submitNow j) = some m' ∧
      (effectiveSubmit m j → ∀ d, (d, j.fut) ∈ m.delFut → d ∈ m.delDone) := by
  refine (transition_property step Inv (fun m a _ => ∀ j, a = Act.submitNow j → effectiveSubmit m j →
      ∀ d, (d, j.fut) ∈ m.delFut → d ∈ m.delDone) inv_step ?_ init inv_init as (.submitNow j) bs s' hrun).imp
    fun m hm => hm.imp fun m' ⟨h1, h2, h3⟩ => ⟨h1, h2, h3 j rfl⟩
  intro m a m' hinv hstep j hj _ d hd
  subst hj
  simp only [step] at hstep
  split at hstep
  · rename_i hg
    obtain ⟨hjm, hdel, _, _, _, hnone⟩ := hg
    apply Classical.byContradiction
    intro hnd
    cases hinv.i2.live (d, j.fut) hd hnd with
    | inl hl =>
      obtain ⟨x, hx, hxd, hxf⟩ := hl
      have := same_job_of_same_fut hinv.i1.r1 hx hjm hxf
      subst this
      rw [hdel] at hxd; cases hxd
    | inr hr =>
      obtain ⟨nj, hnj, _⟩ := hr
      rw [hnone] at hnj; cases hnj
  · cases hstep

/-- (never early) Attempt k+1 is handed to the delegate only at a time `now ≥ t0 + sleep`, where `t0` is the time of the
retry decision taken after attempt k finished (`t0 ≥` the time its delegate future became done) and `sleep` is what
the policy answered for that attempt. -/
theorem C05_never_early (as : List Act) (j : Job) (bs : List Act) (s' : St)
    (hrun : run init (as ++ Act.submitNow j :: bs) = some s') :
    ∃ m m', run init as = some m ∧ step m (.submitNow j) = some m' ∧
      ∀ d, j.old = some d → ∃ t0 sl tf, (j.fut, d, t0, sl) ∈ m.retries ∧ (d, tf) ∈ m.finished ∧ tf ≤ t0 ∧ t0 + sl ≤ m.now := by
  refine (transition_property step Inv (fun m a _ => ∀ j, a = Act.submitNow j → ∀ d, j.old = some d →
      ∃ t0 sl tf, (j.fut, d, t0, sl) ∈ m.retries ∧ (d, tf) ∈ m.finished ∧ tf ≤ t0 ∧ t0 + sl ≤ m.now)
      inv_step ?_ init inv_init as (.submitNow j) bs s' hrun).imp
    fun m hm => hm.imp fun m' ⟨h1, h2, h3⟩ => ⟨h1, h2, h3 j rfl⟩
  intro m a m' hinv hstep j hj d hd
  subst hj
  simp only [step] at hstep
  split at hstep
  · rename_i hg
    obtain ⟨hjm, hdel, _, hdue, _⟩ := hg
    obtain ⟨t0, sl, tf, a1, a2, a3, a4⟩ := hinv.i3.due j hjm hdel d hd
    exact ⟨t0, sl, tf, a1, a3, a4, by omega⟩
  · cases hstep

/-- (attempt numbers) Every consultation of the policy for a submission is made with `attempt` = the number of
attempts started so far for that submission, and every job's attempt counter equals that number. -/
theorem C05_policy_attempt_number (as : List Act) (s : St) (hrun : run init as = some s) :
    ∀ j ∈ s.jobs, j.attempt = nsub s j.fut :=
  (invariant_run step Inv inv_step init inv_init as s hrun).i3.att

/-- (policy raises) a raising policy method ends retrying: the callback will finalise with the attempt's own outcome. -/
theorem C05_policy_raises (s s' : St) (d : Nat) (h : step s (.cbPolicy d (some .raised)) = some s') :
    s'.decs = s.decs ++ [(d, .final)] := by
  simp only [step] at h
  split at h
  · split at h
    · cases h; rfl
    · cases h
  · cases h

/-- (no early resolution) A step makes a future terminal only when it is: the finalisation of a finished attempt
after the policy declined (`cbFinal`), the discard of a stopped job, the `_me_delegate_cancelled()` of a cancelled delegate, or the
end of a `cancel()`. -/
theorem C05_no_early_resolution (s s' : St) (a : Act) (f : Nat) (h : step s a = some s') (h0 : f ∉ s.done) (h1 : f ∈ s'.done) :
    (∃ d, a = .cbFinal d) ∨ (∃ j, a = .discard j) ∨ (∃ g d i, a = .cbMark g d i) ∨ (∃ g, a = .cancelEnd g) := by
  cases a with
  | cbFinal d => exact Or.inl ⟨d, rfl⟩
  | discard j => exact Or.inr (Or.inl ⟨j, rfl⟩)
  | cbMark g d i => exact Or.inr (Or.inr (Or.inl ⟨g, d, i, rfl⟩))
  | cbCancelled d =>
    simp only [step] at h
    split at h
    · split at h <;> cases h; exact absurd h1 h0
    · cases h
  | cancelEnd g => exact Or.inr (Or.inr (Or.inr ⟨g, rfl⟩))
  | submit g =>
    simp only [step] at h; split at h <;> cases h; exact absurd h1 h0
  | submitNow j =>
    simp only [step] at h
    split at h
    · split at h <;> (cases h; exact absurd h1 h0)
    · cases h
  | submitApp => simp only [step] at h; split at h <;> cases h; exact absurd h1 h0
  | ddone d c => simp only [step] at h; split at h <;> cases h; exact absurd h1 h0
  | cbPolicy d r =>
    simp only [step] at h
    split at h
    · split at h
      · split at h
        · split at h <;> cases h; exact absurd h1 h0
        · cases h; exact absurd h1 h0
      · cases h
    · cases h
  | cbRetry d =>
    simp only [step] at h
    split at h
    · cases h; exact absurd h1 h0
    · cases h
  | cancelScan g =>
    simp only [step] at h
    split at h
    · split at h
      · cases h; exact absurd h1 h0
      · split at h <;> (cases h; exact absurd h1 h0)
    · cases h
  | cancelDel g b =>
    simp only [step] at h
    split at h
    · split at h
      · split at h
        · cases h; exact absurd h1 h0
        · split at h
          · cases h
          · cases h; exact absurd h1 h0
      · split at h
        · cases h
        · cases h; exact absurd h1 h0
    · cases h
  | tick t => simp only [step] at h; split at h <;> cases h; exact absurd h1 h0

/-- (ExceptionRetryPolicy, regenerated from retry.py) delays are `min(sleep * exponent^(k-1), max_sleep)` and the
policy retries exactly while the attempt failed, fewer than `max_attempts` attempts were made and the exception is
an instance of `exception_base`. -/
theorem C05_exception_policy_spec (p : GPolicy) (k : Nat) (exc : GExcOpt) (isinst : Nat → Bool) :
    K1.sleepTime p k = min (p.sleep * p.exponent ^ (k - 1)) p.maxSleep ∧
    K1.shouldRetry p k exc isinst = (excTruthy exc && decide (k < p.maxAttempts) && p.base.any isinst) :=
  ⟨sleepTime_spec p k, shouldRetry_spec p k exc isinst⟩

/-- how many attempts a callable gets under ExceptionRetryPolicy, given the outcome of each attempt
(`outcomes k` = exception of attempt k+1 or none, with its instance test): first success, first exception outside the
base, or max_attempts — by definition of the loop "retry while shouldRetry". -/
def attemptsRun (p : GPolicy) (outcomes : Nat → GExcOpt × (Nat → Bool)) : Nat → Nat → Nat
  | 0, k => k
  | fuel + 1, k => if K1.shouldRetry p k (outcomes k).1 (outcomes k).2 then attemptsRun p outcomes fuel (k + 1) else k

theorem C05_attempts_bounded (p : GPolicy) (outcomes : Nat → GExcOpt × (Nat → Bool)) (fuel k : Nat) (hk : k ≤ max p.maxAttempts 1)
    (hk1 : 1 ≤ k) : attemptsRun p outcomes fuel k ≤ max p.maxAttempts 1 := by
  induction fuel generalizing k with
  | zero => simpa [attemptsRun] using hk
  | succ n ih =>
    simp only [attemptsRun]
    split
    · rename_i h
      rw [shouldRetry_spec] at h
      simp only [Bool.and_eq_true, decide_eq_true_eq] at h
      exact ih (k + 1) (by omega) (by omega)
    · exact hk

/-- (selection kernel, regenerated from `_get_next_job`) the submit thread only ever picks a job with no attempt in
flight; a ready job if there is one; otherwise the job with the smallest due time (so its timed wait ends exactly at
the earliest due time). -/
theorem C05_next_job_spec (jobs : List GRJob) (now : Nat) :
    (∀ r, K2.getNextJob jobs now = some r → r ∈ jobs ∧ waitingG r = true) ∧
    ((∃ j ∈ jobs, readyG now j = true) → ∃ r, K2.getNextJob jobs now = some r ∧ readyG now r = true) ∧
    ((∀ j ∈ jobs, readyG now j = false) →
        (∀ r, K2.getNextJob jobs now = some r → ∀ j ∈ jobs, waitingG j = true → r.when ≤ j.when) ∧
        (K2.getNextJob jobs now = none → ∀ j ∈ jobs, waitingG j = false)) :=
  getNextJob_spec jobs now

/-- (facts of `eval_policy`, extracted from retry.py) stop_retry is tested first; should_retry is called with
(attempt, delegate future); sleep_time only when retrying; any exception means "do not retry". -/
theorem C05_eval_policy_facts :
    K2.evalPolicy_stopFirst = true ∧ K2.evalPolicy_callsShouldRetryWithAttempt = true ∧
    K2.evalPolicy_sleepOnlyIfRetry = true ∧ K2.evalPolicy_exceptionMeansNoRetry = true := by decide

/-! Non-vacuity: one submission, first attempt fails, policy says retry after 2, second attempt succeeds. -/
def j0 : Job := ⟨0, 0, 0, none, false, none⟩
def j1 : Job := ⟨0, 1, 2, none, false, some 0⟩
def demoRun : List Act :=
  [.submit 0, .submitNow j0, .submitApp, .ddone 0 false, .cbPolicy 0 (some (.retry 2)), .cbRetry 0, .tick 2, .submitNow j1,
   .ddone 1 false, .submitApp, .cbPolicy 1 (some .stopNow), .cbFinal 1]

example : (run init demoRun).isSome = true := by decide
example : ((run init demoRun).map (fun s => (s.submits, s.policyLog, s.done))) =
    some ([(0, 1, 0), (0, 2, 2)], [(0, 1), (0, 2)], [0]) := by decide
/-- the delegate's done-callback cannot act before `_submit_now` has appended the in-flight job (it is attached afterwards) -/
example : (run init [.submit 0, .submitNow j0, .ddone 0 false, .cbPolicy 0 (some .stopNow)]).isSome = false := by decide
/-- a `cancel()` of the future is excluded while `_submit_now` is between its two sections (the future's lock is held) -/
example : (run init [.submit 0, .submitNow j0, .cancelScan 0]).isSome = false := by decide
/-- and an early second attempt is NOT a run of the model -/
example : (run init [.submit 0, .submitNow j0, .submitApp, .ddone 0 false, .cbPolicy 0 (some (.retry 2)), .cbRetry 0, .tick 1, .submitNow j1]).isSome = false := by
  decide

end MoreExec.Retry
