import MoreExec.Base.Sys
import MoreExec.Model.NoCancel
import MoreExec.Props.C13Code
import MoreExec.Gen.K8

namespace MoreExec.NoCancel
open MoreExec MoreExec.MapFut MoreExec.PyMap

/-- the identity-mapped resolution is the mirror of the input's outcome; the identity is called once on a success only -/
theorem C17_nocancel_resolve_mirrors (d : Outcome) :
    (resolve cfg d).out = mirror d ∧ (resolve cfg d).errCalls = [] := by
  cases d <;> simp [resolve, cfg, onMapped, mirror]

/-- **The code mirrors**: the regenerated `MapFuture` resolution methods (Gen/K15), run in the configuration `f_nocancel` builds,
end with the input's own value / exception / cancellation, and nothing escapes. -/
theorem C17_nocancel_code_mirrors (sync : Bool) (d : Outcome) :
    (toRes (runCode cfg sync d).1).map (·.out) = some (mirror d) ∧ (runCode cfg sync d).2 = false := by
  have h := C13_code_is_model cfg sync d
  rw [h.1]; exact ⟨by simp [(C17_nocancel_resolve_mirrors d).1], h.2⟩

structure Inv (i : Option Outcome) (as : List Act) (s : St) : Prop where
  rets : ∀ b ∈ s.rets, b = false
  reached : s.reached = 0
  inner : s.inner = (i <|> firstFinish as)
  outer : ∀ x, s.outer = some x → ∃ o, s.inner = some o ∧ x = mirror o ∧ s.owed = false
  owed : s.outer = none → s.inner.isSome → s.owed = true
  owedInner : s.owed = true → s.inner.isSome

theorem firstFinish_append (as : List Act) (a : Act) :
    firstFinish (as ++ [a]) = (firstFinish as <|> firstFinish [a]) := by
  induction as with
  | nil => cases a <;> simp [firstFinish]
  | cons b bs ih => cases b <;> simp [firstFinish, ih]

theorem inv_init (i : Option Outcome) : Inv i [] (init i) := by
  constructor <;> simp [init, firstFinish]
  
theorem inv_step (i : Option Outcome) (as : List Act) (s s' : St) (a : Act) (hi : Inv i as s) (h : step s a = some s') :
    Inv i (as ++ [a]) s' := by
  cases a with
  | wcancel =>
    simp only [step, Option.some.injEq] at h; subst h
    refine ⟨?_, hi.reached, ?_, hi.outer, hi.owed, hi.owedInner⟩
    · intro b hb; simp at hb; rcases hb with hb | hb; exact hb; exact hi.rets b hb
    · simp [firstFinish_append, firstFinish, hi.inner]
  | finish o =>
    simp only [step] at h
    split at h
    · simp at h
    · rename_i hn
      simp only [Option.some.injEq] at h; subst h
      have hnone : s.inner = none := by simpa using hn
      have hou : s.outer = none := by
        cases ho : s.outer with
        | none => rfl
        | some x => obtain ⟨o', h1, _⟩ := hi.outer x ho; simp [hnone] at h1
      refine ⟨hi.rets, hi.reached, ?_, ?_, ?_, ?_⟩
      · have h0 := hi.inner
        rw [hnone] at h0
        cases hi' : i with
        | some x => rw [hi'] at h0; simp at h0
        | none =>
          rw [hi'] at h0
          cases hf : firstFinish as with
          | some x => rw [hf] at h0; simp at h0
          | none => simp [firstFinish_append, firstFinish, hf]
      · intro x hx; simp [hou] at hx
      · intro _ _; rfl
      · intro _; simp
  | callback =>
    simp only [step] at h
    split at h
    · rename_i o hin how
      simp only [Option.some.injEq] at h; subst h
      refine ⟨hi.rets, hi.reached, ?_, ?_, ?_, ?_⟩
      · simp [firstFinish_append, firstFinish, hi.inner]
      · intro x hx; simp at hx; exact ⟨o, hin, by rw [← hx, (C17_nocancel_resolve_mirrors o).1], rfl⟩
      · intro h1; simp at h1
      · intro h1; simp at h1
    · simp at h

/-- runs, with the history kept -/
theorem inv_run (i : Option Outcome) (as : List Act) (s : St) (h : runFrom step (init i) as = some s) : Inv i as s := by
  suffices ∀ (bs : List Act) (pre : List Act) (m : St), Inv i pre m → runFrom step m bs = some s → Inv i (pre ++ bs) s by
    simpa using this as [] (init i) (inv_init i) h
  intro bs
  induction bs with
  | nil => intro pre m hm hr; simp [runFrom] at hr; subst hr; simpa using hm
  | cons b bs ih =>
    intro pre m hm hr
    simp only [runFrom] at hr
    cases hs : step m b with
    | none => simp [hs] at hr
    | some m' =>
      simp only [hs] at hr
      have := ih (pre ++ [b]) m' (inv_step i pre m m' b hm hs) hr
      simpa using this

/-- **cancel() always returns False**: in every run - any number of calls, by any threads, before, between and after the input's
completion and the wrapper's own resolution. -/
theorem C17_nocancel_returns_false (i : Option Outcome) (as : List Act) (s : St) (h : runFrom step (init i) as = some s) :
    ∀ b ∈ s.rets, b = false := (inv_run i as s h).rets

/-- **and never cancels f**: the wrapper never passes a cancel request on, and the input's state is a function of its own
history alone - what it was at wrapping time, else the first completion by its producer or by somebody holding the input. -/
theorem C17_nocancel_shields (i : Option Outcome) (as : List Act) (s : St) (h : runFrom step (init i) as = some s) :
    s.reached = 0 ∧ s.inner = (i <|> firstFinish as) := ⟨(inv_run i as s h).reached, (inv_run i as s h).inner⟩

/-- **while the wrapper still mirrors f's outcome**: a finished wrapper holds the input's own outcome; a finished input whose
callback has run has a finished wrapper; and the callback is enabled whenever it is owed (cancel() calls cannot disable it). -/
theorem C17_nocancel_mirrors (i : Option Outcome) (as : List Act) (s : St) (h : runFrom step (init i) as = some s) :
    (∀ x, s.outer = some x → ∃ o, s.inner = some o ∧ x = mirror o) ∧
    (∀ o, s.inner = some o → s.owed = false → s.outer = some (mirror o)) ∧
    (s.owed = true → ∃ s', step s .callback = some s' ∧ ∃ o, s.inner = some o ∧ s'.outer = some (mirror o)) := by
  have hi := inv_run i as s h
  refine ⟨?_, ?_, ?_⟩
  · intro x hx; obtain ⟨o, h1, h2, _⟩ := hi.outer x hx; exact ⟨o, h1, h2⟩
  · intro o ho hw
    cases hou : s.outer with
    | none => have := hi.owed hou (by simp [ho]); simp [hw] at this
    | some x => obtain ⟨o', h1, h2, _⟩ := hi.outer x hou; rw [ho] at h1; cases h1; rw [h2]
  · intro hw
    have := hi.owedInner hw
    cases hin : s.inner with
    | none => simp [hin] at this
    | some o => exact ⟨{ s with owed := false, outer := some (resolve cfg o).out }, by simp [step, hin, hw], o, rfl, by simp [(C17_nocancel_resolve_mirrors o).1]⟩

/-- the source facts the model rests on, regenerated on every run -/
theorem C17_nocancel_source_facts :
    Gen.K8.nocancelCancelIsConstFalse = true ∧ Gen.K8.nocancelBases = ["MapFuture"] ∧
    Gen.K8.nocancelOverrides = ["cancel"] ∧ Gen.K8.nocancelCtorIdentity = true := by decide

/-! Non-vacuity: a run with cancels before and after a foreign cancellation of the input. -/
example : ∃ s, runFrom step (init none) [.wcancel, .finish .cancelled, .wcancel, .callback, .wcancel] = some s ∧
    s.outer = some .cancelled ∧ s.rets = [false, false, false] := by
  refine ⟨_, rfl, ?_, rfl⟩; decide

end MoreExec.NoCancel
