/-
  C02 — the tie between the section-level model `MeFuture` and the code: every lock section of the `_Future` protocol methods,
  regenerated from the current source (Gen/K16) and interpreted (Model/PyFut), is exactly one action of the model from ANY state
  (or changes nothing), and the regenerated callback pass is the model's `invokeNext … invokeEnd` for callback lists of any length.
  The theorems of Props/C02.lean quantify over every interleaving of those actions.
-/
import MoreExec.Props.C02
import MoreExec.Proofs.MeFuture.K16

namespace MoreExec.MeFuture
open MoreExec.PyFut MoreExec.Gen

/-- the code-level state `s` of a future and the model state `m` describe the same future (the model moves the callbacks of a
completed future to `owed`; the code leaves them in the list until the pass has reset it) -/
def Rel (s : PyFut.S) (m : St) : Prop :=
  m.st = s.st ∧ (s.st = .pending → m.stored = s.cbs) ∧ m.notified = s.notified

/-- **add_done_callback** is `addStore` on a pending future (the method ends inside the section) and `addDirect` on a done one
(the method goes on to `fn(self)` outside the lock: `callDirect`). -/
theorem C02_code_add (s : PyFut.S) (m : St) (t : Nat) (hr : Rel s m) (hfresh : s.fn ∉ m.registered) :
    (s.st = .pending → ∃ m', step m (.addStore t s.fn) = some m' ∧ Rel (exec K16.addDoneCallback.locked s).1 m' ∧
        (exec K16.addDoneCallback.locked s).2 = .returned none) ∧
    (s.st ≠ .pending → ∃ m', step m (.addDirect t s.fn) = some m' ∧ Rel (exec K16.addDoneCallback.locked s).1 m' ∧
        (exec K16.addDoneCallback.locked s).2 = .normal ∧ (t, s.fn) ∈ m'.direct ∧ K16.addDoneCallback.tail = .callFn) := by
  obtain ⟨h1, h2, h3⟩ := hr
  rw [(add_locked s).1]
  constructor
  · intro hp
    refine ⟨{ m with stored := m.stored ++ [s.fn], registered := m.registered ++ [s.fn] }, ?_, ?_, by simp [hp]⟩
    · simp [step, h1, hp, hfresh]
    · simp [hp, Rel, h1, h2 hp, h3]
  · intro hp
    refine ⟨{ m with direct := m.direct ++ [(t, s.fn)], registered := m.registered ++ [s.fn] }, ?_, ?_, by simp [hp], by simp, rfl⟩
    · simp [step, h1, hp, hfresh]
    · simp [hp, Rel, h1, h3]

/-- **cancel()**'s section is one of `cancelOk` (winning: `out = True`, the callbacks present are now owed by this thread and the
tail runs the pass), `cancelNoop` (already done: True iff cancelled) or `cancelVeto` (`_me_cancel()` refused: False). -/
theorem C02_code_cancel (s : PyFut.S) (m : St) (t : Nat) (hr : Rel s m) :
    ∃ a m', (a = .cancelOk t ∨ a = .cancelNoop t ∨ a = .cancelVeto t) ∧ step m a = some m' ∧
      Rel (exec K16.cancel.locked s).1 m' ∧
      (a = .cancelOk t → (exec K16.cancel.locked s).2 = .normal ∧ (exec K16.cancel.locked s).1.env K16.cancel_out = true ∧
          m'.owed = some (t, s.cbs)) ∧
      (a = .cancelNoop t → (exec K16.cancel.locked s).2 = .returned (some (decide (s.st = .cancelled)))) ∧
      (a = .cancelVeto t → (exec K16.cancel.locked s).2 = .returned (some false)) := by
  obtain ⟨h1, h2, h3⟩ := hr
  rw [(cancel_locked s).1]
  cases hs : s.st with
  | cancelled =>
      refine ⟨.cancelNoop t, { m with cancelTrue := m.cancelTrue + 1 }, by simp, by simp [step, h1, hs], ?_, by simp, by simp, by simp⟩
      simp [Rel, h1, hs, h3]
  | finished =>
      refine ⟨.cancelNoop t, m, by simp, by simp [step, h1, hs], ?_, by simp, by simp, by simp⟩
      simp [Rel, h1, hs, h3]
  | pending =>
      cases hm : s.meCancelAnswer with
      | false =>
          refine ⟨.cancelVeto t, m, by simp, by simp [step, h1, hs], ?_, by simp, by simp, by simp⟩
          simp [Rel, h1, hs, h3, h2 hs]
      | true =>
          refine ⟨.cancelOk t, { m with st := .cancelled, owed := some (t, m.stored), stored := [], cancelTrue := m.cancelTrue + 1,
                                        notified := true }, by simp, by simp [step, h1, hs], ?_, ?_, by simp, by simp⟩
          · simp [Rel, S.setVar]
          · intro _; simp [S.setVar, K16.cancel_out, h2 hs]

/-- **the setters** (`_OutputFuture`, `MapFuture`, `RetryFuture`): `finish` on a pending future (callbacks owed by this thread, tail =
the pass), `setLate` otherwise - InvalidStateError, nothing changes, the tail is skipped. -/
theorem C02_code_set (s : PyFut.S) (m : St) (t : Nat) (hr : Rel s m) :
    (s.st = .pending → ∃ m', step m (.finish t) = some m' ∧ Rel (exec Stmt.superSet s).1 m' ∧ (exec Stmt.superSet s).2 = .normal ∧
        m'.owed = some (t, s.cbs)) ∧
    (s.st ≠ .pending → step m (.setLate t) = some m ∧ exec Stmt.superSet s = (s, .raisedInvalidState)) ∧
    [K16.outputSetResult, K16.outputSetException, K16.mapSetResult, K16.mapSetException, K16.mapSetExceptionInfo,
     K16.pollSetException, K16.retryTerminate].all (fun x => x = ⟨.superSet, .invoke K16.invokeBody⟩) = true := by
  obtain ⟨h1, h2, h3⟩ := hr
  rw [plain_setter_locked]
  refine ⟨?_, ?_, plain_setters⟩
  · intro hp
    refine ⟨{ m with st := .finished, owed := some (t, m.stored), stored := [], notified := true }, by simp [step, h1, hp], ?_, by simp [hp],
      by simp [h2 hp]⟩
    simp [hp, Rel]
  · intro hp
    exact ⟨by simp [step, h1, hp], by simp [hp]⟩

/-- **PollFuture.set_result / set_exception_info**: as above, but a future that is already done is left alone silently. -/
theorem C02_code_poll_set (s : PyFut.S) (m : St) (t : Nat) (hr : Rel s m) :
    (s.st = .pending → ∃ m', step m (.finish t) = some m' ∧ Rel (exec K16.pollSetResult.locked s).1 m' ∧
        (exec K16.pollSetResult.locked s).2 = .normal ∧ m'.owed = some (t, s.cbs)) ∧
    (s.st ≠ .pending → step m (.setLate t) = some m ∧ exec K16.pollSetResult.locked s = (s, .returned none)) := by
  obtain ⟨h1, h2, h3⟩ := hr
  rw [(poll_setter_locked s).1]
  constructor
  · intro hp
    refine ⟨{ m with st := .finished, owed := some (t, m.stored), stored := [], notified := true }, by simp [step, h1, hp], ?_, by simp [hp],
      by simp [h2 hp]⟩
    simp [hp, Rel]
  · intro hp
    exact ⟨by simp [step, h1, hp], by simp [hp]⟩

/-- **_me_delegate_cancelled()** changes nothing while this future's own `cancel()` is in progress or when it is done; otherwise it
is the state change of a winning cancel (the model and the replay use `cancelOk` for it: the ghost count `cancelTrue` then also
counts these, which only strengthens what `C02_cancel_true_sticks` says about it). -/
theorem C02_code_delegate_cancelled (s : PyFut.S) (m : St) (t : Nat) (hr : Rel s m) :
    ((s.cancelling = true ∨ s.st ≠ .pending) → exec K16.meDelegateCancelled.locked s = (s, .returned none)) ∧
    ((s.cancelling = false ∧ s.st = .pending) → ∃ m', step m (.cancelOk t) = some m' ∧
        Rel (exec K16.meDelegateCancelled.locked s).1 m' ∧ (exec K16.meDelegateCancelled.locked s).2 = .normal ∧
        m'.owed = some (t, s.cbs) ∧ K16.meDelegateCancelled.tail = .invoke K16.invokeBody) := by
  obtain ⟨h1, h2, h3⟩ := hr
  rw [(delegate_cancelled_locked s).1]
  constructor
  · rintro (hc | hp)
    · simp [hc]
    · simp [hp]
  · rintro ⟨hc, hp⟩
    refine ⟨{ m with st := .cancelled, owed := some (t, m.stored), stored := [], cancelTrue := m.cancelTrue + 1, notified := true },
      by simp [step, h1, hp], ?_, by simp [hc, hp], by simp [h2 hp], rfl⟩
    simp [hc, hp, Rel]

/-- the model's callback pass: `invokeNext` for each owed callback, then `invokeEnd` -/
theorem model_pass (t : Nat) (l : List Nat) (m : St) (ho : m.owed = some (t, l)) :
    run m (l.map (fun _ => Act.invokeNext t) ++ [.invokeEnd t]) = some { m with owed := none, invoked := m.invoked ++ l } := by
  induction l generalizing m with
  | nil =>
      simp [run, runFrom, step, ho]
  | cons c rest ih =>
      simp only [List.map_cons, List.cons_append, run, runFrom]
      have : step m (.invokeNext t) = some { m with owed := some (t, rest), invoked := m.invoked ++ [c] } := by simp [step, ho]
      rw [this]
      have := ih { m with owed := some (t, rest), invoked := m.invoked ++ [c] } rfl
      simp only [run] at this
      simpa [List.append_assoc] using this

/-- **the callback pass**: the regenerated `_me_invoke_callbacks`, run by the thread that completed the future, calls exactly the
callbacks the model says it owes, in that order, each once, whatever some of them raise, and then drops the list; in the model
that is `invokeNext t` for each of them followed by `invokeEnd t` - for lists of any length. -/
theorem C02_code_callback_pass (s : PyFut.S) (m : St) (t : Nat) (ho : m.owed = some (t, s.cbs)) :
    (exec (.invoke K16.invokeBody) s).2 = .normal ∧
    (exec (.invoke K16.invokeBody) s).1.invoked = s.invoked ++ s.cbs ∧
    (exec (.invoke K16.invokeBody) s).1.cbs = [] ∧
    run m (s.cbs.map (fun _ => Act.invokeNext t) ++ [.invokeEnd t]) = some { m with owed := none, invoked := m.invoked ++ s.cbs } := by
  rw [invoke_all]
  exact ⟨rfl, rfl, rfl, model_pass t s.cbs m ho⟩

/-- run a whole method without interference: the locked part, then - unless it returned or raised inside the block - the tail -/
def runMethod (m : Method) (s : PyFut.S) : PyFut.S × Ctl :=
  match exec m.locked s with
  | (s1, .normal) => exec m.tail s1
  | r => r

/-- **a winning `cancel()` as a whole**: on a pending future whose `_me_cancel()` agrees, the regenerated method makes the state
change, notifies the waiters, calls every stored callback once, in order (whatever they raise), drops the list and returns True; in the
model that is `cancelOk t`, one `invokeNext t` per callback, `invokeEnd t`. -/
theorem C02_code_cancel_whole (s : PyFut.S) (m : St) (t : Nat) (hr : Rel s m) (hp : s.st = .pending) (hy : s.meCancelAnswer = true) :
    (runMethod K16.cancel s).2 = .returned (some true) ∧
    (runMethod K16.cancel s).1.st = .cancelled ∧ (runMethod K16.cancel s).1.notified = true ∧
    (runMethod K16.cancel s).1.invoked = s.invoked ++ s.cbs ∧ (runMethod K16.cancel s).1.cbs = [] ∧
    ∃ m', run m (Act.cancelOk t :: (s.cbs.map (fun _ => Act.invokeNext t) ++ [.invokeEnd t])) = some m' ∧
      m'.st = .cancelled ∧ m'.invoked = m.invoked ++ s.cbs ∧ m'.owed = none ∧ m'.stored = [] := by
  obtain ⟨h1, h2, h3⟩ := hr
  have hite : ∀ (s1 : PyFut.S) (a b : Stmt) (i : Nat), s1.env i = true → exec (.ite (.var i) a b) s1 = exec a s1 := by
    intro s1 a b i h; simp [exec, evalE, h]
  have hret : ∀ (s1 : PyFut.S) (i : Nat), exec (.ret (some (.var i))) s1 = (s1, .returned (some (s1.env i))) := by
    intro s1 i; simp [exec, evalE]
  obtain ⟨s1, hs1, he, hst, hcb, hno, hinv⟩ : ∃ s1, exec K16.cancel.locked s = (s1, .normal) ∧ s1.env K16.cancel_out = true ∧
      s1.st = .cancelled ∧ s1.cbs = s.cbs ∧ s1.notified = true ∧ s1.invoked = s.invoked := by
    have hl := (cancel_locked s).1
    simp only [hp, hy, if_true] at hl
    refine ⟨(exec K16.cancel.locked s).1, ?_, ?_, ?_, ?_, ?_, ?_⟩ <;> rw [hl] <;> simp [S.setVar]
  have htail := (cancel_locked s).2
  unfold runMethod
  rw [hs1]
  simp only [htail]
  rw [exec_seq, hite _ _ _ _ he, invoke_all]
  simp only [hret]
  refine ⟨by simp [he], by simp [hst], by simp [hno], by simp [hinv, hcb], by simp, ?_⟩
  have hstep : step m (.cancelOk t) = some { m with st := .cancelled, owed := some (t, m.stored), stored := [], cancelTrue := m.cancelTrue + 1, notified := true } := by
    simp [step, h1, hp]
  have hpass := model_pass t s.cbs { m with st := .cancelled, owed := some (t, m.stored), stored := [], cancelTrue := m.cancelTrue + 1, notified := true } (by simp [h2 hp])
  refine ⟨_, (by simp only [run, runFrom, hstep]; exact hpass), ?_⟩
  simp

/-- **a winning setter as a whole** (`_OutputFuture.set_result`; the other plain setters are the same term): on a pending future the
regenerated method makes the state change, notifies the waiters, calls every stored callback once, in order, drops the list; in the
model that is `finish t`, one `invokeNext t` per callback, `invokeEnd t`.  On a future that is already done it raises
InvalidStateError from inside the lock section and nothing else happens (`setLate t`). -/
theorem C02_code_set_whole (s : PyFut.S) (m : St) (t : Nat) (hr : Rel s m) :
    (s.st = .pending →
      (runMethod K16.outputSetResult s).2 = .normal ∧ (runMethod K16.outputSetResult s).1.st = .finished ∧
      (runMethod K16.outputSetResult s).1.notified = true ∧ (runMethod K16.outputSetResult s).1.invoked = s.invoked ++ s.cbs ∧
      (runMethod K16.outputSetResult s).1.cbs = [] ∧
      ∃ m', run m (Act.finish t :: (s.cbs.map (fun _ => Act.invokeNext t) ++ [.invokeEnd t])) = some m' ∧
        m'.st = .finished ∧ m'.invoked = m.invoked ++ s.cbs ∧ m'.owed = none ∧ m'.stored = []) ∧
    (s.st ≠ .pending → runMethod K16.outputSetResult s = (s, .raisedInvalidState) ∧ step m (.setLate t) = some m) := by
  obtain ⟨h1, h2, h3⟩ := hr
  have hm : K16.outputSetResult = ⟨.superSet, .invoke K16.invokeBody⟩ := by decide
  constructor
  · intro hp
    have hl : exec Stmt.superSet s = ({ s with st := .finished, notified := true }, .normal) := by
      rw [plain_setter_locked]; simp [hp]
    unfold runMethod
    rw [hm]
    simp only [hl, invoke_all]
    refine ⟨trivial, trivial, trivial, trivial, trivial, ?_⟩
    have hstep : step m (.finish t) = some { m with st := .finished, owed := some (t, m.stored), stored := [], notified := true } := by
      simp [step, h1, hp]
    have hpass := model_pass t s.cbs { m with st := .finished, owed := some (t, m.stored), stored := [], notified := true } (by simp [h2 hp])
    refine ⟨_, (by simp only [run, runFrom, hstep]; exact hpass), ?_⟩
    simp
  · intro hp
    have hl : exec Stmt.superSet s = (s, .raisedInvalidState) := by
      rw [plain_setter_locked]; simp [hp]
    refine ⟨?_, by simp [step, h1, hp]⟩
    unfold runMethod
    rw [hm]
    simp only [hl]

/-- **add_done_callback as a whole**: on a pending future the callback is stored and NOT called; on a done future it is called
directly, once, by the registering thread, after the lock has been released (`addDirect t c ; callDirect t c` in the model) - and
if it raises, the exception reaches that caller (the user's own thread). -/
theorem C02_code_add_whole (s : PyFut.S) (m : St) (t : Nat) (hr : Rel s m) (hfresh : s.fn ∉ m.registered) :
    (s.st = .pending →
      runMethod K16.addDoneCallback s = ({ s with cbs := s.cbs ++ [s.fn] }, .returned none) ∧
      ∃ m', step m (.addStore t s.fn) = some m' ∧ m'.stored = m.stored ++ [s.fn] ∧ m'.invoked = m.invoked) ∧
    (s.st ≠ .pending →
      (runMethod K16.addDoneCallback s).1.direct = s.direct ++ [s.fn] ∧ (runMethod K16.addDoneCallback s).1.cbs = s.cbs ∧
      (runMethod K16.addDoneCallback s).2 = (if s.raises s.fn then .raisedUser else .normal) ∧
      ∃ m', run m [.addDirect t s.fn, .callDirect t s.fn] = some m' ∧ m'.invoked = m.invoked ++ [s.fn] ∧ m'.stored = m.stored) := by
  obtain ⟨h1, h2, h3⟩ := hr
  have hl := (add_locked s).1
  have htail := (add_locked s).2
  constructor
  · intro hp
    rw [if_pos hp] at hl
    refine ⟨by unfold runMethod; rw [hl], { m with stored := m.stored ++ [s.fn], registered := m.registered ++ [s.fn] }, ?_, rfl, rfl⟩
    simp [step, h1, hp, hfresh]
  · intro hp
    rw [if_neg hp] at hl
    have hrun : runMethod K16.addDoneCallback s = exec .callFn s := by unfold runMethod; rw [hl, htail]
    rw [hrun]
    refine ⟨by simp [exec], by simp [exec], by simp [exec], ?_⟩
    have h1' : step m (.addDirect t s.fn) = some { m with direct := m.direct ++ [(t, s.fn)], registered := m.registered ++ [s.fn] } := by
      simp [step, h1, hp, hfresh]
    refine ⟨{ m with direct := (m.direct ++ [(t, s.fn)]).erase (t, s.fn), registered := m.registered ++ [s.fn], invoked := m.invoked ++ [s.fn] }, ?_, rfl, rfl⟩
    have hne : ¬ m.st = .pending := by rw [h1]; exact hp
    simp [run, runFrom, step, hne, hfresh]

/-- no class other than `_Future` redefines a protocol method (f_nocancel's `cancel` is the deliberate exception) -/
theorem C02_code_no_overrides : K16.protocolOverrides = [] := by decide

/-! Non-vacuity: a pending future with two callbacks, the second raising; the winning cancel and its pass. -/
example :
    let s : PyFut.S := { cbs := [3, 4], raises := fun c => c == 3 }
    let s1 := (exec K16.cancel.locked s).1
    (exec K16.cancel.locked s).2 = .normal ∧ s1.st = .cancelled ∧
      (exec K16.cancel.tail s1).2 = .returned (some true) ∧ (exec K16.cancel.tail s1).1.invoked = [3, 4] := by
  decide

end MoreExec.MeFuture
