/-
  C09 — Timeouts fire exactly once, never early, and at the deadline.

  Property theorems only (helper lemmas live in MoreExec/Proofs/Timeout).  Every theorem quantifies over ALL
  runs `as : List Act` of the model from its initial state: every interleaving of any number of client
  threads, delegate workers and the timeout thread, every outcome of the delegate, any number of submissions,
  of any length.
-/
import MoreExec.Proofs.Timeout.NeverEarly
import MoreExec.Proofs.Timeout.ExactlyOnce
import MoreExec.Proofs.Timeout.Sleep
import MoreExec.Proofs.Timeout.Outcome

namespace MoreExec.Timeout

/-- **Never early.**  Every `cancel()` the timeout thread ever issues for a future happens at a time strictly
later than that future's own deadline, and that deadline is the one recorded when its job was appended
(clock at creation + its default or per-call timeout).  (Stated so that the harmless rewrite `<` → `<=` in
`_partition_jobs` would need `≤` here; the code has `<`.) -/
theorem C09_never_early (as : List Act) (s : St) (h : runFrom step init as = some s) :
    ∀ a ∈ s.attempts, a.2.1 < a.2.2 ∧ (a.1, a.2.1) ∈ s.deadlines :=
  (invariant_run step NEInv NEInv_step init NEInv_init as s h).att

/-- **Exactly once.**  No future receives two cancel attempts from the timeout thread, however many futures
with earlier or later deadlines are submitted, complete or are cancelled meanwhile: a job sits in exactly one
of `_jobs`, the thread's overdue list, or the already-attempted set. -/
theorem C09_exactly_once (as : List Act) (s : St) (h : runFrom step init as = some s) :
    (s.attempts.map (·.1)).Nodup := by
  have := (invariant_run step EOInv EOInv_step init EOInv_init as s h).nodup
  simp only [tracked, List.append_assoc] at this
  exact (List.nodup_append.mp this).1

/-- **Sleep invariant** (no lost wake-up).  In every reachable state: if the timeout thread has computed its
wait (or is parked), its event is clear and no producer is between its mutation and its `set()`, then its
wake-up time is not later than the deadline of any job in `_jobs`. -/
theorem C09_sleep_invariant (as : List Act) (s : St) (h : runFrom step init as = some s) : SI s :=
  invariant_run step SI SI_step init SI_init as s h

/-- **At the deadline, not at a later wake-up.**  Virtual time jumps only when nothing is runnable.  Whenever it
jumps while the timeout thread is parked, it never jumps past the deadline of any job still in `_jobs`:
the thread is woken at the deadline (the next iteration then classifies the job overdue and cancels it). -/
theorem C09_at_deadline (as : List Act) (tm : Time) (t : Tid) (bs : List Act) (s' : St)
    (h : runFrom step init (as ++ ⟨t, .ev (.idle tm)⟩ :: bs) = some s') :
    ∃ m, runFrom step init as = some m ∧
      (∀ wk, m.wst = .parked wk → ∀ j ∈ m.jobs, tm ≤ j.deadline) := by
  obtain ⟨m, hm, hrest⟩ := run_prefix step init as _ s' h
  refine ⟨m, hm, ?_⟩
  intro wk hwk j hj
  have hsi : SI m := C09_sleep_invariant as m hm
  -- the jump is enabled: quiescent, and not past the parked thread's wake-up time
  simp only [runFrom] at hrest
  cases hst : step m ⟨t, .ev (.idle tm)⟩ with
  | none => simp [hst] at hrest
  | some m' =>
    simp only [step] at hst
    split at hst
    · rename_i hg
      obtain ⟨hq, hnow, hjump⟩ := hg
      -- quiescent ⇒ nobody owes a set
      have hno : NoOwed m := by
        intro t'
        unfold quiescent at hq
        simp only [List.all_eq_true] at hq
        cases hp : getProg m t' with
        | nil => simp
        | cons op rest =>
          have := hq (t', op :: rest) (getProg_mem hp)
          simp only at this
          intro hh
          simp at hh
          subst hh
          simp [blockedOp] at this
      -- parked with a set event is runnable, so the event is clear
      have hflag : m.flag = false := by
        simp only [jumpOk, hwk] at hjump
        cases wk <;> simp at hjump <;> simp [hjump]
      have hb := hsi hflag hno j hj
      simp only [Bound, hwk] at hb
      obtain ⟨w, rfl, hw⟩ := hb
      simp only [jumpOk, hwk, Bool.and_eq_true, decide_eq_true_eq] at hjump
      exact Nat.le_trans hjump.1 hw
    · simp at hst


/-! Non-vacuity: a concrete run (one submission with timeout 5, never completing) in which the timeout thread
parks, time jumps to the deadline, and exactly one cancel attempt is made at deadline + 1 tick. -/
def demoRun : List Act :=
  let c (e : Ev) : Act := ⟨0, .ev e⟩
  let ct : Act := ⟨0, .tau⟩
  let w (e : Ev) : Act := ⟨1, .ev e⟩
  let wt : Act := ⟨1, .tau⟩
  [ w .wstart,
    c (.callSubmit 5), ct, c (.dsubmit 0), c (.daddcbIn 0 false), c (.daddcbOut 0), ct, ct, ct, c .setE, ct, c (.retSubmit 0),
    wt, wt, wt, w (.waitE (some 5) true), w .clearE,
    wt, wt, wt, w (.waitE (some 5) false), w (.parkE (some 5)),
    ⟨0, .ev (.idle 5)⟩,
    w (.wokeE false), w .clearE,
    wt, wt, wt, w (.waitE (some 0) false), w (.tick 6), w .clearE,
    wt, wt, wt ]

example : (runFrom step init demoRun).map (fun s => (s.attempts, s.jumps, s.deadlines)) =
    some ([(0, 5, 6)], [(0, 5)], [(0, 5)]) := by decide +kernel

/-- **Outcome kept.**  Once the future of a submission is done — finished with its delegate's outcome, or cancelled — nothing any
thread does afterwards changes that: in every continuation of every run it is still done, and it is cancelled iff it was.  In
particular a future that completes before its deadline is never turned into a cancelled one by the timeout thread (whose `cancel()`
on a done future is a no-op, `cancel_of_done_noop`), nor does a delegate finishing after a time-out cancellation "un-cancel" it. -/
theorem C09_outcome_kept (as bs : List Act) (m s : St) (h1 : runFrom step init as = some m) (h2 : runFrom step m bs = some s)
    (k : Fid) (hd : (getFut m k).done = true) :
    (getFut s k).done = true ∧ (getFut s k).fcancelled = (getFut m k).fcancelled := by
  have hm : OInv m := invariant_run step OInv OInv_step init OInv_init as m h1
  -- carry (OInv, done, cancelled-bit) along the continuation
  have := invariant_run step
    (fun x => OInv x ∧ (getFut x k).done = true ∧ (getFut x k).fcancelled = (getFut m k).fcancelled)
    (fun x a x' hx hst =>
      ⟨OInv_step x a x' hx.1 hst, (kept_step x a x' hx.1 hst k hx.2.1).1,
       (kept_step x a x' hx.1 hst k hx.2.1).2.trans hx.2.2⟩)
    m ⟨hm, hd, rfl⟩ bs s h2
  exact ⟨this.2.1, this.2.2⟩

/-- the timeout thread only ever selects futures that are not done for a cancel attempt -/
theorem C09_overdue_not_done (s : St) : ∀ j ∈ overdue s, (getFut s j.fut).done = false ∧ j.deadline < s.now :=
  overdue_not_done s

/-! Non-vacuity of `C09_outcome_kept`: the callable of submission 0 (time-out 5) starts and finishes before the deadline; the future is
done, not cancelled; the timeout thread then wakes up at the deadline, partitions (nothing overdue: the job is done) and sleeps on. -/
def keptRun : List Act :=
  let c (e : Ev) : Act := ⟨0, .ev e⟩
  let ct : Act := ⟨0, .tau⟩
  let p (e : Ev) : Act := ⟨2, .ev e⟩
  let pt : Act := ⟨2, .tau⟩
  [ ⟨1, .ev .wstart⟩,
    c (.callSubmit 5), ct, c (.dsubmit 0), c (.daddcbIn 0 false), c (.daddcbOut 0), ct, ct, ct, c .setE, ct, c (.retSubmit 0),
    p (.drun 0), p (.dcomplete 0), pt, pt ]
example : (runFrom step init keptRun).map (fun s => ((getFut s 0).done, (getFut s 0).fcancelled, (getFut s 0).dstate)) =
    some (true, false, DState.finished) := by decide +kernel

end MoreExec.Timeout
