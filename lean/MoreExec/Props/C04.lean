/-
  C04 — No deadlock among API calls and internal threads, including nested submission.
  The rank discipline: every blocking acquisition targets a lock class of strictly greater rank than every lock the
  thread holds (re-entrant re-acquisition of a lock it owns never blocks).  Theorem: under that discipline a waits-for
  cycle among threads blocked on locks is impossible.  That the library respects the discipline is checked on every run
  by comparing the acquisition edges of real executions with `allowed` (correspondence), and the structural facts it
  rests on are regenerated from the source (K12).
-/
import MoreExec.Model.LockOrder
import MoreExec.Gen.K12

namespace MoreExec.LockOrder
open MoreExec.Gen

theorem chain_rank_lt (a : LockClass) (rest : List LockClass) (h : Chain (a :: rest)) : ∀ b ∈ rest, rank a < rank b := by
  induction rest generalizing a with
  | nil => intro b hb; cases hb
  | cons x xs ih =>
    obtain ⟨h1, h2⟩ := h
    have hax : rank a < rank x := by simpa [allowed] using h1
    intro b hb
    cases hb with
    | head => exact hax
    | tail _ hb' => exact Nat.lt_trans hax (ih x h2 b hb')

/-- (no lock cycle) A waits-for chain that respects the rank discipline never closes into a cycle: the lock the last
thread is blocked on cannot be one held earlier in the chain — for chains of any length, any number of threads, layers
and locks. -/
theorem C04_no_lock_cycle (a : LockClass) (rest : List LockClass) (h : Chain (a :: rest)) : a ∉ rest := by
  intro hm
  exact Nat.lt_irrefl _ (chain_rank_lt a rest h a hm)

/-- … in particular no thread ever blocks on a lock class it already holds (self-deadlock on a non-re-entrant lock) -/
theorem C04_no_self_block (a : LockClass) : allowed a a = false := by simp [allowed]

/-- the order is total on the locks of one layer and puts every lock of an outer layer before every lock of an inner one
(submit() and cancel() travel inward holding the outer locks) -/
theorem C04_outer_before_inner (a b : LockClass) (ha : a.role ≠ .registry ∧ a.role ≠ .cond) (hb : b.role ≠ .registry ∧ b.role ≠ .cond)
    (hd : a.depth < b.depth) : allowed a b = true := by
  obtain ⟨⟨ad, ak, ar⟩, ⟨bd, bk, br⟩⟩ := (⟨a, b⟩ : LockClass × LockClass)
  simp only [allowed, rank, decide_eq_true_eq]
  cases ar <;> cases br <;> simp_all [roleRank] <;> (try split) <;> (try split) <;> omega

/-- the nesting sites read off the current source (K12: which lock each `with` statement takes while which other is
held, per module) are all in the allowed order -/
theorem C04_source_nesting_ranked : K12.allNestingsRanked = true := by decide

/-- the places where user code can run while the library holds a lock are exactly the known ones (K12) -/
theorem C04_user_code_under_lock_sites : K12.userCodeUnderLockSites = K12.expectedUserCodeUnderLockSites := by decide

end MoreExec.LockOrder
