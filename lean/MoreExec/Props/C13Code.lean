/-
  C13 — the tie between the theorems about `MapFut.resolve` and the code: the resolution methods of map.py / flat_map.py,
  regenerated from the current source as programs of `Model/PyMap` (Gen/K15), compute `MapFut.resolve`; hence every C13 law
  holds of what the source says now, for every input outcome and every behaviour of `fn` / `error_fn`.
-/
import MoreExec.Props.C13
import MoreExec.Proofs.MapFut.K15

namespace MoreExec.MapFut
open MoreExec.PyMap

/-- **The code is the model**: running the regenerated `_delegate_resolved` (and, for flat_map, running it again for the future
the user function returned) ends with exactly the result, the `fn` calls and the `error_fn` calls of `resolve`, and no exception
escapes from either call - whether the returned future is already done when it is returned (`sync`: the second call is
nested in the first one's `_set_delegate`, with `self` in whatever state `_on_mapped` has left it by then) or finishes later. -/
theorem C13_code_is_model (c : Cfg) (sync : Bool) (d : Outcome) :
    toRes (runCode c sync d).1 = some (resolve c d) ∧ (runCode c sync d).2 = false :=
  run_eq_resolve c sync d

/-- **The code meets the property's reading** (`spec` is written independently of the code's structure). -/
theorem C13_code_meets_spec (c : Cfg) (sync : Bool) (d : Outcome) :
    (toRes (runCode c sync d).1).map (·.out) = some (spec c d) := by
  rw [(run_eq_resolve c sync d).1]; simp [C13_spec]

/-- **Each user function is called at most once by the code, only for its own case, with the input's own value / exception**
(also when the future returned to flat_map fails afterwards: `error_fn` is not consulted for that failure). -/
theorem C13_code_calls (c : Cfg) (sync : Bool) (d : Outcome) :
    ∃ r, toRes (runCode c sync d).1 = some r ∧
      r.fnCalls = (match d, c.fn with | .ok v, some _ => [v] | _, _ => []) ∧
      r.errCalls = (match d, c.errFn with | .err e, some _ => [e] | _, _ => []) :=
  ⟨resolve c d, (run_eq_resolve c sync d).1, C13_calls c d⟩

/-! Non-vacuity: the generated programs really run user code (flat_map, fn returns a future that fails; error_fn is not consulted
for that failure). -/
example : toRes (runCode ⟨true, some (fun v => .retFut (.err (v + 1))), some (fun _ => .ret 0)⟩ true (.ok 5)).1 =
    some { out := .err 6, fnCalls := [5], errCalls := [] } := by
  rw [(run_eq_resolve _ _ _).1]; decide

end MoreExec.MapFut
