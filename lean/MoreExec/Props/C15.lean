/-
  C15 — f_zip / f_sequence / f_traverse keep positions and propagate the first failure.
  Decision kernel K6 regenerated from futures/zip.py.  Theorems hold for every number of inputs and every
  completion order.
-/
import MoreExec.Proofs.Zipper.Positions

namespace MoreExec.Zipper
open MoreExec.Gen

/-- **Positions**: `n` inputs that all succeed, completing in ANY order (`order` is a permutation of `0..n-1`):
the output is the tuple holding input `i`'s result at position `i`. -/
theorem C15_positions (n : Nat) (val : Nat → GVal) (ins : Nat → GIn)
    (hok : ∀ i, okIn (ins i)) (hval : ∀ i, (ins i).result = val i)
    (order : List Nat) (hperm : order.Perm (List.range n)) (hn : 0 < n) :
    (run (initSt n) (order.map (fun i => (i, ins i)))).out
      = some (.tuple ((List.range n).map (fun i => GSlot.value (val i)))) := by
  have hnd : order.Nodup := hperm.nodup_iff.mpr List.nodup_range
  have hmem : ∀ i, i ∈ order ↔ i < n := fun i => by rw [hperm.mem_iff]; simp
  have hne : order ≠ [] := by
    intro h; subst h
    have := hperm.length_eq; simp at this; omega
  have h := run_positions n val ins hok hval order [] (initSt n) (by simpa using hnd)
    (fun i hi => (hmem i).mp hi) (by simp [initSt, hperm.length_eq]) (by simp [initSt, filled]) rfl hne
  rw [h]
  congr 2
  apply List.map_congr_left
  intro i hi
  have : i ∈ order := (hmem i).mpr (by simpa using hi)
  simp [this]

/-- **First failure wins** (exception): while undecided, an input's exception becomes the output's exception … -/
theorem C15_first_failure_exception (s : ZSt) (i : Nat) (f : GIn) (e : GExc) (later : List (Nat × GIn))
    (hd : s.done = false) (hc : f.cancelled = false) (he : f.exception = some e) (ht : e.truthy = true) :
    (run s ((i, f) :: later)).out = some (.err e) := by
  simp only [run, List.foldl_cons]
  rw [handleDone_exc s i f e hd hc he ht]
  have := run_done { s with done := true, out := some (ZOut.err e) } later rfl
  simp only [run] at this
  rw [this]

/-- … and a cancelled input cancels the output; nothing that finishes later changes it. -/
theorem C15_first_failure_cancelled (s : ZSt) (i : Nat) (f : GIn) (later : List (Nat × GIn))
    (hd : s.done = false) (hc : f.cancelled = true) :
    (run s ((i, f) :: later)).out = some .cancelled := by
  simp only [run, List.foldl_cons]
  rw [handleDone_cancelled s i f hd hc]
  have := run_done { s with done := true, out := some ZOut.cancelled } later rfl
  simp only [run] at this
  rw [this]

/-- successful inputs before the first failure do not decide anything unless they are the last one -/
theorem C15_success_step (s : ZSt) (i : Nat) (f : GIn) (hd : s.done = false) (hok : okIn f) (hrem : 1 < s.remaining) :
    (handleDone s i f).done = false ∧ (handleDone s i f).out = s.out ∧ (handleDone s i f).remaining = s.remaining - 1 := by
  rw [handleDone_ok s i f hd hok]
  have : ¬ (s.remaining - 1 = 0) := by omega
  simp [this, hd]

/-- **f_traverse calls `fn` exactly once per element, in iteration order, and stops at the first raise**, whose
exception becomes the outcome. -/
theorem C15_traverse_calls {α β ε : Type} (fn : α → Sum β ε) (xs : List α) :
    (traverseCalls fn xs).1 <+: xs ∧
    (∀ bs, (traverseCalls fn xs).2 = .inl bs →
        (traverseCalls fn xs).1 = xs ∧ xs.map fn = bs.map .inl) ∧
    (∀ e, (traverseCalls fn xs).2 = .inr e →
        ∃ pre x post, xs = pre ++ x :: post ∧ (traverseCalls fn xs).1 = pre ++ [x] ∧ fn x = .inr e ∧
          ∀ y ∈ pre, ∃ b, fn y = .inl b) := by
  induction xs with
  | nil => simp [traverseCalls]
  | cons x xs ih =>
    simp only [traverseCalls]
    cases hx : fn x with
    | inr e =>
      simp only
      refine ⟨by simp [List.prefix_cons_iff], by simp, ?_⟩
      intro e' he'
      simp at he'; subst he'
      exact ⟨[], x, xs, rfl, rfl, hx, by simp⟩
    | inl b =>
      simp only
      obtain ⟨ih1, ih2, ih3⟩ := ih
      cases hr : traverseCalls fn xs with
      | mk called res =>
        rw [hr] at ih1 ih2 ih3
        cases res with
        | inl bs =>
          simp only
          obtain ⟨h1, h2⟩ := ih2 bs rfl
          refine ⟨by simpa [List.cons_prefix_cons] using ih1, ?_, by simp⟩
          intro bs' hbs'
          simp at hbs'; subst hbs'
          simp only at h1 h2
          exact ⟨by rw [h1], by simp [hx, h2]⟩
        | inr e =>
          simp only
          refine ⟨by simpa [List.cons_prefix_cons] using ih1, by simp, ?_⟩
          intro e' he'
          simp at he'; subst he'
          obtain ⟨pre, y, post, h1, h2, h3, h4⟩ := ih3 e rfl
          refine ⟨x :: pre, y, post, by simp [h1], by simp only at h2; simp [h2], h3, ?_⟩
          intro z hz
          rcases List.mem_cons.mp hz with rfl | hz
          · exact ⟨b, hx⟩
          · exact h4 z hz

/-! Non-vacuity: three inputs completing in the order 2, 0, 1. -/
example :
    let v : Nat → GVal := fun i => ⟨10 + i, true⟩
    let ins : Nat → GIn := fun i => ⟨i, false, none, v i⟩
    (run (initSt 3) ([2, 0, 1].map (fun i => (i, ins i)))).out
      = some (.tuple [.value ⟨10, true⟩, .value ⟨11, true⟩, .value ⟨12, true⟩]) := by decide

/-- (futures/zip.py, regenerated) `handle_done` takes its whole decision in ONE section on the zipper's lock - which is why a
completion order exists to fold over - and performs the writes it decided outside the lock; callback i is registered on input i. -/
theorem C15_source_facts : K6.handleDoneGlue = true := by decide

end MoreExec.Zipper
