/-
  C07 — Throttle: never more than count in flight, FIFO hand-over, no idle capacity, blocking submit.
  Property theorems only (helper lemmas live in Proofs/Throttle).  Every theorem quantifies over ALL action
  sequences of the model: every interleaving of any number of submitters, completions, cancellations and
  count values, of any length.
-/
import MoreExec.Proofs.Throttle.Inv
import MoreExec.Proofs.Throttle.Fifo
import MoreExec.Proofs.Throttle.Sleep

namespace MoreExec.Throttle
open MoreExec.Gen

/-- (bound, dynamic count) At every hand-over to the delegate, the number of callables handed over and not yet
done is strictly below the count value the hand-over thread most recently obtained. -/
theorem C07_bound_at_handover (c0 : Option Nat) (as : List Act) (k : Nat) (bs : List Act) (s' : St)
    (hrun : run (init c0) (as ++ Act.handOver k :: bs) = some s') :
    ∃ m m', run (init c0) as = some m ∧ step m (.handOver k) = some m' ∧
      ∀ c, m.wThrottle = some c → m.inflight.length < c := by
  refine transition_property step Inv (fun m a _ => ∀ k, a = Act.handOver k → ∀ c, m.wThrottle = some c → m.inflight.length < c)
    inv_step ?_ (init c0) (inv_init c0) as (.handOver k) bs s' hrun |>.imp fun m hm => hm.imp fun m' ⟨h1, h2, h3⟩ => ⟨h1, h2, h3 k rfl⟩
  intro m a m' hinv hstep k hk c hc
  subst hk
  simp only [step] at hstep
  split at hstep
  · rename_i j rest hw hcm
    have hb := hinv.commitBound (by simp [hcm]) c hc
    have hcnt := hinv.count
    simp only [hcm, List.length_cons] at hcnt
    omega
  · cases hstep

/-- the in-flight ghost never exceeds the library's own counter -/
theorem C07_inflight_le_counter (c0 : Option Nat) (as : List Act) (s : St) (hrun : run (init c0) as = some s) :
    s.inflight.length ≤ s.running := by
  have := (invariant_run step Inv inv_step (init c0) (inv_init c0) as s hrun).count
  omega

/-- (bound, static count) With `count = n` never more than `n` callables are handed over and not yet done. -/
theorem C07_bound_static (n : Nat) (as : List Act) (hs : ∀ a ∈ as, StaticAct (some n) a) (s : St)
    (hrun : run (init (some n)) as = some s) : s.inflight.length ≤ n := by
  have h1 := C07_inflight_le_counter (some n) as s hrun
  suffices h : SInv (some n) s from Nat.le_trans h1 (h.bound n rfl)
  exact invariant_run_guarded step (StaticAct (some n)) (SInv (some n))
    (fun m a m' hg hi hst => sinv_step _ m a m' hg hi hst) _ (sinv_init _) as hs s hrun

/-- (FIFO) The sequence of hand-overs is a prefix of the sequence of submissions with the entries removed by
`cancel()` deleted: callables reach the delegate in the order they were submitted, none skipped, none twice. -/
theorem C07_fifo (c0 : Option Nat) (as : List Act) (s : St) (hrun : run (init c0) as = some s) :
    s.handed ++ (s.committed ++ s.queue) = s.enq.filter (fun k => !(s.cancelled.contains k)) ∧ s.enq.Nodup := by
  have h := invariant_run step FInv finv_step (init c0) (finv_init c0) as s hrun
  exact ⟨by rw [← List.append_assoc]; exact h.order, h.nodup⟩

/-- (no idle capacity, static count) Whenever the hand-over thread is parked on its event with the event clear
and no producer is between its state change and its `event.set()`, either nothing is queued or the counter is at
the limit: the thread never sleeps on capacity it could use, so no fall-back timer is needed for progress. -/
theorem C07_no_idle_capacity (c : Option Nat) (as : List Act) (hs : ∀ a ∈ as, StaticAct c a) (s : St)
    (hrun : run (init c) as = some s) (hp : s.wpc = .parked) (hf : s.flag = false) (hz : s.pendingSet = 0) :
    s.queue = [] ∨ ∃ n, c = some n ∧ s.running ≥ n := by
  suffices h : SInv c s from h.sleep (Or.inr (Or.inr hp)) hf hz
  exact invariant_run_guarded step (StaticAct c) (SInv c)
    (fun m a m' hg hi hst => sinv_step _ m a m' hg hi hst) _ (sinv_init _) as hs s hrun

/-- (count fall-back) A raising count callable leaves the last value in force. -/
theorem C07_count_fallback (last : Option Nat) : evalThrottle last none = last := rfl

/-- (regenerated facts of throttle.py) the blocking guard is `count is None or len(queue) < count`, the blocking
loop tests `block` and the shutdown flag, and `_eval_throttle` falls back to the last value. -/
theorem C07_blocking_guard_facts :
    K4.blockGuardIsNoneOrRoom = true ∧ K4.blockLoopTestsBlockAndShutdown = true ∧ K4.evalThrottleFallsBack = true := by
  decide

/-- (admission kernel, regenerated from `_submit_loop_iter`) takes a prefix of the queue, counts every taken job,
stops only on an empty queue or a full counter, and never over-fills. -/
theorem C07_admission_kernel (q : List Nat) (r : Nat) (th : Option Nat) :
    q = (K4.admission q r th).1 ++ (K4.admission q r th).2.1 ∧
    (K4.admission q r th).2.2.1 = r + (K4.admission q r th).1.length ∧
    ((K4.admission q r th).2.1 = [] ∨ ∃ c, th = some c ∧ (K4.admission q r th).2.2.1 ≥ c) ∧
    (∀ c, th = some c → (K4.admission q r th).1 ≠ [] → (K4.admission q r th).2.2.1 ≤ c) := by
  obtain ⟨h1, h2, _, h4, h5⟩ := admit_spec q r th
  exact ⟨h1, h2, h4, h5⟩

/-! Non-vacuity: a concrete run with two hand-overs under count = 1 (the second only after the first is done). -/
def demoRun : List Act :=
  [.enqueue 0, .setE, .enqueue 1, .setE, .evalW (some (some 1)), .readW, .admitA, .handOver 0, .handDone, .waitE, .clearE,
   .evalW (some (some 1)), .readW, .admitA, .handDone, .waitE, .ddone 0, .decr 0, .setE, .wake, .clearE,
   .evalW (some (some 1)), .readW, .admitA, .handOver 1]

example : (run (init (some 1)) demoRun).isSome = true := by decide
example : ∀ a ∈ demoRun, StaticAct (some 1) a := by
  intro a ha; simp only [demoRun, List.mem_cons, List.mem_nil_iff, or_false] at ha
  rcases ha with h | h | h | h | h | h | h | h | h | h | h | h | h | h | h | h | h | h | h | h | h | h | h | h | h <;> subst h <;> simp [StaticAct]
example : ((run (init (some 1)) demoRun).map (·.handed)) = some [0, 1] := by decide
/-- a reachable parked state with clear flag and no pending producer (hypotheses of `C07_no_idle_capacity`) -/
example : ((run (init (some 1)) (demoRun.take 16)).map (fun s => (s.wpc, s.flag, s.pendingSet, s.queue, s.running)))
    = some (.parked, false, 0, [1], 1) := by decide

end MoreExec.Throttle
