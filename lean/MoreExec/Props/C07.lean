/-
  C07 — Throttle: never more than count in flight, FIFO hand-over, no idle capacity, blocking submit.
  Property theorems only (helper lemmas live in Proofs/Throttle).  Every theorem quantifies over ALL action
  sequences of the model: every interleaving of any number of submitters, completions, cancellations and
  count values, of any length.
-/
import MoreExec.Proofs.Throttle.Inv
import MoreExec.Proofs.Throttle.Fifo
import MoreExec.Proofs.Throttle.Sleep
import MoreExec.Proofs.Throttle.K4
import MoreExec.Model.BlockProto

namespace MoreExec.Throttle
open MoreExec.Gen

/-- (bound, dynamic count) At every hand-over to the delegate, the number of callables handed over and not yet
done is strictly below the count value the hand-over thread most recently obtained. -/
theorem C07_bound_at_handover (c0 : Option Nat) (as : List Act) (k : Nat) (bs : List Act) (s' : St)
    (hrun : run (init c0) (as ++ Act.handOver k :: bs) = some s') :
    ∃ m m', run (init c0) as = some m ∧ step m (.handOver k) = some m' ∧
      ∀ c, m.wThrottle = some c → m.inflight.length < c := by
  refine transition_property step Inv (fun m a _ => ∀ k, a = Act.handOver k → ∀ c, m.wThrottle = some c → m.inflight.length < c)
    inv_step ?_ (init c0) (inv_init c0) as (.handOver k) bs s' hrun |>.imp fun m hm => hm.imp fun m' ⟨h1, h2, h3⟩ => ⟨h1, h2, h3 k rfl⟩
  intro m a m' hinv hstep k hk c hc
  subst hk
  simp only [step] at hstep
  split at hstep
  · rename_i j rest hw hcm
    have hb := hinv.commitBound (by simp [hcm]) c hc
    have hcnt := hinv.count
    simp only [hcm, List.length_cons] at hcnt
    omega
  · cases hstep

/-- the in-flight ghost never exceeds the library's own counter -/
theorem C07_inflight_le_counter (c0 : Option Nat) (as : List Act) (s : St) (hrun : run (init c0) as = some s) :
    s.inflight.length ≤ s.running := by
  have := (invariant_run step Inv inv_step (init c0) (inv_init c0) as s hrun).count
  omega

/-- (bound, static count) With `count = n` never more than `n` callables are handed over and not yet done. -/
theorem C07_bound_static (n : Nat) (as : List Act) (hs : ∀ a ∈ as, StaticAct (some n) a) (s : St)
    (hrun : run (init (some n)) as = some s) : s.inflight.length ≤ n := by
  have h1 := C07_inflight_le_counter (some n) as s hrun
  suffices h : SInv (some n) s from Nat.le_trans h1 (h.bound n rfl)
  exact invariant_run_guarded step (StaticAct (some n)) (SInv (some n))
    (fun m a m' hg hi hst => sinv_step _ m a m' hg hi hst) _ (sinv_init _) as hs s hrun

/-- (FIFO) The sequence of hand-overs is a prefix of the sequence of submissions with the entries removed by
`cancel()` deleted: callables reach the delegate in the order they were submitted, none skipped, none twice. -/
theorem C07_fifo (c0 : Option Nat) (as : List Act) (s : St) (hrun : run (init c0) as = some s) :
    s.handed ++ (s.committed ++ s.queue) = s.enq.filter (fun k => !(s.cancelled.contains k)) ∧ s.enq.Nodup := by
  have h := invariant_run step FInv finv_step (init c0) (finv_init c0) as s hrun
  exact ⟨by rw [← List.append_assoc]; exact h.order, h.nodup⟩

/-- (no idle capacity, static count) Whenever the hand-over thread is parked on its event with the event clear
and no producer is between its state change and its `event.set()`, either nothing is queued or the counter is at
the limit: the thread never sleeps on capacity it could use, so no fall-back timer is needed for progress. -/
theorem C07_no_idle_capacity (c : Option Nat) (as : List Act) (hs : ∀ a ∈ as, StaticAct c a) (s : St)
    (hrun : run (init c) as = some s) (hp : s.wpc = .parked) (hf : s.flag = false) (hz : s.pendingSet = 0) :
    s.queue = [] ∨ ∃ n, c = some n ∧ s.running ≥ n := by
  suffices h : SInv c s from h.sleep (Or.inr (Or.inr hp)) hf hz
  exact invariant_run_guarded step (StaticAct c) (SInv c)
    (fun m a m' hg hi hst => sinv_step _ m a m' hg hi hst) _ (sinv_init _) as hs s hrun

/-- (count fall-back) A raising count callable leaves the last value in force. -/
theorem C07_count_fallback (last : Option Nat) : evalThrottle last none = last := rfl

/-- (regenerated facts of throttle.py) `_eval_throttle` falls back to the last value; the blocking test and its wait run under
a `Condition` built on the queue's own lock; the admission section and `_do_cancel` notify that condition while holding the lock,
`shutdown()` notifies it too; non-blocking mode never enters the protocol; the wait happens before the shutdown lock is taken and
never on the hand-over thread itself. -/
theorem C07_blocking_guard_facts :
    K4.evalThrottleFallsBack = true ∧ K4.blockTestAndWaitUnderCondition = true ∧ K4.blockSkippedWhenNotBlocking = true ∧
    K4.roomIsConditionOnQueueLock = true ∧ K4.admissionNotifiesRoomUnderLock = true ∧ K4.cancelNotifiesRoomUnderLock = true ∧
    K4.shutdownNotifiesRoom = true ∧ K4.blockBeforeShutdownGate = true ∧ K4.handOverThreadNeverBlocks = true := by
  decide

/-- (blocking test, regenerated from the `while` of `_block_until_ready`) submit() works for every count value: with an unlimited
count it never waits, after shutdown it never waits, and with a limit `n` it waits exactly while the queue holds `n` entries. -/
theorem C07_block_test_spec (q : Nat) (sh : Bool) (n : Nat) :
    K4.blockWait none q sh = false ∧ K4.blockWait (some n) q true = false ∧ K4.blockWait (some n) q false = decide (q ≥ n) := by
  simp [K4.blockWait]

/-- (regenerated from `_submit_loop_iter`) the hand-over thread's locked section notifies the blocked submitters exactly when it
took at least one job off the queue. -/
theorem C07_admission_notifies_iff_popped (q : List Nat) (r : Nat) (th : Option Nat) :
    K4.admissionNotifies q r th = !(K4.admission q r th).1.isEmpty :=
  admissionNotifies_spec q r th

/-- (the blocking-protocol model abstracts the real section faithfully) the hand-over thread's locked section — the regenerated
kernel — shortens the queue by exactly the number of jobs it takes and notifies the blocked submitters iff that number is positive:
it is `BlockProto.pop k` with `k = (K4.admission q r th).1.length`. -/
theorem C07_admission_is_block_pop (q : List Nat) (r : Nat) (th : Option Nat) :
    (K4.admission q r th).2.1.length = q.length - (K4.admission q r th).1.length ∧
    (K4.admission q r th).1.length ≤ q.length ∧
    (K4.admissionNotifies q r th = true ↔ 0 < (K4.admission q r th).1.length) := by
  obtain ⟨h1, _, _, _, _⟩ := admit_spec q r th
  have hl : q.length = (K4.admission q r th).1.length + (K4.admission q r th).2.1.length := by
    conv => lhs; rw [h1]
    simp
  refine ⟨by omega, by omega, ?_⟩
  rw [admissionNotifies_spec]
  cases h : (K4.admission q r th).1 <;> simp

/-- (admission kernel, regenerated from `_submit_loop_iter`) takes a prefix of the queue, counts every taken job,
stops only on an empty queue or a full counter, and never over-fills. -/
theorem C07_admission_kernel (q : List Nat) (r : Nat) (th : Option Nat) :
    q = (K4.admission q r th).1 ++ (K4.admission q r th).2.1 ∧
    (K4.admission q r th).2.2.1 = r + (K4.admission q r th).1.length ∧
    ((K4.admission q r th).2.1 = [] ∨ ∃ c, th = some c ∧ (K4.admission q r th).2.2.1 ≥ c) ∧
    (∀ c, th = some c → (K4.admission q r th).1 ≠ [] → (K4.admission q r th).2.2.1 ≤ c) := by
  obtain ⟨h1, h2, _, h4, h5⟩ := admit_spec q r th
  exact ⟨h1, h2, h4, h5⟩

/-! Non-vacuity: a concrete run with two hand-overs under count = 1 (the second only after the first is done). -/
def demoRun : List Act :=
  [.enqueue 0, .setE, .enqueue 1, .setE, .evalW (some (some 1)), .readW, .admitA, .handOver 0, .handDone, .waitE, .clearE,
   .evalW (some (some 1)), .readW, .admitA, .handDone, .waitE, .ddone 0, .decr 0, .setE, .wake, .clearE,
   .evalW (some (some 1)), .readW, .admitA, .handOver 1]

example : (run (init (some 1)) demoRun).isSome = true := by decide
example : ∀ a ∈ demoRun, StaticAct (some 1) a := by
  intro a ha; simp only [demoRun, List.mem_cons, List.mem_nil_iff, or_false] at ha
  rcases ha with h | h | h | h | h | h | h | h | h | h | h | h | h | h | h | h | h | h | h | h | h | h | h | h | h <;> subst h <;> simp [StaticAct]
example : ((run (init (some 1)) demoRun).map (·.handed)) = some [0, 1] := by decide
/-- a reachable parked state with clear flag and no pending producer (hypotheses of `C07_no_idle_capacity`) -/
example : ((run (init (some 1)) (demoRun.take 16)).map (fun s => (s.wpc, s.flag, s.pendingSet, s.queue, s.running)))
    = some (.parked, false, 0, [1], 1) := by decide

end MoreExec.Throttle

namespace MoreExec.BlockProto
open MoreExec.Gen

/-- runs in which every submitter uses the same (static) limit `n` -/
def StaticAct (n : Nat) : Act → Prop
  | .check tv _ _ => tv = some n
  | _ => True

theorem blocked_inv_step (n : Nat) (s : St) (a : Act) (s' : St) (hg : StaticAct n a) (hi : 0 < s.parked → n ≤ s.qlen)
    (h : step s a = some s') : 0 < s'.parked → n ≤ s'.qlen := by
  cases a with
  | enq => simp only [step] at h; cases h; intro hp; exact Nat.le_succ_of_le (hi hp)
  | pop k =>
    simp only [step] at h
    split at h
    · cases h
      split
      · rename_i hk; subst hk; simpa using hi
      · intro hp; simp [notifyAll] at hp
    · cases h
  | cancelRm =>
    simp only [step] at h
    split at h
    · cases h; intro hp; simp [notifyAll] at hp
    · cases h
  | check tv sh park =>
    simp only [StaticAct] at hg
    subst hg
    simp only [step] at h
    split at h
    · rename_i hc
      cases h
      split
      · rename_i hp
        intro _
        have hw := hc.2
        rw [hp] at hw
        have : K4.blockWait (some n) s.qlen sh = true := hw.symm
        simp [K4.blockWait] at this
        exact this.1
      · exact hi
    · cases h
  | wake timeout =>
    simp only [step] at h
    split at h
    · split at h
      · cases h; intro hp; exact hi (by simp at hp; omega)
      · cases h
    · split at h
      · cases h; exact hi
      · cases h
  | shutBegin => simp only [step] at h; split at h <;> cases h; exact hi
  | shutFlip => simp only [step] at h; split at h <;> cases h; exact hi
  | shutNotify => simp only [step] at h; cases h; intro hp; simp [notifyAll] at hp

/-- (blocks only while the queue holds `count` entries) With a static limit `n`, in every reachable state of the blocking protocol
— any number of submitters, any interleaving of their tests and waits with enqueues, hand-over sections, cancellations, time-outs
and a shutdown — a submitter is asleep in `submit()` only if the queue holds at least `n` entries: nobody ever sleeps while there
is room.  (The former implementation tested the queue and then waited on the hand-over thread's `Event`, two separate steps; a
drain of the queue in between left the submitter asleep for the 30 s fall-back: found by the C07/blocked-with-room monitor and
repaired in /repo.) -/
theorem C07_blocked_only_while_full (n : Nat) (as : List Act) (hs : ∀ a ∈ as, StaticAct n a) (s : St)
    (hrun : run init as = some s) : 0 < s.parked → n ≤ s.qlen :=
  invariant_run_guarded step (StaticAct n) (fun x => 0 < x.parked → n ≤ x.qlen)
    (fun m a m' hg hi hst => blocked_inv_step n m a m' hg hi hst) init (by simp [init]) as hs s hrun

/-- (making room wakes everybody) a hand-over section that took at least one job, a successful cancel of a queued future and the
shutdown notification leave no submitter parked: all of them have been notified. -/
theorem C07_room_wakes_all (s s' : St) (a : Act) (h : step s a = some s')
    (ha : (∃ k, 0 < k ∧ a = .pop k) ∨ a = .cancelRm ∨ a = .shutNotify) :
    s'.parked = 0 ∧ s'.notified = s.notified + s.parked := by
  rcases ha with ⟨k, hk, rfl⟩ | rfl | rfl
  · simp only [step] at h
    split at h
    · cases h
      have : k ≠ 0 := by omega
      simp [this, notifyAll]
    · cases h
  · simp only [step] at h
    split at h
    · cases h; simp [notifyAll]
    · cases h
  · simp only [step] at h; cases h; simp [notifyAll]

/-- (shutdown releases blocked submitters, S17) once `shutdown()` has set the flag, no submitter can go (back) to sleep: every test of
the `while` condition comes out false whatever the queue length and the limit; together with `C07_room_wakes_all` for `shutNotify`
every submitter that was asleep is woken and leaves `_block_until_ready` (its `submit()` then raises in `ensure_alive`, C11). -/
theorem C07_shutdown_releases_blocked (s s' : St) (tv : Option Nat) (sh park : Bool) (hs : s.shut = .done)
    (h : step s (.check tv sh park) = some s') : park = false ∧ s' = s := by
  simp only [step] at h
  split at h
  · rename_i hc
    obtain ⟨hr, hp⟩ := hc
    have hsh : sh = true := by simpa [mayRead, hs] using hr
    subst hsh
    have : park = false := by rw [hp]; simp [K4.blockWait]
    subst this
    simp at h
    exact ⟨rfl, h.symm⟩
  · cases h

/-! Non-vacuity: limit 1; one job queued; a second submitter parks; the hand-over section pops the job and notifies; the submitter
wakes, re-tests and passes. -/
def demo : List Act := [.check (some 1) false false, .enq, .check (some 1) false true, .pop 1, .wake false, .check (some 1) false false, .enq]
example : (run init demo).map (fun s => (s.qlen, s.parked, s.notified)) = some (1, 0, 0) := by decide
example : ∀ a ∈ demo, StaticAct 1 a := by
  intro a ha; simp only [demo, List.mem_cons, List.mem_nil_iff, or_false] at ha
  rcases ha with h | h | h | h | h | h | h <;> subst h <;> simp [StaticAct]
/-- a reachable state with a parked submitter (the hypothesis of `C07_blocked_only_while_full` is satisfiable) -/
example : (run init (demo.take 3)).map (fun s => (s.qlen, s.parked)) = some (1, 1) := by decide
/-- parking although there is room is not a run of the model -/
example : (run init [.check (some 1) false true]).isSome = false := by decide

end MoreExec.BlockProto
